#!/usr/bin/env python3
"""Entry point:  python3 run.py check <Cnn> [--tier quick|thorough] [--seed N] [--replay FILE] [--selftest]

Exit 0: property held on everything explored (KNOWN-FINDING lines are informational)
Exit 1: VIOLATION property=<id> replay=<path>
Exit 2: inconclusive (build / model / harness problem) — never a violation
"""
import argparse
import importlib
import os
import sys
import traceback

sys.path.insert(0, os.path.dirname(os.path.abspath(__file__)))
from lib import core  # noqa: E402


def main():
    ap = argparse.ArgumentParser()
    ap.add_argument("cmd", choices=["check", "setup"])
    ap.add_argument("pid", nargs="?")
    ap.add_argument("--tier", default=os.environ.get("VERIF_TIER", "quick"), choices=["quick", "thorough"])
    ap.add_argument("--seed", type=int, default=None)
    ap.add_argument("--replay", default=None)
    ap.add_argument("--selftest", action="store_true")
    ap.add_argument("--keep", action="store_true", help="keep the scratch directory")
    a = ap.parse_args()
    if a.cmd == "setup":
        from lib import setup
        return setup.main()
    seed = a.seed
    if seed is None:
        try:
            seed = int(os.environ.get("VERIF_SEED", "1"))
        except ValueError:
            seed = 1
    pid = a.pid.upper()
    ctx = core.Ctx(pid, a.tier, seed, replay=a.replay, selftest=a.selftest, keep=a.keep)
    try:
        mod = importlib.import_module("checks.%s" % pid.lower())
        mod.run(ctx)
        rc = core.finish(ctx)
    except core.Inconclusive as e:
        # violations recorded before a later stage (self-test, model run) gave up were observed on the real code: they stand
        _, new = core.classify(ctx.id, ctx.violations)
        if new:
            print("NOTE property=%s: a later stage was inconclusive (%s); reporting the violations already reproduced" % (pid, str(e)[:300]), flush=True)
            ctx.coverage.setdefault("incomplete", str(e)[:300])
            rc = core.finish(ctx)
        else:
            print("INCONCLUSIVE property=%s: %s" % (pid, e), flush=True)
            rc = 2
    except Exception:
        traceback.print_exc()
        print("INCONCLUSIVE property=%s: internal error in the checking machinery" % pid, flush=True)
        rc = 2
    finally:
        ctx.cleanup()
    return rc


if __name__ == "__main__":
    sys.exit(main())
