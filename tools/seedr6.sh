#!/bin/bash
# usage: seedr6.sh <Cnn> [extra seedkeep args]: file the round-6 variant (l) a sub-agent left under /tmp/seedout/<id>/l/
id=$1; shift
python3 /verif/tools/seedkeep.py $id l "$@" 2>&1 | grep -E "KEPT|signatures|\"exit\"|detected|confirmed|NOT|DOES NOT" | tr -s ' ' | tr '\n' ' '; echo
git -C /repo worktree remove --force /tmp/seed-$id 2>/dev/null; git -C /repo worktree prune
