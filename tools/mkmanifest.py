#!/usr/bin/env python3
"""Regenerates MANIFEST.json from the table below and validates it against the schema."""
import json, os, subprocess, sys
V = os.path.dirname(os.path.dirname(os.path.abspath(__file__)))

CHECKS = {
 "C19": dict(
   engine="tlc+gpool-driver",
   technique="TLA+ spec GPool.tla model-checked by TLC; trace validation of recorded runs (Trace_GPool) and directed replay of TLC-generated behaviours (Gen_GPool) on the real gpool",
   category="model_checking",
   text="Exhaustive TLC check of the pool design (every channel operation one action; safety + liveness under weak fairness) for N<=2, Q<=2, <=4 jobs; every recorded run of the real pool must be a behaviour of that spec (silent dispatcher/worker steps placed by TLC), and TLC-generated maximal-progress behaviours are forced through the real pool with jobs held on gates, comparing started/returned/blocked/released sets at every quiescent point. Bounded but interleaving-complete in the model; sampled on the implementation.",
   design_ref="5/C19",
   note="Trusted: Go channel semantics as modelled; TLC; the harness recorder (one lock). Blocking claims are observed with a stability window and must reproduce 3 times."),
}

CHECKS["C02"] = dict(
   engine="tlc+codecdrive",
   technique="TLA+ reference of the wire format (TarsWire.tla) self-checked by TLC on an exhaustive small scope; batch oracle: TLC judges every (type, tag, value) -> bytes -> value record produced by the real Write*/Read*",
   category="model_checking",
   text="TarsWire.tla defines the wire format over byte sequences; TLC proves round trip / narrowest width / widening on the reference for all 8-bit values x tags and 16-bit values, then judges every record of the real codec: all int8/uint8/bool x 256 tags, all 16-bit values x 2 (quick) or 24 (thorough) tags, boundary-dense and random 32/64-bit values, float specials incl. NaN payloads and subnormals, strings at the 255/256 boundary, hand-made non-narrowest encodings, each read back through every admissible reader with sentinel bytes after the field (exact end position).",
   design_ref="5/C02",
   note="Trusted: TarsWire.tla as the format definition, TLC, JSON transport of byte arrays. 32/64-bit spaces are sampled (boundaries of every width +-2, powers of two, random).")

CHECKS["C03"] = dict(
   engine="tlc+codecdrive",
   technique="TLA+ schema-directed reference codec (TarsSchema.tla) self-checked by TLC (round trip, unknown-field insensitivity, truncation on a bounded schema family); batch oracle: TLC strictly decodes the bytes the real generated WriteTo/WriteBlock produce and compares with the value and with what the real ReadFrom/ReadBlock return",
   category="model_checking",
   text="Every struct of the framework's IDL (24 types, schemas extracted independently from tars/protocol/res/*.tars) and of idl/Vt.tars (every type constructor; code regenerated on each run by the tars2go built from the working tree) is filled with boundary-biased random values, encoded by the real generated code and decoded into a fresh struct; TLC's strict reference decoder must accept the bytes as a well-formed encoding of exactly that value (declared tags, ascending, at most once, admissible wire types, narrowest integers, required present) and the real decoder must return the same value.",
   design_ref="5/C03",
   note="Trusted: TarsSchema.tla + lib/idl2schema.py as the meaning of the IDL; TLC; canonical JSON of Go values built by reflection. Values are sampled (40 per type quick, 600 thorough).")
CHECKS["C18"] = dict(
   engine="tlc+epdrive",
   technique="TLA+ reference of endpoint parsing/conversion/cache key (Endpoint.tla) model-checked exhaustively over token sequences; TLC-enumerated option sequences rendered and run through the real Parse/Endpoint2tars/Tars2endpoint, every record judged by TLC (Oracle_Endpoint)",
   category="model_checking",
   text="Endpoint.tla defines Parse as a fold of option tokens over the documented defaults plus weight normalisation, the registry conversions and the cache key; TLC checks round-trip/key-stability/last-wins/order-freedom invariants for every token sequence up to a bound, emits every sequence (and every order of every option subset) as an implementation test with the expected record, and judges what the real code returned field by field; every string up to length 4 over the option alphabet and seeded random strings must not crash.",
   design_ref="5/C18",
   note="Trusted: Endpoint.tla as the documented behaviour; repeated options, exact key text and registry layout are observations, not verdicts (statement silent).")

CODEC_NOTE = "Trusted: TarsSchema.tla (reader semantics, Allowed relation), lib/idl2schema.py, TLC, the harness' own wire splitter/builder (its products are judged by the reference). Sampled over values; exhaustive over the mutation sites of each sampled encoding up to a cap."
CHECKS["C04"] = dict(engine="tlc+codecdrive",
   technique="TLA+ reference reader (TarsSchema.tla, lenient mode) + TLC theorems UnknownSkipped/AbsentRules; batch oracle (Oracle_Dec): real ReadFrom on encodings extended with hand-built unknown fields / with fields removed, into fresh and reused structs, judged by TLC",
   category="model_checking",
   text="For every struct type: valid encodings from the real encoder get 1-3 well-formed unknown fields (all 13 wire types, nested, extended tags) merged at their ordered position, or lose one field; the real decoder's result (fresh and reused target) must equal what the TLA+ reference reader computes from the same bytes (same value, absent optional -> IDL default, absent required -> error).",
   design_ref="5/C04", note=CODEC_NOTE)
CHECKS["C06"] = dict(engine="tlc+codecdrive",
   technique="TLA+ reference reader + Allowed relation (error, or exactly the value of the complete fields present), theorem Truncation checked by TLC; batch oracle (Oracle_Dec) over every prefix / length inflation / wire-type substitution of real encodings",
   category="model_checking",
   text="For valid encodings of every struct type: every proper prefix (all of them up to 48 bytes), each embedded length (string1/4, list, map, simple list) replaced by n+1, remaining+1, 2^31-1, -1, -2^31, n+1000, n-1, and each top-level field replaced by a well-formed field of each other wire type; TLC decides for each mutant whether the real decoder's answer is in Allowed.",
   design_ref="5/C06", note=CODEC_NOTE)
CHECKS["C05"] = dict(engine="tlc+codecdrive",
   technique="TLA+ reference decoder as total function with the reject-before-allocate rule; batch oracle (Oracle_Dec: class agreement + allocation bound) over exhaustive small strings on a reduced alphabet, mutants and random bytes; crash-isolated worker under an address-space limit observes panics, fatal errors, hangs, allocation",
   category="model_checking",
   text="Every byte string up to length 2 (quick) / 3 (thorough) over a 48-symbol alphabet (heads of all wire types at tags 0/1/15 + length bytes) x 4 struct types, random strings over it, mutants of valid encodings of all struct types with hostile lengths and substituted wire types, random bytes, and nesting patterns scaled to 200 k (quick) / 10 M (thorough) levels are decoded by the real ReadFrom / tup.Decode in a worker process; TLC judges ok/err class and the allocation bound, the harness records panic / fatal error / hang.",
   design_ref="5/C05", note=CODEC_NOTE + " Network receive paths (TCP/UDP server, client) are exercised by the C10/C07 harnesses; see DESIGN.md.")

CHECKS["C20"] = dict(engine="tlc+vdrive",
   technique="TLA+ spec LogFlush.tla (queue, flusher's two selects with Go select semantics, flush handshake) model-checked by TLC; trace validation (Trace_LogFlush) of runs of the real logger, including schedules forced through the window with a gate hook between the selects",
   category="model_checking",
   text="TLC checks FlushComplete/OnceEach/OrderPerGoroutine and flush termination exhaustively for 2 goroutines x 2 entries (and confirms that the loop without the drain violates FlushComplete, so the property is not vacuous). The harness holds the real flusher between its two selects with a blocking hook, logs entries, requests the flush and releases it; together with free-running multi-goroutine scenarios every recorded event trace must be a behaviour of the spec with the invariants holding at every step.",
   design_ref="5/C20", note="Trusted: Go select semantics as modelled; the recorder's lock order; hook rogger.flush.between (self-tested every run). Flush timeout raised to 10 s so that only the handshake ends FlushLogger.")

CHECKS["C07"] = dict(engine="tlc+vdrive",
   technique="TLA+ spec Framing.tla (stream/buffer/scan-loop positions model) model-checked by TLC over every partition of small streams; trace validation (Trace_Framing) of the real server and client receive loops fed with scripted streams in scripted chunks, observed through read/packet/parse-error hooks",
   category="model_checking",
   text="TLC explores every split of every stream of up to 3 packets (lengths 0..7, maxLen 6, reads up to 5 bytes) and 4-packet streams around maxLen with coalescing reads: alignment (nothing lost/duplicated/carried), only legal packets handed out, a complete packet is never left waiting, illegal length closes, all legal packets eventually delivered. The real tcp server recv loop and the real client recv loop (real protocol.TarsRequest) are then driven with streams around the 4-byte minimum, the 4096-byte read buffer and maximum lengths 16..10 MB, cut into single bytes / inside headers / all at once / aligned / random; every read size and every packet handed over is recorded by hooks and TLC checks the trace against the spec; an illegal length must close that connection only (a second connection is probed).",
   design_ref="5/C07", note="Trusted: hooks tcp.recv.read/tcp.handleConn/client.recv.read/client.recv.pkg/parseError (self-tested each run); packet identity via uniform payload bytes; 10 MB packets are not physically sent (maximum lengths up to 100000 are, 1 MB packets in the thorough tier).")

CHECKS["C12"] = dict(engine="tlc+vdrive",
   technique="TLA+ spec ServerShutdown.tla (accept loop, recv loops, handlers via goroutine or pool queue/dispatcher, Release handshake, Shutdown poller) model-checked by TLC incl. liveness; trace validation (Trace_ServerShutdown) of real transport.TarsServer runs shut down under load, observed through server hooks and client-side observations",
   category="model_checking",
   text="TLC checks for 2 connections x 3-4 requests, pool 0/1/2: a connection is closed only after everything read from it was answered, no response is written to a closed connection, clients are notified, Shutdown returns only when drained or expired, and under fairness everything read is eventually answered and Shutdown drains (the early-release variant must violate this). Real servers (pool 0/1/2, queue 1/3, default timeouts) get 0-6 requests with handler durations up to 400 ms on 1-2 connections and are shut down 0-300 ms later; every run's event trace (hooks: read, invoked, written, closed, accept exit, pool released; clients: response, close notification, end of stream; Shutdown start/end) must be a behaviour of the spec and end with everything read answered.",
   design_ref="5/C12", note="Trusted: server hooks (self-tested each run); pool abstraction (GPool.tla checked separately by C19); wall clock only via the 4 s context vs <= 400 ms handlers. The window between reading a request and counting it (microseconds) is not modelled.")

CHECKS["C17"] = dict(engine="tlc+confdrive",
   technique="TLA+ reference semantics of the config document (Conf.tla: domain stack machine, proven equal to a declarative balance-counting characterisation by TLC over every document up to a bound); TLC-enumerated documents rendered and parsed by the real conf package, every getter on every path judged by TLC (Oracle_Conf)",
   category="model_checking",
   text="TLC checks on every abstract document up to the bound (incl. ill-nested and hostile ones) that the reference tree holds exactly the written keys (later duplicate wins, re-opened domains merge, comments/blank lines ignored) and that typed getters are total; it then enumerates documents (well-nested, unclosed, one mismatched close, one XML-hostile line) as implementation tests; the driver renders them with whitespace/comment/CRLF variants, parses them with InitFromString/InitFromBytes/NewConf and queries every getter on every path; the oracle requires: well-formed -> ok and equal to the reference; hostile/unclosed -> error or complete; never a panic (20k-200k arbitrary byte strings).",
   design_ref="5/C17", note="Trusted: Conf.tla as the meaning of the format (statement's rules); where the statement is silent (key-only lines as keys, '0'/'1' booleans, sibling key/domain of one name) differences are observations.")

CHECKS["C11"] = dict(engine="tlc+vdrive",
   technique="TLA+ spec ClientConn.tla (shared connection state, per-connection sender/receiver goroutines, Go channel hand-off) model-checked by TLC for NoWriteOnKnownDead / HealthyNotMarkedClosed / NoStranding; trace validation (Trace_ClientConn) of a real transport.TarsClient against a closing server with seeded delays injected at hook points",
   category="model_checking",
   text="TLC explores every interleaving of callers, senders, receivers, the 1 s ticker and idle closes by the server for 3 connections x 2 (thorough: 3) requests: the repaired design satisfies the three properties, the original design violates each of them (checked on every run as a vacuity guard). Real client runs (2-4 calls, server closes the connection in use between calls, next call 0 ms - 1.1 s later, 1-12 ms delays injected at one or two of nine hook points to force rare interleavings) are recorded through hooks taken under the connection lock where the code decides (dial, close, liveness check) and validated step by step; a call issued after the client saw the close must succeed.",
   design_ref="5/C11", note="Trusted: hook placement (decision points under connLock), the Go runtime's FIFO hand-off as modelled. Calls that race with a close are exempt as in the statement. The close-notification (push) path of the adapter is not driven.")

CHECKS["C13"] = dict(engine="tlc+seldrive",
   technique="TLA+ spec Selector.tla (host-deduplicated member list, four strategies, static-weight cycle transliterated and proven equal to the statement's formula by TLC over weight vectors) model-checked over all histories to a depth; TLC-enumerated histories replayed on the four real selectors and judged by TLC (Oracle_Selector), real BuildStaticWeightList vs reference, concurrent runs validated by Trace_Selector (each Select placed atomically between its begin and end)",
   category="model_checking",
   text="TLC checks membership, error-iff-none-eligible, strict rotation and the weighted cycle count max(1, floor(W*R/Wmax)) for every history up to a depth over 3-4 hosts and every weight vector of a scope; it then enumerates every history (and samples deeper ones) as implementation tests: the driver applies them to the real roundrobin / random / modhash / consistenthash selectors and records a window of selections after every operation; the oracle judges panics, non-members, selected-though-none-eligible, error-though-eligible, rotation and weighted cycle. Concurrent selectors/updaters are recorded with begin/end events and validated by TLC; the same scenario runs under -race (reports are observations).",
   design_ref="5/C13", note="Trusted: Selector.tla (order/slot choices where the statement is silent are observations only); the consistent-hash ring itself is C14's subject.")
CHECKS["C14"] = dict(engine="tlc+ringdrive",
   technique="TLA+ spec HashRing.tla (ring as a function of the member set with points as parameter, Lookup with wrap, ModSlot on 16-bit halves, weighted cycle) model-checked for determinism / history independence / minimal disruption; batch oracle (Oracle_HashRing): real consistenthash/modhash answers for ring points, their neighbours and boundary codes along different histories reaching the same set, judged against Lookup/ModSlot with independently computed MD5 points; end-to-end calls with SetClientHash over scripted servers",
   category="model_checking",
   text="TLC proves on small abstract universes that routing is a function of the member set (any two Add/Remove/Refresh histories reaching the same set agree), that removal re-routes only the removed host's codes and addition only moves codes onto the new host; the driver computes the real virtual points independently (crypto/md5), drives the real selectors through twin histories and probes every ring point +-1, 0, 2^32-1 and random codes; TLC judges every answer and the differential statements on consecutive real answers; a universe with a brute-forced 32-bit point collision is included; calls made with a hash code in the context are routed over 5 scripted servers and compared with Lookup/ModSlot over Endpoints().",
   design_ref="5/C14", note="Trusted: MD5 as data; HashRing.tla; the weighted mod-hash verdict uses the cycle the real builder returns (its contents are C13's subject).")

CHECKS["C15"] = dict(engine="tlc+fodrive",
   technique="TLA+ spec Failover.tla (per-endpoint health record with clock-relative saturating ages, the manager's rotation and probe queue; actions Select / CallDone / CheckEp / CheckAll / Advance / Ping; every clause of C15 as an invariant or action property over ghost variables) model-checked by TLC; directed replay: behaviours produced by TLC (Gen_Failover biased walks with -simulate, Plan_Failover enumerated plans that land exactly on the 2 / 5 failures, 5 s / 30 s / 60 s thresholds) are performed step by step on the real ServantProxy / endpointManager / AdapterProxy objects and the projected health record, rotation, probe queue and the server that received each call are compared with the model after every step",
   category="model_checking",
   text="TLC checks NeverOutWithoutFailure, NeverOutBelowTwoFailures, AllFailingLeaves, ProbeSpacing, ProbeIsOneCall, ProbeDecides, OnlyProbeReturns and CallsGoSomewhere exhaustively for 1-3 endpoints with sequential, overlapping and concurrent calls, with and without client keep-alive. The driver builds a real ServantProxy over a scripted registry and scripted TCP servers (answering or silent per call), runs the status check through a build-tagged export, advances time by shifting the adapters' timestamps, and replays every TLC behaviour: after each step the real status / failCount / lastFailCount / sendCount / ages / rotation / probe queue must equal the model's projection and each call must reach the endpoint the model chose. Corrupted behaviours must diverge (binding self-test).",
   design_ref="5/C15", note="Trusted: Failover.tla; time is advanced by shifting timestamps (all comparisons in the health logic are now - t >= threshold); the registry keeps answering with the same endpoints on distinct hosts.")

CHECKS["C01"] = dict(engine="tlc+calldrive",
   technique="TLA+ spec CallPipeline.tla (client/server program counters per call, filter events per registration mode, transported values as parameters of the actions) model-checked by TLC; trace validation (Trace_CallPipeline) of real generated proxy <-> real generated dispatcher runs with recording implementation, filters and call sites; equality of what was passed/received/produced/returned is decided by the spec's invariants on canonical strings",
   category="model_checking",
   text="TLC checks ImplSeesCaller / CallerSeesImpl / ExactlyOnce / FilterOrder for two concurrent calls (two-way and one-way, success and failure) under the filter modes. For 8 filter configurations (none, legacy, middleware chains, pre/post, mixed; one child process each) a server started through the public API with the dispatcher generated from idl/Call.tars by the tars2go built from the working tree serves 8 concurrent callers sharing one generated proxy: 10 functions over every IDL type, random arguments built by reflection, random request/response context and status maps, failures with tars.Error codes and plain errors, one-way calls; every CallStart / filter / Impl / ImplRet / reply-written (hook) / CallEnd event is validated against the spec, which compares the canonical values.",
   design_ref="5/C01", note="Trusted: canonical JSON of Go values (reflection), attribution of events to calls via the context key vcall, hook tcp.handler.written (counted). TARS protocol version over TCP; TUP/JSON dispatcher versions are exercised by C10. Out parameters are fresh variables (reuse is C04's subject); -0.0 and +0.0 are identified.")

CHECKS["C10"] = dict(engine="tlc+srvdrive",
   technique="TLA+ spec ServerInvoke.tla (the relation Resp(request, configuration) written from the statement + a state machine of receive loop / pool / invoker goroutine / handle-timeout timer / reply write) model-checked by TLC; batch oracle (Oracle_ServerInvoke EXTENDS TarsSchema): every frame a real server sent back is decoded by the TLA+ reference decoder and each request's set of replies is judged against Resp",
   category="model_checking",
   text="TLC checks AtMostOnce, NoStrayReply, per-clause invariants and termination for pipelined requests on the code-shaped state machine (the four known deviations, switched on one at a time, each violate their clause: vacuity guards). Real servers started through the public API (tcp/udp, pool 0/1/2/4, handle timeout 0/150 ms; one child process per configuration) receive TARS/TUP/JSON requests, two-way and one-way, for ping / ok / failing / slow / unknown functions with timeouts 0 / already elapsed / ample, pipelined on 1-4 connections; the frames that come back are strict-decoded by TarsSchema and judged: exactly one reply (none for one-way), id / version / packet type echoed, ping not dispatched, error code and message conveyed, queue-timeout code without execution, timeout reply under a handle timeout.",
   design_ref="5/C10", note="Trusted: ServerInvoke.tla Resp as the reading of the statement; faults that harness timing could explain are reported only if they reproduce 3 times; UDP quiescence is time-based.")

CHECKS["C16"] = dict(engine="tlc+tars2go+codecdrive",
   technique="TLA+ token-level pushdown automaton of the IDL (IdlGrammar.tla, checked exhaustively to stack depth 3) whose transitions become one run of the tars2go binary each, judged by TLC (Oracle_IdlGrammar); a TLA+ generative model of valid programs (IdlPrograms.tla) sampled by TLC, rendered, generated, compiled and pushed through the TarsSchema codec oracles with independently extracted schemas; regeneration diff of the checked-in bindings",
   category="model_checking",
   text="Clause 1: TLC samples abstract programs (modules, enums, consts, structs with members of every type incl. nested containers, cross-module references, defaults, fixed arrays, interfaces); each is rendered to IDL, run through the tars2go built from the working tree (must terminate, exit 0), compiled in batches, enum constants checked, and the generated codecs judged by Oracle_Schema / Oracle_Dec (C03/C04/C06 oracles) against schemas from lib/idl2schema.py. Clause 2: for every configuration x token of the automaton one run of the binary (viable token + completion, soft token, stray token, end of input) plus random bytes, token soup and cut/mutated programs: it must terminate within 5 s; exit 0 must come with compiling output; TLC's Parse decides what is in the language. Clause 3: tars/protocol/res/*.tars regenerated with the Makefile's flags and compared with the checked-in files after gofmt and banner normalisation.",
   design_ref="5/C16", note="Trusted: IdlGrammar.tla as the definition of the language; go build as the judge of 'compiles'; lenient acceptances whose output compiles are observations. Call transparency: every operation of every sampled program and of an exhaustive enumeration of parameter-direction sequences (IdlSignatures.tla: every in/out order up to 4-5 parameters, with and without return value) is called through the generated proxy -> generated Dispatch -> recording servant in-process and judged by Oracle_Call (inputs delivered, outputs and return value brought back, servant entered once, one-way); the real transport under such calls is C01's subject.")

MUX_NOTE = "Trusted: hooks in doInvoke/Recv (self-tested), test-only exports of the counters, the harness peer. Wall clock appears only in C09's deadline judgement (dial bound + 500 ms slack + 5 %, overruns must reproduce 3 times)."
CHECKS["C08"] = dict(engine="tlc+muxdrive",
   technique="TLA+ specs IdGen.tla / ClientMux.tla (id generator with the real wrap rule on a small id space, pending-reply table, callers, one receiver goroutine per packet, adversarial peer) model-checked by TLC; trace validation (Trace_ClientMux) of real ServantProxy calls against a scripted peer (permuted, duplicated, foreign, zero, late replies) with hooks at register/lookup/deliver/unregister; batch oracle over real draws of genRequestID around the wrap point",
   category="model_checking",
   text="TLC checks ReplyMatches, IdNonZero, IdsDistinct, OnePacketOneCaller and the accounting invariants for 2-3 callers, id space 4 and up to 5 peer packets of any kind. Real calls (up to 32 callers quick, 512 thorough, sharing one proxy) run against a peer that answers in order, permuted, twice, with foreign ids, id 0 and late; every hook event and call outcome is validated against the spec (a caller that ends with a reply got the reply to its own request id and payload). The id counter is set just below the wrap point through a test-only export and drawn sequentially and in bursts of up to 6400 concurrent draws: never 0, never a duplicate among live ids.",
   design_ref="5/C08", note=MUX_NOTE)
CHECKS["C09"] = dict(engine="tlc+muxdrive",
   technique="ClientMux.tla with a discrete clock and maximal progress: DeadlineInv, NoResidue, LateReplyHarmless model-checked by TLC (deviation configs must violate: vacuity guards); trace validation of real calls against peers that stay silent, answer late, close after receiving, send garbage, refuse or black-hole connections, with counters read through test-only exports at quiescence",
   category="model_checking",
   text="For 5 peer behaviours x timeout settings (50-300 ms, context deadlines shorter and longer than the configured timeout) x 1-32 callers every call must return by its effective deadline + dial bound + slack, and after quiescence the pending-reply table, ServantProxy.queueLen, the manager's invokeNum and the transport's in-flight counter must be back at their previous values; a late reply must change no other call. TLC validates each run's trace (events, recorded times, counters) against ClientMux.",
   design_ref="5/C09", note=MUX_NOTE + " The transport's connection.invokeNum is counted as an in-flight counter of the statement (two known findings).")

PENDING = {}

# What the three rounds of seeded changes added to each check (appended to the description of the level claimed)
ADDENDA = {
 "C01": "Also: filters registered in stages between calls (registration is state of the model), serial runs through every generated entry point (Fn / FnWithContext / FnOneWayWithContext with 0-2 option maps), a run with 4-64 KiB values.",
 "C02": "Read targets are pre-filled with junk, so a read that leaves part of its target untouched shows.",
 "C04": "Also: members removed from nested structs, and one unknown list of 10050 structs (the reference is shown the encoding without it). Every struct is also decoded with all nested structs at their defaults (empty struct bodies on the wire).",
 "C05": "Also: a probe of every nesting pattern at 5,000,000 levels in the quick tier, a work bound (a decode of <= 64 KiB taking > 2 s twice counts as a hang), TUP maps and attribute values announcing negative / huge lengths, and the client receive path: a real client process behind a man in the middle that rewrites a real server's responses. Round 4: nested MAP / LIST chains in positions that really are skipped (tag 0 of the packets, a tag gap of Vt.Inner, through Vt.Opts.inn), and about 8,000 well-formed requests whose header fields go through their boundary values (message-type bits x status keys x trace/dyeing key shapes, timeout, packet type, version, servant, function, context) on the tcp and udp servers. Server deaths are attributed by bisection on fresh children over the last six batches; every announced length of every function's arguments is always in the corpus.",
 "C06": "Also the TUP attribute map (tup.UniAttribute.Decode) as pseudo struct tup.Attr. Round 6: every 1-byte string length is also re-announced as a 4-byte length (own length, remaining+1, 2^31, 2^31+n, 2^32-1, 2^32-2).",
 "C07": "Also: receivers with a read timeout and silent peers, up to three successive connections of one receiver (streams cut inside packets, reconnects), framing asked of the real AdapterProxy (a ServantProxy as client) and of tars.Protocol.",
 "C08": "Also: a second call straight after a duplicated answer, ids as seen on the wire incl. one-way requests, bursts started at the wrap point, client filter registrations (own processes). Round 4: adapters closed under outstanding calls through the manager's own registry refresh (Trace_ClientMuxAdp / MC_ClientMuxAdp; a process exit with calls in flight has no step in the model), events journalled to disk.",
 "C09": "Also: boundary configurations (read / write timeout 0, 1 ms dial timeout, ObjQueueMax 0/1, sub-millisecond deadlines) with follow-up calls, a head-of-line class with stamped packets (TimelyReply), a transport counter that is not requests minus packets. Round 4: client filters that are not transparent (ClientFilt.tla: reject, override, invoke again; every branch of the filter chain), and the timing wheel behind the read / write timeouts (TimeWheel.tla: exhaustive for 1-4 slots, runs of the real wheel recorded under tw.lock and validated, package-level arithmetic judged by Oracle_TimeWheel). One-way calls against reading / closing / refusing peers are judged at quiescence by Oracle_OneWay.",
 "C10": "Also: server filter registrations (legacy, pre/post, middlewares, all) and context-free servants as configurations, each in its own child process. An observation stage (no verdicts) folds report sequences through the real stat aggregation step and compares with StatAgg.tla.",
 "C11": "Also: server closes while calls are under way, server restarts with failed dials, receivers held longer than the gap between closes, call timeouts below the sender's 1 s tick, and the close-notification path through the real ServantProxy. A call issued while the connection in use is healthy is owed its answer too (late report of an old connection's receiver under a healthy connection).",
 "C12": "Also: one-way requests, clients that vanish with a reset, 2-3 calls of Shutdown, up to 6 connections in mixed states, requests sent during the shutdown; the client must see the notification before the end of its stream. Round 4: the response write is two steps (WriteBegin / WriteEnd); responses of 1-16 MiB to clients that start reading seconds after Shutdown, at a shutdown and at an idle close; a stream that ends inside a response is never accepted for a live client.",
 "C13": "A stress stage selects at full speed from 32 goroutines with nothing recorded in between (panic / foreign endpoint are verdicts; a strategy named by a data race report is stressed on until the race does damage or the budget is used up). Also: weight types and mixed sets, static weights 1..3, and manager histories (registry refresh / block / recover) through a real ServantProxy.",
 "C14": "Also: registry-fed proxies with endpoints blocked and recovered and registry refreshes (permuted replies, endpoints added / dropped) through the manager's own refresher; Manager.tla. Round 6: in the universe with a shared ring point the host the map attributes the point to is removed first, then the other, both brought back and removed again (installed by Refresh and by Adds, both orders).",
 "C15": "Also: refused connections and endpoints going down and coming back, registry refreshes interleaved with blocking, probing and recovery.",
 "C16": "Also: every acyclic include graph up to 4 files (IdlIncludes), every program generated under its own assignment of the tool's switches (IdlSwitches, 3-way covering in the quick tier). Round 4: include graphs of any shape up to 3-5 files (self-includes, cycles, missing files, diamonds; IdlIncludeGraphs.tla + Oracle_IncludeGraphs), the tool run with a time limit and an output cap.",
 "C17": "Also: sessions in which the caller mutates what a getter returned, both readings of a bare key line, and the application's reading of the configuration (AppConf.tla: 53 settings with dependent defaults, one child process per document). Lines with an empty key ('= v', '==') must appear in the line listing (EmptyKeyLinesAreLinesOnly).",
 "C18": "Also: direct addresses through tars.NewServantProxy / the endpoint manager (mixed-case hosts, lists) and adapter endpoints as stored by parseServerConfig (-b absent / equal / different).",
 "C20": "Also: queue capacity 2 (test export), the Infof and Trace entry points, the framework's file writer across a re-open, and real child processes that end by a panic under tars.CheckPanic or inside tars.Run. Round 4: window scenarios (flush requested while k entries are queued and the flusher is between its poll and its select) with a slow recording writer, judged at the instant FlushLogger returns, also in child processes; SignalFirst guard model.",
}
for _k, _v in ADDENDA.items():
    CHECKS[_k]["text"] = CHECKS[_k]["text"] + " " + _v

def main():
    props = [json.loads(l)["id"] for l in open(os.path.join(V, "properties.jsonl"))]
    hooks_file = os.path.join(V, "hooks.json")
    hooks = json.load(open(hooks_file)) if os.path.exists(hooks_file) else {"source_commits": []}
    m = {
      "version": 1,
      "setup_cmd": "python3 run.py setup",
      "hooks": {
        "guard": "verif",
        "enable": "go build -tags verif (the harness module replaces github.com/TarsCloud/TarsGo with /repo)",
        "baseline_off_cmd": "cd /repo && export GOFLAGS=-mod=mod GOPROXY=off GOSUMDB=off && go test -vet=off -count=1 -timeout 25m ./... ; (cd contrib/log && go test -vet=off -count=1 ./...)",
        "source_commits": hooks.get("source_commits", []),
        "add_only": True,
      },
      "engines": [
        {"name": "tlc", "path": "/verif/lib/tlc.py", "kind_free_text": "TLC model checker on the TLA+ modules under /verif/spec (exhaustive MC configs, trace validation, behaviour generation, batch oracles)", "serves_properties": sorted(CHECKS)},
        {"name": "vdrive", "path": "/verif/harness/cmd/vdrive", "kind_free_text": "Go conformance harness built from /repo's working tree with -tags verif: records traces of the real code and replays TLC-generated behaviours", "serves_properties": sorted(CHECKS)},
      ],
      "checks": [],
      "not_applicable": [],
      "notes": "Every check: python3 run.py check <id> --tier quick|thorough; exit 0 held / 1 VIOLATION / 2 inconclusive. known_findings.json lists recorded defects; see DESIGN.md.",
    }
    for pid in props:
        if pid in CHECKS:
            c = CHECKS[pid]
            m["checks"].append({
              "property_id": pid,
              "quick_cmd": "python3 run.py check %s --tier quick" % pid,
              "thorough_cmd": "python3 run.py check %s --tier thorough" % pid,
              "evidence_file": "/verif/evidence/%s.json" % pid,
              "replay_cmd_template": "python3 run.py check %s --replay {path}" % pid,
              "engine": c["engine"],
              "level_claimed": {"category": c["category"], "text": c["text"], "design_ref": c["design_ref"]},
              "level_note": c["note"],
              "technique": c["technique"],
            })
        else:
            m["not_applicable"].append({"property_id": pid, "reason": PENDING.get(pid, "check not built yet in this session (planned: see DESIGN.md section 5); no claim is made for it")})
    path = os.path.join(V, "MANIFEST.json")
    json.dump(m, open(path, "w"), indent=1)
    open(path, "a").write("\n")
    try:
        import jsonschema
    except ImportError:
        r = subprocess.run(["python3-vt", "-c", "import json,jsonschema,sys; jsonschema.validate(json.load(open(sys.argv[1])), json.load(open('/root/.vp/MANIFEST.schema.json'))); print('manifest valid')", path])
        return r.returncode
    jsonschema.validate(m, json.load(open('/root/.vp/MANIFEST.schema.json')))
    print("manifest valid")
    return 0

if __name__ == "__main__":
    sys.exit(main())
