#!/usr/bin/env python3
"""Confirm a sub-agent's seeded change and file it under /verif/seeded/<id>-<variant>/.
usage: seedkeep.py <Cnn> <variant> [--checks C02,C03] [--tier quick]
Steps (all in a scratch worktree of /repo HEAD, never in /repo): patch applies; go build + vet; existing tests of touched
packages pass; the demo FAILS with the patch and PASSES without; then the registered check(s) are run against the patched tree."""
import json, os, re, shutil, subprocess, sys, tempfile, time
pid, var = sys.argv[1], sys.argv[2]
checks, tier = [pid], "quick"
a = sys.argv[3:]
while a:
    k = a.pop(0)
    if k == "--checks": checks = a.pop(0).split(",")
    elif k == "--tier": tier = a.pop(0)
src = "/tmp/seedout/%s/%s" % (pid, var)
patch = os.path.join(src, "patch.diff")
env = dict(os.environ, GOFLAGS="-mod=mod", GOPROXY="off", GOSUMDB="off", GOTOOLCHAIN="local")
def sh(cmd, cwd, timeout=900):
    p = subprocess.run(cmd, cwd=cwd, env=env, shell=True, capture_output=True, text=True, timeout=timeout)
    return p.returncode, (p.stdout + p.stderr)[-1500:]
wt = tempfile.mkdtemp(prefix="seedkeep-%s%s-" % (pid, var)); os.rmdir(wt)
subprocess.run(["git", "-C", "/repo", "worktree", "add", "-q", wt, "HEAD"], check=True)
res = {"property": pid, "variant": var, "repo_head": subprocess.run(["git", "-C", "/repo", "rev-parse", "--short", "HEAD"], capture_output=True, text=True).stdout.strip()}
try:
    run_txt = open(os.path.join(src, "demo", "RUN.txt")).read().strip() if os.path.exists(os.path.join(src, "demo", "RUN.txt")) else ""
    # the demo command is written for the agent's worktree: retarget it
    cmd = run_txt.replace("/tmp/seed-%s" % pid, wt).replace("\n", " ")
    m = re.search(r"`([^`]+)`", cmd)
    if cmd.lstrip().startswith("("):
        pass            # a complete (sub)shell command line: taken as it is
    elif m and not cmd.startswith("From"):
        cmd = m.group(1)
    else:
        # strip a prose prefix ("From <dir> (...): ") and trailing remarks ("   (builds ...)", "  # ...")
        pre = re.search(r"\(after:? `?(cp [^`)]+)`?\): ", cmd)
        if cmd.startswith("From") and "): " in cmd:
            cmd = cmd.split("): ", 1)[1]
            if pre:
                cmd = pre.group(1) + " && " + cmd
        elif cmd.startswith("From") and ": " in cmd:
            cmd = cmd.split(": ", 1)[1]
        starts = [cmd.find(t) for t in ("cp -r /", "cp /", "sh /", "cd /", "go test", "go run", "GOFLAGS=", "bash /") if cmd.find(t) >= 0]
        if starts:
            cmd = cmd[min(starts):]
        cmd = re.sub(r"\s{2,}[(#].*$", "", cmd).strip()
    # a demo whose command does not copy its test files itself: put every *_test.go of demo/ into the (first) package the
    # go test command names
    if "cp " not in cmd and "sh " not in cmd and "bash " not in cmd and not cmd.lstrip().startswith("("):
        m2 = re.search(r"go test .*?(\./[\w/.\-]+)", cmd)
        tests = [f for f in os.listdir(os.path.join(src, "demo")) if f.endswith("_test.go")]
        if m2 and tests:
            cmd = " && ".join("cp %s %s" % (os.path.join(src, "demo", f), m2.group(1).rstrip("/") + "/") for f in tests) + " && " + cmd
    # 1. without the patch the demo passes
    rc0, out0 = sh(cmd, wt)
    res["demo_without_change"] = {"rc": rc0, "tail": out0[-300:]}
    sh("git checkout -- . && git clean -fdq", wt)
    # 2. patch applies, builds, vets
    rc, out = sh("git apply %s" % patch, wt)
    res["applies"] = rc == 0
    if rc != 0: print("PATCH DOES NOT APPLY", out); sys.exit(3)
    files = subprocess.run(["git", "-C", wt, "diff", "--name-only"], capture_output=True, text=True).stdout.split()
    res["files"] = files
    if any(f.startswith("tars/tools/tars2go") for f in files):
        rc, out = sh("cd tars/tools/tars2go && go build -o /dev/null . && go vet ./...", wt)
    else:
        rc, out = sh("go build ./... && go vet ./tars/...", wt)
    res["build_vet_ok"] = rc == 0
    pkgs = sorted({os.path.dirname(f) for f in files if f.endswith(".go")})
    tests = {}
    for p in pkgs:
        if p.startswith("tars/tools/tars2go"):
            rc, out = sh("cd tars/tools/tars2go && go test -vet=off -count=1 ./...", wt)
        else:
            rc, out = sh("go test -vet=off -count=1 ./%s/" % p, wt)
        ok = rc == 0 or ("consistenthash" in p and "TestKetamaHashAlg_Hash" in out and out.count("--- FAIL") <= 2)
        tests[p] = "pass" if ok else "FAIL: " + out[-300:]
    res["existing_tests"] = tests
    # 3. with the patch the demo fails
    rc1, out1 = sh(cmd, wt)
    res["demo_with_change"] = {"rc": rc1, "tail": out1[-300:]}
    sh("git clean -fdq -e '*.go' ; true", wt)
    # remove the demo test file again so that the check sees only the source change
    subprocess.run("git -C %s status --porcelain | grep '^??' | awk '{print $2}' | xargs -r -I{} rm -rf %s/{}" % (wt, wt), shell=True)
    # 4. run the checks
    cenv = dict(os.environ, VERIF_REPO=wt, VERIF_SEED="1")
    det = {}
    for c in checks:
        t0 = time.time()
        p = subprocess.run(["python3", "/verif/run.py", "check", c, "--tier", tier], cwd="/verif", env=cenv, capture_output=True, text=True)
        sigs = sorted(set(re.findall(r"signature: (.*)", p.stdout)))
        det[c] = {"exit": p.returncode, "signatures": sigs[:10], "wall_s": round(time.time() - t0, 1),
                  "last": [l for l in p.stdout.splitlines() if l.startswith(("OK", "INCONCLUSIVE"))][-1:]}
    res["checks"] = det
    res["detected"] = any(v["exit"] == 1 for v in det.values())
    res["confirmed"] = bool(res["applies"] and res["build_vet_ok"] and all(v == "pass" for v in tests.values()) and rc0 == 0 and rc1 != 0)
finally:
    subprocess.run(["git", "-C", "/repo", "worktree", "remove", "--force", wt])
    shutil.rmtree(wt, ignore_errors=True)
    subprocess.run("rm -f /verif/replays/*", shell=True)
print(json.dumps(res, indent=1))
if res.get("confirmed"):
    dst = "/verif/seeded/%s-%s" % (pid, var)
    os.makedirs(dst, exist_ok=True)
    shutil.copy(patch, os.path.join(dst, "patch.diff"))
    if os.path.isdir(os.path.join(dst, "demo")): shutil.rmtree(os.path.join(dst, "demo"))
    shutil.copytree(os.path.join(src, "demo"), os.path.join(dst, "demo"))
    readme = os.path.join(src, "README.md")
    needs = open(readme).read()[:3000] if os.path.exists(readme) else ""
    json.dump({"property": pid, "variant": var, "breaks": pid, "needs_to_manifest_and_description": needs,
               "verified": res}, open(os.path.join(dst, "meta.json"), "w"), indent=1)
    print("KEPT", dst, "detected=%s" % res["detected"])
else:
    print("NOT CONFIRMED")
