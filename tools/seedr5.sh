#!/bin/bash
# usage: seedr2.sh <Cnn> [extra seedkeep args]: file the round-5 variant (k) a sub-agent left under /tmp/seedout/<id>r2/
id=$1; shift
for v in k; do
  src=/tmp/seedout/${id}r5/$v
  [ -d "$src" ] || continue
  rm -rf /tmp/seedout/$id/$v; mkdir -p /tmp/seedout/$id; cp -r $src /tmp/seedout/$id/$v
  grep -rlI -e "/tmp/seedout/${id}r5" -e "/tmp/seed5-$id" /tmp/seedout/$id/$v | xargs -r sed -i -e "s#/tmp/seedout/${id}r5#/tmp/seedout/$id#g" -e "s#/tmp/seed5-$id#/tmp/seed-$id#g"
  python3 /verif/tools/seedkeep.py $id $v "$@" 2>&1 | grep -E "KEPT|signatures|\"exit\"|detected|confirmed|NOT|DOES NOT" | tr -s ' ' | tr '\n' ' '; echo
done
git -C /repo worktree remove --force /tmp/seed5-$id 2>/dev/null; git -C /repo worktree prune
