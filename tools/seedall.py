#!/usr/bin/env python3
"""Regression over every kept seeded change: apply each patch in a scratch worktree of /repo HEAD and run the check(s) that are
recorded as detecting it (quick tier).  Writes /verif/seeded/SUMMARY.md.  usage: seedall.py [-j N] [ids...]"""
import json, os, re, subprocess, sys, tempfile, shutil, glob
from concurrent.futures import ThreadPoolExecutor
args = sys.argv[1:]
jobs = 3
if args and args[0] == "-j":
    jobs = int(args[1]); args = args[2:]
dirs = sorted(d for d in glob.glob("/verif/seeded/C*-?") if not args or os.path.basename(d).split("-")[0] in args)
env = dict(os.environ, GOFLAGS="-mod=mod", GOPROXY="off", GOSUMDB="off", GOTOOLCHAIN="local")

def one(d):
    name = os.path.basename(d)
    pid = name.split("-")[0]
    meta = json.load(open(os.path.join(d, "meta.json")))
    ch = meta.get("verified", {}).get("checks", {})
    want = [c for c, v in ch.items() if v.get("exit") == 1] or [pid]
    wt = tempfile.mkdtemp(prefix="seedall-%s-" % name); os.rmdir(wt)
    subprocess.run(["git", "-C", "/repo", "worktree", "add", "-q", "--detach", wt, "HEAD"], check=True)
    try:
        r = subprocess.run(["git", "-C", wt, "apply", os.path.join(d, "patch.diff")], capture_output=True, text=True)
        if r.returncode != 0:
            return name, "PATCH-DOES-NOT-APPLY", "", ""
        res = []
        for c in want:
            p = subprocess.run(["python3", "/verif/run.py", "check", c, "--tier", "quick", "--seed", "1"], cwd="/verif",
                               env=dict(env, VERIF_REPO=wt), capture_output=True, text=True)
            sigs = sorted(set(re.findall(r"signature: (.*)", p.stdout)))
            res.append((c, p.returncode, sigs[:2]))
            if p.returncode == 1:
                return name, "detected", c, "; ".join(sigs[:2])
        return name, "NOT-DETECTED", ",".join("%s:exit%d" % (c, rc) for c, rc, _ in res), ""
    finally:
        subprocess.run(["git", "-C", "/repo", "worktree", "remove", "--force", wt], capture_output=True)
        shutil.rmtree(wt, ignore_errors=True)

with ThreadPoolExecutor(max_workers=jobs) as ex:
    rows = list(ex.map(one, dirs))
head = subprocess.run(["git", "-C", "/repo", "rev-parse", "--short", "HEAD"], capture_output=True, text=True).stdout.strip()
with open("/verif/seeded/SUMMARY.md", "w") as f:
    f.write("# Seeded changes against /repo %s (quick tier, seed 1, regression run of tools/seedall.py)\n\n" % head)
    f.write("| change | outcome | by | first signatures |\n|---|---|---|---|\n")
    for r in rows:
        f.write("| %s | %s | %s | %s |\n" % r)
    f.write("\n%d changes, %d detected.\n" % (len(rows), sum(1 for r in rows if r[1] == "detected")))
print("\n".join("%s %s %s" % r[:3] for r in rows if r[1] != "detected"))
print(len(rows), "changes,", sum(1 for r in rows if r[1] == "detected"), "detected")
