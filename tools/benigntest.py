#!/usr/bin/env python3
"""Run checks against /repo + a behaviour-preserving change (false-alarm test) and file the change under
/verif/seeded/benign/<id>-<variant>/.  usage: benigntest.py <Cnn> <variant> [--checks C08,C09] [--seeds 1,2]
The change comes from /tmp/seedout/<id>ben/<variant>/{patch.diff,README.md}.  Expected outcome: every check exits 0."""
import json, os, re, shutil, subprocess, sys, tempfile
pid, var = sys.argv[1], sys.argv[2]
checks, seeds = [pid], ["1"]
a = sys.argv[3:]
while a:
    k = a.pop(0)
    if k == "--checks": checks = a.pop(0).split(",")
    elif k == "--seeds": seeds = a.pop(0).split(",")
src = "/tmp/seedout/%sben/%s" % (pid, var)
patch = os.path.join(src, "patch.diff")
env = dict(os.environ, GOFLAGS="-mod=mod", GOPROXY="off", GOSUMDB="off", GOTOOLCHAIN="local")
def sh(cmd, cwd, timeout=1200):
    p = subprocess.run(cmd, cwd=cwd, env=env, shell=True, capture_output=True, text=True, timeout=timeout)
    return p.returncode, (p.stdout + p.stderr)[-1500:]
wt = tempfile.mkdtemp(prefix="benign-%s%s-" % (pid, var)); os.rmdir(wt)
subprocess.run(["git", "-C", "/repo", "worktree", "add", "-q", "--detach", wt, "HEAD"], check=True)
res = {"property": pid, "variant": var, "kind": "behaviour-preserving", "repo_head": subprocess.run(["git", "-C", "/repo", "rev-parse", "--short", "HEAD"], capture_output=True, text=True).stdout.strip()}
try:
    rc, out = sh("git apply %s" % patch, wt)
    res["applies"] = rc == 0
    if rc != 0:
        print("PATCH DOES NOT APPLY", out); sys.exit(3)
    files = subprocess.run(["git", "-C", wt, "diff", "--name-only"], capture_output=True, text=True).stdout.split()
    res["files"] = files
    if any(f.startswith("tars/tools/tars2go") for f in files):
        rc, out = sh("cd tars/tools/tars2go && go build -o /dev/null . && go vet ./...", wt)
    else:
        rc, out = sh("go build ./... && go build -tags verif ./tars/... && go vet ./tars/...", wt)
    res["build_vet_ok"] = rc == 0
    if rc != 0: res["build_out"] = out[-600:]
    tests = {}
    for p in sorted({os.path.dirname(f) for f in files if f.endswith(".go")}):
        if p.startswith("tars/tools/tars2go"):
            rc, out = sh("cd tars/tools/tars2go && go test -vet=off -count=1 ./...", wt)
        else:
            rc, out = sh("go test -vet=off -count=1 ./%s/" % p, wt)
        ok = rc == 0 or ("consistenthash" in p and "TestKetamaHashAlg_Hash" in out and out.count("--- FAIL") <= 2)
        tests[p] = "pass" if ok else "FAIL: " + out[-300:]
    res["existing_tests"] = tests
    res["checks"] = {}
    quiet = True
    for c in checks:
        for sd in seeds:
            p = subprocess.run(["python3", "/verif/run.py", "check", c, "--tier", "quick", "--seed", sd], cwd="/verif",
                               env=dict(env, VERIF_REPO=wt), capture_output=True, text=True)
            sigs = sorted(set(re.findall(r"signature: (.*)", p.stdout)))
            last = [l for l in p.stdout.splitlines() if l.startswith(("OK", "INCONCLUSIVE", "VIOLATION"))][-1:]
            res["checks"]["%s@%s" % (c, sd)] = {"exit": p.returncode, "signatures": sigs[:10], "last": [x[:300] for x in last]}
            quiet = quiet and p.returncode == 0
    res["quiet"] = quiet
finally:
    subprocess.run(["git", "-C", "/repo", "worktree", "remove", "--force", wt])
    shutil.rmtree(wt, ignore_errors=True)
dst = "/verif/seeded/benign/%s-%s" % (pid, var)
os.makedirs(dst, exist_ok=True)
shutil.copy(patch, dst)
if os.path.exists(os.path.join(src, "README.md")):
    shutil.copy(os.path.join(src, "README.md"), dst)
json.dump(res, open(os.path.join(dst, "meta.json"), "w"), indent=1)
print("%s-%s applies=%s build=%s tests=%s quiet=%s %s" % (pid, var, res.get("applies"), res.get("build_vet_ok"),
      all(v == "pass" for v in res.get("existing_tests", {}).values()), res.get("quiet"),
      {k: (v["exit"], v["signatures"][:3]) for k, v in res.get("checks", {}).items() if v["exit"] != 0}))
