#!/usr/bin/env python3
"""Run the quick tier of a check against /repo + a seeded change, in a scratch worktree (never in /repo itself).
usage: seedtest.py <Cnn> <patch.diff> [--tier quick|thorough] [--seed N] [--checks C01,C02]
Prints exit status and the signatures reported; removes the worktree afterwards."""
import os, re, subprocess, sys, tempfile, shutil
pid, patch = sys.argv[1], os.path.abspath(sys.argv[2])
tier = "quick"; seed = "1"; checks = [pid]
a = sys.argv[3:]
while a:
    k = a.pop(0)
    if k == "--tier": tier = a.pop(0)
    elif k == "--seed": seed = a.pop(0)
    elif k == "--checks": checks = a.pop(0).split(",")
wt = tempfile.mkdtemp(prefix="seedwt-%s-" % pid)
os.rmdir(wt)
subprocess.run(["git", "-C", "/repo", "worktree", "add", "-q", wt, "HEAD"], check=True)
try:
    r = subprocess.run(["git", "-C", wt, "apply", patch], capture_output=True, text=True)
    if r.returncode != 0:
        print("PATCH DOES NOT APPLY:", r.stderr[:500]); sys.exit(3)
    env = dict(os.environ, VERIF_REPO=wt, VERIF_SEED=seed)
    for c in checks:
        p = subprocess.run(["python3", "/verif/run.py", "check", c, "--tier", tier], cwd="/verif", env=env, capture_output=True, text=True)
        sigs = sorted(set(re.findall(r"signature: (.*)", p.stdout)))
        known = sorted(set(re.findall(r"KNOWN-FINDING: property=\S+ (\S+)", p.stdout)))
        tail = [l for l in p.stdout.splitlines() if l.startswith(("OK", "INCONCLUSIVE", "VIOLATION"))][-2:]
        print("check %s exit=%d signatures=%s known=%d %s" % (c, p.returncode, sigs[:8], len(known), tail[-1][:200] if tail else ""))
finally:
    subprocess.run(["git", "-C", "/repo", "worktree", "remove", "--force", wt])
    shutil.rmtree(wt, ignore_errors=True)
    for f in os.listdir("/verif/replays") if os.path.isdir("/verif/replays") else []:
        pass
