"""Rendering for C16: abstract IDL programs (spec/IdlGrammar/IdlPrograms.tla) and token sequences
(spec/IdlGrammar/IdlGrammar.tla) -> IDL text for tars2go.

Nothing here decides validity: the TLA+ modules do (the program family by its guards, the token automaton by
Trans/Run).  This module only picks lexemes: identifiers from pools that avoid Go keywords, predeclared
names, the generated methods and the generator's own locals; layout and comments; concrete numbers.
"""
import json
import random

# ------------------------------------------------------------------ identifier pools

GO_RESERVED = set("""break default func interface select case defer go map struct chan else goto package switch const
fallthrough if range type continue for import return var append bool byte cap close complex complex64 complex128 copy
delete error false float32 float64 imag int int8 int16 int32 int64 iota len make new nil panic print println real recover
rune string true uint uint8 uint16 uint32 uint64 uintptr any comparable min max clear""".split())
GEN_LOCALS = set("""err ret length have ty buf readBuf obj tarsCtx opts st trace ok value jm traceParam traceParamFlag
statusMap contextMap tarsResp tarsReq val withContext imp funRet reqTup rspTup tupBuffer jsonData decoder jsonStr rspJson
rspByte status ctx dp client servant comm option timeout p fmt codec tars model requestf tup basef tools endpoint current
tarstrace json bytes context""".split())
IDL_KEYWORDS = set("""module enum struct interface require optional const unsigned void out key true false int bool short
byte long float double string vector map array""".split())

MEMBERS = ["alpha", "beta", "count", "label", "flagX", "data", "items", "index", "amount", "key1", "note", "size", "mask",
           "ratio", "left", "right", "inner", "next1", "owner", "stamp", "x", "y", "z", "a1", "bb", "sName", "iVal", "vList",
           "mTable", "Zed", "Upper", "snake_case", "with2digits", "q", "longer_member_name_here"]
PARAMS = ["inA", "inB", "cnt", "req1", "rsp1", "arg", "blob", "who", "when", "what", "lhs", "rhs", "src", "dst", "pin", "pout",
          "name", "id", "seq", "flag", "Zarg", "snake_p"]
FUNCS = ["getA", "putB", "doIt", "ping2", "fetch", "store", "list1", "query", "Upper", "under_score", "f", "run"]
STRUCTS = ["Rec", "item", "Node_x", "Point", "cfgEntry", "Row", "big_T", "S"]
ENUMS = ["Color", "mode", "Level_t", "Kind"]
EMEMBERS = ["RED", "green", "Blue_1", "MAXV", "lo", "hi", "mid", "ZERO", "one", "Two"]
IFACES = ["Svc", "api", "Worker_i", "Echo"]
CONSTS = ["kMax", "LIMIT_1", "dflt", "Pi"]

for _pool in (MEMBERS, PARAMS, FUNCS, STRUCTS, ENUMS, EMEMBERS, IFACES, CONSTS):
    for _n in _pool:
        assert _n not in GO_RESERVED and _n not in IDL_KEYWORDS, _n
for _n in PARAMS:
    assert _n not in GEN_LOCALS and not (_n[0] in "iekv" and _n[1:].isdigit()), _n

SCALAR_IDL = {"bool": "bool", "byte": "byte", "ubyte": "unsigned byte", "short": "short", "ushort": "unsigned short",
              "int": "int", "uint": "unsigned int", "long": "long", "float": "float", "double": "double", "string": "string"}
UTF8 = "héllo 世界"


# ------------------------------------------------------------------ abstract programs -> IDL files

def parse_type(toks, pos=0):
    """prefix notation -> tree; returns (tree, next position)"""
    t = toks[pos]
    k = t["k"]
    if k == "vec":
        el, p = parse_type(toks, pos + 1)
        return {"k": "vec", "el": el}, p
    if k == "map":
        kt, p = parse_type(toks, pos + 1)
        vt, p = parse_type(toks, p)
        return {"k": "map", "key": kt, "val": vt}, p
    return dict(t), pos + 1


def assign_uids(prog):
    """Stable ids for the droppable elements of an abstract program (kept when elements are removed)."""
    n = 0
    for s in prog["structs"]:
        for m in s["mems"]:
            n += 1
            m.setdefault("uid", n)
    for f in prog["funcs"]:
        n += 1
        f.setdefault("uid", n)
        for q in f["params"]:
            n += 1
            q.setdefault("uid", n)
    for c in prog["consts"]:
        n += 1
        c.setdefault("uid", n)
    return prog


DEFAULT_MODS = [{"id": "A", "inc": []}, {"id": "B", "inc": ["A"]}]


class ProgramText:
    """One abstract program -> IDL files + an extras file.  The modules, their order, the file each is written in and the
    include lines of that file (in order) are the program's `mods` (spec/IdlGrammar/IdlIncludes.tla; a file is named after
    its first module); a program without `mods` (IdlPrograms.tla, IdlSignatures.tla) has module A and module B including A,
    one file each.  The file of the last module is the root.
    Lexical decisions of an element depend only on (seed, program number, element uid), so that an element
    is written the same way when other elements are removed."""

    def __init__(self, prog, k, seed):
        assign_uids(prog)
        self.prog, self.k, self.seed = prog, k, seed
        rng = self.rng = random.Random("%s:%s:layout" % (seed, k))
        mods = prog.get("mods") or DEFAULT_MODS
        self.mods = [m["id"] for m in mods]
        self.inc = {m["id"]: list(m["inc"]) for m in mods}
        self.root = self.mods[-1]
        self.fileof = {m["id"]: m.get("file") or m["id"] for m in mods}
        self.files = [m for m in self.mods if self.fileof[m] == m]
        self.modname, self.fname = {}, {}
        for m in self.mods:
            self.modname[m] = rng.choice(["G%s%d", "g%s%d", "Mod_%s%d"]) % (m.lower(), k)
            self.fname[m] = "P%d%s.tars" % (k, self.fileof[m].lower())
        self.crlf = rng.random() < 0.1
        self.ind = rng.choice(["    ", "\t", "  "])
        self.brace = rng.choice([" {", "\n{"])
        self.enum_names, self.enum_members, self.enum_values = [], [], []
        self.struct_names = []
        self.feature = {}       # uid -> description of the element as written
        ec = 0
        for i, e in enumerate(prog["enums"]):
            self.enum_names.append("%s%d" % (rng.choice(ENUMS), i + 1))
            mem, vals, cur = [], [], 0
            for v in e["vals"]:
                ec += 1
                mem.append("%s_%d" % (rng.choice(EMEMBERS), ec))
                if v == "num":
                    cur = cur + rng.choice([0, 1, 5, 100]) if cur >= 0 else rng.choice([0, 3])
                elif v == "neg":
                    cur = -rng.choice([1, 2, 77, 2147483648])
                vals.append((v, cur))
                cur += 1
            self.enum_members.append(mem)
            self.enum_values.append(vals)
        for i, s in enumerate(prog["structs"]):
            self.struct_names.append("%s%d" % (rng.choice(STRUCTS), i + 1))

    def erng(self, uid):
        return random.Random("%s:%s:%s" % (self.seed, self.k, uid))

    # -- helpers
    def ref(self, kind, i, frm, rng, marks):
        """name of enum/struct i as written in module frm"""
        seq = self.prog["enums"] if kind == "enum" else self.prog["structs"]
        name = (self.enum_names if kind == "enum" else self.struct_names)[i - 1]
        mod = seq[i - 1]["mod"]
        if mod != frm:
            marks.add("x" + kind)
            self.incmark(frm, mod, marks)
            return "%s::%s" % (self.modname[mod], name)
        if rng.random() < 0.15:
            marks.add("q" + kind)
            return "%s::%s" % (self.modname[mod], name)
        marks.add(kind)
        if kind == "enum" and name[0].islower():
            marks.add("lcenum")
        return name

    def incmark(self, frm, mod, marks):
        """which include line of file frm brings module mod in (only told apart when the file has several)"""
        inc = self.inc.get(frm, [])
        if len(inc) > 1 and mod in inc:
            marks.add("from-first-of-several-includes" if inc.index(mod) == 0 else "from-later-include")
        elif self.fileof.get(mod) == self.fileof.get(frm):
            marks.add("from-earlier-module-of-the-file")

    def type_text(self, tree, frm, rng, marks):
        k = tree["k"]
        sp = rng.choice(["", "", " "])
        if k == "vec":
            return "vector<%s%s%s>" % (sp, self.type_text(tree["el"], frm, rng, marks), sp)
        if k == "map":
            return "map<%s%s,%s%s%s>" % (sp, self.type_text(tree["key"], frm, rng, marks), rng.choice(["", " "]),
                                         self.type_text(tree["val"], frm, rng, marks), sp)
        if k in ("enum", "struct"):
            return self.ref(k, tree["i"], frm, rng, marks)
        return SCALAR_IDL[k]

    def comment(self, rng):
        r = rng.random()
        if r < 0.08:
            return "  // " + rng.choice(["note", "tag order is free", "see struct { above };", "\"quoted\""])
        if r < 0.12:
            return "  /* " + rng.choice(["block", "multi\n   line * comment", "a;b{c}"]) + " */"
        return ""

    def default_text(self, m, tree, frm, rng, marks):
        d = m["def"]
        if d == "none":
            return ""
        if d.startswith("lit:"):
            lit = d[4:]
            if tree["k"] == "string":
                lit = '"%s"' % (UTF8 if lit == "@utf8" else lit)
            return " = " + lit
        e = tree["i"]
        j = rng.randrange(len(self.enum_members[e - 1]))
        if d == "num":
            marks.add("default-number")
            return " = %d" % self.enum_values[e - 1][j][1]
        nm = self.enum_members[e - 1][j]
        emod = self.prog["enums"][e - 1]["mod"]
        marks.add("default-member")
        if self.enum_names[e - 1][0].islower():
            marks.add("lcenum")
        if emod != frm:
            self.incmark(frm, emod, marks)
        if emod != frm or rng.random() < 0.3:
            return " = %s::%s" % (self.modname[emod], nm)
        return " = " + nm

    def describe(self, head, tree, marks, m=None):
        top = tree["k"] if tree else "void"
        top = {"vec": "vector", "map": "map"}.get(top, top)
        refs = sorted(x for x in marks if x in ("enum", "struct", "xenum", "xstruct", "qenum", "qstruct"))
        via = sorted(x for x in marks if x.startswith("from-"))[-1:]
        if m is not None and m["arr"]:
            # one name per array member: the reference most likely to matter (other module > qualified > plain)
            first = [x for x in ("xstruct", "xenum", "qstruct", "qenum", "enum", "struct") if x in refs]
            return ":".join(["array:of=" + (first[0] if first else top)] + via)
        parts = [head, top]
        if tree and tree["k"] in ("vec", "map") and refs:
            parts.append("of=" + "+".join(refs))
        elif refs and refs[0][0] in "xq":
            parts[-1] = refs[0]
        if "lcenum" in marks and "default-member" in marks and not via:
            return "enum-default-by-member-name:enum-name-starts-lowercase"
        for x in ("lcenum", "default-member", "default-number"):
            if x in marks:
                parts.append(x)
        if m is not None and m["def"].startswith("lit:"):
            parts.append("default")
        if m is not None and m["def"] == "none" and not m["arr"]:
            parts.append("nodefault")
        return ":".join(parts + via)

    def module_text(self, mod):
        P, rng, ind, brace = self.prog, random.Random("%s:%s:%s" % (self.seed, self.k, mod)), self.ind, self.brace
        out = []
        for j in (self.inc[mod] if self.fileof[mod] == mod else []):
            out.append('#include "%s"' % self.fname[j])
        if rng.random() < 0.3:
            out.append("// generated test program %d, module %s" % (self.k, mod))
        out.append("module %s%s" % (self.modname[mod], brace))
        for i, e in enumerate(P["enums"]):
            if e["mod"] != mod:
                continue
            items = []
            for nm, (kind, val) in zip(self.enum_members[i], self.enum_values[i]):
                items.append(nm if kind == "auto" else "%s = %d" % (nm, val))
            if rng.random() < 0.5:
                out.append("%senum %s { %s };%s" % (ind, self.enum_names[i], ", ".join(items), self.comment(rng)))
            else:
                out.append("%senum %s%s" % (ind, self.enum_names[i], brace.replace("\n", "\n" + ind)))
                out += ["%s%s%s%s" % (ind * 2, it, "," if n < len(items) - 1 else "", self.comment(rng)) for n, it in enumerate(items)]
                out.append("%s};" % ind)
        nconst = 0
        for c in P["consts"]:
            if c["mod"] != mod:
                continue
            nconst += 1
            er = self.erng(c["uid"])
            lit = c["lit"]
            if c["ty"] == "string":
                lit = '"%s"' % (UTF8 if lit == "@utf8" else lit)
            self.feature[c["uid"]] = "const:%s" % c["ty"]
            out.append("%sconst %s %s%d = %s;%s" % (ind, SCALAR_IDL[c["ty"]], er.choice(CONSTS), nconst, lit, self.comment(er)))
        for i, s in enumerate(P["structs"]):
            if s["mod"] != mod:
                continue
            out.append("%sstruct %s%s" % (ind, self.struct_names[i], brace.replace("\n", "\n" + ind)))
            names = random.Random("%s:%s:s%d" % (self.seed, self.k, i)).sample(MEMBERS, len(MEMBERS))
            used = []
            for m in s["mems"]:
                er = self.erng(m["uid"])
                nm = names[m["uid"] % len(names)]
                while nm in used:
                    nm = names[(names.index(nm) + 1) % len(names)]
                used.append(nm)
                tree, _ = parse_type(m["ty"])
                marks = set()
                arr = "[%d]" % m["arr"] if m["arr"] else ""
                tt = self.type_text(tree, mod, er, marks)
                dt = self.default_text(m, tree, mod, er, marks)
                self.feature[m["uid"]] = self.describe("require" if m["req"] else "optional", tree, marks, m)
                out.append("%s%d %s %s %s%s%s;%s" % (ind * 2, m["tag"], "require" if m["req"] else "optional", tt, nm, arr, dt, self.comment(er)))
            out.append("%s};" % ind)
            if s["keyable"] is False and s["mems"] and rng.random() < 0.2:
                out.append("%skey[%s, %s];" % (ind, self.struct_names[i], used[0]))
        fs = [f for f in P["funcs"] if f["mod"] == mod]
        if fs:
            cut = 1 + fs[0]["uid"] % len(fs)
            groups = [g for g in (fs[:cut], fs[cut:]) if g]
            for gi, g in enumerate(groups):
                out.append("%sinterface %s%d%s" % (ind, rng.choice(IFACES), gi + 1, brace.replace("\n", "\n" + ind)))
                for f in g:
                    er = self.erng(f["uid"])
                    marks = set()
                    rtree = parse_type(f["ret"])[0] if f["ret"] else None
                    ret = "void" if rtree is None else self.type_text(rtree, mod, er, marks)
                    self.feature[f["uid"]] = self.describe("return", rtree, marks)
                    pn = er.sample(PARAMS, len(PARAMS))
                    ps, usedp = [], []
                    for q in f["params"]:
                        pr = self.erng(q["uid"])
                        n = pn[q["uid"] % len(pn)]
                        while n in usedp:
                            n = pn[(pn.index(n) + 1) % len(pn)]
                        usedp.append(n)
                        tree, _ = parse_type(q["ty"])
                        marks = set()
                        tt = self.type_text(tree, mod, pr, marks)
                        self.feature[q["uid"]] = self.describe("out-param" if q["out"] else "in-param", tree, marks)
                        ps.append("%s%s %s" % ("out " if q["out"] else "", tt, n))
                    out.append("%s%s %s%d(%s);%s" % (ind * 2, ret, er.choice(FUNCS), f["uid"], ", ".join(ps), self.comment(er)))
                out.append("%s};" % ind)
        out.append("};")
        text = "\n".join(out) + "\n"
        return text.replace("\n", "\r\n") if self.crlf else text

    def file_text(self, f):
        """the file named after module f: its include lines and every module written in it"""
        return "".join(self.module_text(m) for m in self.mods if self.fileof[m] == f)

    def extras_text(self):
        """constructs the independent schema extractor cannot read (by-name enum values): compiled only"""
        k = self.k
        return ("module Gx%d {\n  enum ByName%d { XA_%d, XB_%d = 7, XC_%d = XA_%d, XD_%d };\n"
                "  struct Empty%d { };\n  interface OnlyVoid%d { void nop(); };\n};\n"
                % (k, k, k, k, k, k, k, k, k))


def shape(tree):
    k = tree["k"]
    if k == "vec":
        return "vector<%s>" % shape(tree["el"])
    if k == "map":
        return "map<%s,%s>" % (shape(tree["key"]), shape(tree["val"]))
    return k


def element_uids(prog):
    """uids of the elements that may be removed without invalidating the program (a struct used as a map key keeps
    its last member; structs and enums themselves always stay, so references stay valid)."""
    out = []
    for s in prog["structs"]:
        out += [m["uid"] for m in s["mems"] if m["uid"] > 0]
    for f in prog["funcs"]:
        out.append(f["uid"])
        out += [q["uid"] for q in f["params"]]
    out += [c["uid"] for c in prog["consts"]]
    return out


BENIGN = {"tag": 0, "req": True, "ty": [{"k": "int"}], "def": "none", "arr": 0, "uid": -1}


def without(prog, drop):
    """the program minus the elements whose uid is in drop"""
    p = json.loads(json.dumps(prog))
    for s in p["structs"]:
        keep = [m for m in s["mems"] if m["uid"] not in drop]
        if s["keyable"] and not keep:
            keep = [dict(BENIGN)]       # a struct used as a map key stays a keyable, non-empty struct
        s["mems"] = keep
    p["funcs"] = [f for f in p["funcs"] if f["uid"] not in drop]
    for f in p["funcs"]:
        f["params"] = [q for q in f["params"] if q["uid"] not in drop]
    p["consts"] = [c for c in p["consts"] if c["uid"] not in drop]
    return p


def only(prog, uid):
    """the program reduced to one element (plus all enum and struct definitions, emptied): isolates the construct
    a failure is due to.  A parameter keeps its function (made void); a function keeps its return type only."""
    p = json.loads(json.dumps(prog))
    for s in p["structs"]:
        keep = [m for m in s["mems"] if m["uid"] == uid]
        if s["keyable"] and not keep:
            keep = [dict(BENIGN)]
        s["mems"] = keep
    fs = []
    for f in p["funcs"]:
        if f["uid"] == uid:
            f["params"] = []
            fs.append(f)
        elif any(q["uid"] == uid for q in f["params"]):
            f["params"] = [q for q in f["params"] if q["uid"] == uid]
            f["ret"] = []
            fs.append(f)
    p["funcs"] = fs
    p["consts"] = [c for c in p["consts"] if c["uid"] == uid]
    return p


# ------------------------------------------------------------------ token sequences -> IDL text

PRELUDE = """module Pre0 {
    enum PEnum { PA, PB = 3, PC };
    struct PKey { 0 require int x; 1 require string y; };
    struct PStruct { 0 require int x; 1 optional string y; 2 optional vector<int> v; };
};
"""
INC = {1: "module Inc1 { enum IE1 { IA1, IB1 }; };\n", 2: "module Inc2 { struct IS2 { 0 require long q; }; };\n"}
REF_TOKENS = {"sref", "eref", "emem"}


class TokenText:
    """Chooses lexemes for a token sequence.  steps = [(token, configuration the automaton is in, or None)]."""

    def __init__(self, variant=0):
        self.n = {}
        self.variant = variant
        self.structs_done, self.enums_done = [], []
        self.cur_struct = self.cur_enum = None
        self.cur_members = []
        self.tag = 0
        self.bigtag = 256
        self.last_eref = None
        self.flip = variant

    def fresh(self, prefix):
        self.n[prefix] = self.n.get(prefix, 0) + 1
        return "%s%d" % (prefix, self.n[prefix])

    def toggle(self):
        self.flip += 1
        return self.flip % 2 == 0

    def lexeme(self, t, c):
        ctl = c["ctl"] if c else ""
        top = c["stack"][-1] if c and c["stack"] else ""
        if t == "name":
            if ctl == "M_NAME":
                self.structs_done, self.enums_done = [], []
                return self.fresh("Tm")
            if ctl == "S_NAME":
                self.cur_struct, self.tag = self.fresh("St"), 0
                return self.cur_struct
            if ctl == "E_NAME":
                self.cur_enum, self.cur_members = self.fresh("En"), []
                return self.cur_enum
            if ctl in ("E_FIRST", "E_NEXT"):
                nm = self.fresh("Em")
                self.cur_members.append(nm)
                return nm
            if ctl == "K_M":
                return "x" if self.toggle() else "y"
            pre = {"SM_NAME": "mb", "IF_NAME": "fn", "IP_NAME": "pa", "C_NAME": "Kc", "I_NAME": "If"}.get(ctl, "zz")
            return self.fresh(pre)
        if t == "sref":
            if top != "MK" and self.structs_done and self.toggle():
                return self.structs_done[-1]
            return "Pre0::PKey" if top == "MK" else "Pre0::PStruct"
        if t == "eref":
            if self.enums_done and self.toggle():
                self.last_eref = self.enums_done[-1]
                return self.last_eref[0]
            self.last_eref = None
            return "Pre0::PEnum"
        if t == "emem":
            if ctl in ("E_VAL", "E_VAL1"):
                return self.cur_members[-2] if len(self.cur_members) >= 2 else (self.cur_members[-1] if self.cur_members else "Pre0::PB")
            if ctl == "SM_DEF" and self.last_eref:
                return self.last_eref[1][0]
            return "Pre0::PB"
        if t == "num":
            if ctl == "S_BODY":
                self.tag += 1
                return str(self.tag - 1)
            if ctl == "SM_ARRLEN":
                return "2" if self.toggle() else "3"
            return "7" if ctl in ("SM_DEF", "C_VAL") else "4"
        if t == "big":
            if ctl == "S_BODY":
                self.bigtag += 1
                return str(self.bigtag - 1)
            return "300"
        if t == "neg":
            return "-1" if ctl in ("S_BODY", "SM_ARRLEN") else "-5"
        if t == "flt":
            return "1.5"
        if t == "str":
            if ctl in ("F_INC", "F_INC1"):
                return '"inc%d.tars"' % (1 if self.toggle() else 2)
            return '"txt"'
        if t == "int":
            return "int" if self.toggle() else "short"
        if t == "float":
            return "float" if self.toggle() else "double"
        if t == "}":
            if ctl == "S_BODY" and self.cur_struct:
                self.structs_done.append(self.cur_struct)
                self.cur_struct = None
            if ctl in ("E_MEM1", "E_MEM", "E_AFTERVAL") and self.cur_enum:
                self.enums_done.append((self.cur_enum, list(self.cur_members)))
                self.cur_enum = None
        return t

    def render(self, steps, prelude=None):
        words = [self.lexeme(t, c) for t, c in steps]
        need = any(t in REF_TOKENS for t, _ in steps)
        out, line = [], []
        for w in words:
            line.append(w)
            if w in (";", "{") or w.startswith('"inc'):
                out.append(" ".join(line))
                line = []
        if line:
            out.append(" ".join(line))
        body = "\n".join(out)
        use = need if prelude is None else (prelude or need)
        return ('#include "pre.tars"\n' if use else "") + body + ("\n" if self.variant % 2 == 0 else "")


# ------------------------------------------------------------------ raw inputs (no reference class: must terminate; exit 0 => compiles)

SOUP = ["module", "enum", "struct", "interface", "const", "key", "require", "optional", "unsigned", "void", "out", "true", "false",
        "vector", "map", "int", "bool", "short", "byte", "long", "float", "double", "string", "array", "#include",
        "{", "}", ";", "=", "<", ">", ",", "(", ")", "[", "]", "{", "}", ";", "A", "B", "M", "x1", "Pre0::PStruct", "M::x", "a::b::c", "::",
        "0", "1", "255", "256", "-1", "0x10", "1.5", "-", "0x", "1.2.3", '"s"', '"', "//c\n", "/*", "*/", "/* c */", "/", "\n", "\r\n", "\t",
        "\x00", "\xff", "#", "#includ", "@"]


def raw_inputs(rng, n, valid_texts, kinds=("random-bytes", "token-soup", "valid-cut", "valid-mutated")):
    """(class, bytes) pairs: random bytes, token soup, valid programs cut / with one character or token changed."""
    out = []
    for i in range(n):
        kind = kinds[i % len(kinds)]
        if kind == "random-bytes":
            m = rng.randrange(0, 60)
            if rng.random() < 0.5:
                b = bytes(rng.randrange(256) for _ in range(m))
            else:
                b = bytes(rng.choice(b"{};=<>,()[]\"#/*-.:_ \n\t0123456789abcxyzMEIS") for _ in range(m))
            out.append((kind, b))
        elif kind == "token-soup":
            m = rng.randrange(1, 40)
            s = " ".join(rng.choice(SOUP) for _ in range(m))
            if rng.random() < 0.5:
                s = "module M { " + s
            out.append((kind, s.encode("latin-1", "replace")))
        else:
            t = rng.choice(valid_texts)
            b = bytearray(t.encode("utf-8"))
            if kind == "valid-cut":
                out.append((kind, bytes(b[:rng.randrange(0, len(b) + 1)])))
            else:
                for _ in range(rng.choice([1, 1, 2])):
                    if not b:
                        break
                    pos = rng.randrange(len(b))
                    op = rng.randrange(4)
                    if op == 0:
                        del b[pos]
                    elif op == 1:
                        b[pos:pos] = rng.choice(SOUP).encode("latin-1", "replace")
                    elif op == 2:
                        b[pos] = rng.choice(b"{};=<>,()[]\"#/*-.:0123456789 azAZ_\x00")
                    else:
                        q = rng.randrange(len(b))
                        b[pos], b[q] = b[q], b[pos]
                out.append((kind, bytes(b)))
    return out


def open_construct(data):
    """Heuristic name of the construct a raw input ends in (for hang signatures of unclassified input): the keyword
    before the innermost unmatched '{'."""
    import re
    toks = re.findall(rb"[A-Za-z_#][A-Za-z_0-9:]*|[{}]", data)
    stack, last = [], b""
    for t in toks:
        if t == b"{":
            stack.append(last)
        elif t == b"}":
            if stack:
                stack.pop()
        elif t in (b"module", b"enum", b"struct", b"interface"):
            last = t
    return (stack[-1].decode() + "-body") if stack and stack[-1] else "file"
