"""Trace validation driver: concatenated traces -> TLC -> accepted / rejected traces.

The Trace_* modules follow one convention: `Trace == ndJsonDeserialize("trace.ndjson")`, a position
variable `l`, a `Reset` event between runs, a CONSTRAINT that keeps the high-water mark of `l` in
TLC register 1 and a POSTCONDITION that prints <<"HWM", hwm, Len(Trace)>> and requires hwm = Len+1.
"""
import json
import re

from . import tlc
from .core import Inconclusive


def _dump(events):
    return "".join(json.dumps(e, sort_keys=True, separators=(",", ":")) + "\n" for e in events)


def run_once(ctx, specdir, module, cfg_text, traces, name, reset, timeout, extra_files, dfs):
    evs = []
    bounds = []   # (start, end) 1-based inclusive positions of each trace incl. its Reset
    for t in traces:
        s = len(evs) + 1
        evs.extend(t)
        evs.append(reset)
        bounds.append((s, len(evs)))
    files = {"trace.ndjson": _dump(evs), "Trace_run.cfg": cfg_text}
    files.update(extra_files or {})
    r = tlc.run(ctx, specdir, module, cfg="Trace_run.cfg", workers=1, timeout=timeout, extra_files=files,
                name=name, dfs_queue=dfs)
    m = None
    for m in re.finditer(r'<<"HWM", (\d+), (\d+)>>', r.out):
        pass
    if m is None:
        raise Inconclusive("trace validation produced no high-water mark (%s):\n%s" % (name, "\n".join(r.out.splitlines()[-40:])))
    hwm, total = int(m.group(1)), int(m.group(2))
    if total != len(evs):
        raise Inconclusive("trace length mismatch %d vs %d" % (total, len(evs)))
    accepted_all = r.success and hwm == total + 1
    bad = None
    if not accepted_all:
        # any TLC error other than the postcondition / an invariant is a problem of the machinery
        hard = [e for e in r.errors() if not ("Postcondition" in e or "Invariant" in e or "behavior up to" in e
                                              or "The behavior" in e)]
        if hard and not r.inv_violated:
            raise Inconclusive("TLC error during trace validation (%s): %s" % (name, hard[:3]))
        pos = min(hwm, total)
        for k, (s, e) in enumerate(bounds):
            if s <= pos <= e:
                bad = (k, pos - s, r.inv_violated[:1])
                break
        if bad is None:
            raise Inconclusive("cannot locate the rejected trace (hwm=%d)" % hwm)
    return accepted_all, bad, r


def validate(ctx, specdir, module, cfg_text, traces, name="trace", reset=None, timeout=600,
             extra_files=None, max_failures=5, dfs=False):
    """Returns (accepted_count, failures, stats) — failures: list of dict(index, offset, event, invariant)."""
    reset = reset or {"e": "Reset"}
    idx = list(range(len(traces)))
    failures = []
    states = transitions = 0
    while idx:
        ok, bad, r = run_once(ctx, specdir, module, cfg_text, [traces[i] for i in idx], name, reset, timeout,
                              extra_files, dfs)
        states += r.distinct
        transitions += r.generated
        if ok:
            break
        k, off, inv = bad
        ti = idx[k]
        t = traces[ti]
        failures.append({"index": ti, "offset": off, "event": (t[off] if off < len(t) else reset),
                         "invariant": inv, "prefix": t[max(0, off - 6):off + 1]})
        idx.pop(k)
        if len(failures) >= max_failures:
            break
    return len(traces) - len(failures), failures, {"states": states, "transitions": transitions}
