"""Build the Go harness (and tars2go) from /repo's current working tree, with hooks on."""
import os
import shutil

from .core import REPO, VERIF, Inconclusive, env_go, sh

TAG = "verif"


def stage_harness(ctx):
    """Copy /verif/harness into the scratch dir (so generated code never lands in /verif)."""
    dst = os.path.join(ctx.work, "harness")
    if os.path.isdir(dst):
        return dst
    shutil.copytree(os.path.join(VERIF, "harness"), dst)
    gomod = open(os.path.join(dst, "go.mod")).read().replace("=> /repo", "=> " + REPO)
    open(os.path.join(dst, "go.mod"), "w").write(gomod)
    # go.sum: the repo's sums cover its dependencies; ours (rapid) are appended from go.sum.extra
    sums = open(os.path.join(REPO, "go.sum")).read()
    extra = os.path.join(dst, "go.sum.extra")
    if os.path.exists(extra):
        sums += open(extra).read()
    open(os.path.join(dst, "go.sum"), "w").write(sums)
    return dst


def build(ctx, cmd, race=False, tags=TAG, out=None):
    """go build ./cmd/<cmd> of the staged harness; returns the binary path."""
    h = stage_harness(ctx)
    out = out or os.path.join(ctx.work, "bin", cmd + ("-race" if race else ""))
    os.makedirs(os.path.dirname(out), exist_ok=True)
    args = ["go", "build", "-tags", tags]
    if race:
        args.append("-race")
    args += ["-o", out, "./cmd/" + cmd]
    rc, so, se = sh(args, cwd=h, env=env_go(), timeout=900, check=False)
    if rc != 0:
        raise Inconclusive("harness build failed (%s):\n%s%s" % (cmd, so[-4000:], se[-4000:]))
    return out


def build_tars2go(ctx):
    """Build the IDL compiler from the working tree (it is its own Go module)."""
    out = os.path.join(ctx.work, "bin", "tars2go")
    if os.path.exists(out):
        return out
    os.makedirs(os.path.dirname(out), exist_ok=True)
    src = os.path.join(REPO, "tars", "tools", "tars2go")
    rc, so, se = sh(["go", "build", "-o", out, "."], cwd=src, env=env_go(), timeout=600, check=False)
    if rc != 0:
        raise Inconclusive("tars2go build failed:\n%s%s" % (so[-3000:], se[-3000:]))
    return out


def tars2go(ctx, idl_files, outdir, module_prefix, cwd=None, timeout=60, extra=None):
    """Run the freshly built generator.  Returns (rc, stdout, stderr)."""
    exe = build_tars2go(ctx)
    os.makedirs(outdir, exist_ok=True)
    args = [exe, "-outdir=" + outdir, "-module=" + module_prefix] + list(extra or []) + list(idl_files)
    return sh(args, cwd=cwd, env=env_go(), timeout=timeout, check=False)
