"""Core of the verification runner: context, verdicts, evidence, known findings.

Verdict rules (DESIGN.md section 1):
  exit 0  property held on everything explored (KNOWN-FINDING lines allowed)
  exit 1  a violation observed on the real code, not listed in known_findings.json
  exit 2  inconclusive (build failure, TLC error on the model, harness failure, timeout)
"""
import hashlib
import json
import os
import random
import shutil
import subprocess
import sys
import tempfile
import time

VERIF = os.path.dirname(os.path.dirname(os.path.abspath(__file__)))
REPO = os.environ.get("VERIF_REPO", "/repo")
GOENV = {
    "GOFLAGS": "-mod=mod",
    "GOPROXY": "off",
    "GOSUMDB": "off",
    "GOTOOLCHAIN": "local",
}


class Inconclusive(Exception):
    """Raised when a check cannot reach a verdict (never reported as a violation)."""


class Violation:
    def __init__(self, signature, what, replay=None):
        self.signature = signature      # e.g. "C05:panic:makeslice:generated-LIST-length<0"
        self.what = what                # one-line human description
        self.replay = replay if replay is not None else {}

    def __repr__(self):
        return "Violation(%s: %s)" % (self.signature, self.what)


class Ctx:
    def __init__(self, pid, tier, seed, replay=None, selftest=False, keep=False):
        self.id = pid
        self.tier = tier
        self.seed = seed
        self.replay = replay
        self.selftest = selftest
        self.keep = keep
        self.rng = random.Random(seed)
        base = os.environ.get("VERIF_WORK") or tempfile.gettempdir()
        self.work = tempfile.mkdtemp(prefix="verif-%s-" % pid, dir=base)
        # children (go build, harness binaries and the servers they start, the JVM) put their own
        # temporary files under the work directory, which is removed at the end of the run
        os.environ["TMPDIR"] = os.path.join(self.work, "tmp")
        os.makedirs(os.environ["TMPDIR"], exist_ok=True)
        self.t0 = time.time()
        self.violations = []
        self.notes = []
        self.coverage = {}
        self.assumptions = []
        self.level = "model_checking"
        self.ncpu = os.cpu_count() or 4

    @property
    def quick(self):
        return self.tier == "quick"

    def pick(self, quick, thorough):
        return quick if self.quick else thorough

    def log(self, *a):
        print("[%s %6.1fs]" % (self.id, time.time() - self.t0), *a, file=sys.stderr, flush=True)

    def sub(self, name):
        d = os.path.join(self.work, name)
        os.makedirs(d, exist_ok=True)
        return d

    def violate(self, signature, what, replay=None):
        # de-duplicate by signature: one line per distinct failing class
        for v in self.violations:
            if v.signature == signature:
                v.replay.setdefault("more", 0)
                v.replay["more"] += 1
                return
        self.violations.append(Violation(signature, what, replay))

    def cleanup(self):
        if not self.keep:
            shutil.rmtree(self.work, ignore_errors=True)


def env_go(extra=None):
    e = dict(os.environ)
    e.update(GOENV)
    if extra:
        e.update(extra)
    return e


def sh(cmd, cwd=None, env=None, timeout=None, check=True, input=None):
    """Run a command, return (rc, stdout, stderr).  Timeout -> Inconclusive."""
    try:
        p = subprocess.run(cmd, cwd=cwd, env=env, timeout=timeout, input=input,
                           stdout=subprocess.PIPE, stderr=subprocess.PIPE, text=True,
                           shell=isinstance(cmd, str))
    except subprocess.TimeoutExpired:
        raise Inconclusive("timeout after %ss: %s" % (timeout, cmd if isinstance(cmd, str) else " ".join(cmd)))
    if check and p.returncode != 0:
        raise Inconclusive("command failed (%d): %s\n%s\n%s" % (
            p.returncode, cmd if isinstance(cmd, str) else " ".join(cmd), p.stdout[-3000:], p.stderr[-3000:]))
    return p.returncode, p.stdout, p.stderr


# ---------------------------------------------------------------- known findings

def load_known():
    path = os.path.join(VERIF, "known_findings.json")
    if not os.path.exists(path):
        return []
    with open(path) as f:
        return json.load(f).get("findings", [])


def classify(pid, violations):
    """Split violations into (known_open, new)."""
    known = [k for k in load_known() if k.get("property") == pid and k.get("status") == "open"]
    sigs = {k["signature"]: k for k in known}
    ko, new = [], []
    for v in violations:
        if v.signature in sigs:
            ko.append((v, sigs[v.signature]))
        else:
            new.append(v)
    return ko, new


# ---------------------------------------------------------------- evidence

def write_evidence(ctx, nviol):
    cov = dict(ctx.coverage)
    ev = {
        "property_id": ctx.id,
        "tier": ctx.tier,
        "seed": ctx.seed,
        "level": ctx.level,
        "coverage": cov,
        "assumptions": ctx.assumptions,
        "wall_s": round(time.time() - ctx.t0, 2),
        "violations": nviol,
    }
    if ctx.notes:
        ev["notes"] = ctx.notes
    # a run against a scratch tree (VERIF_REPO: seeded or behaviour-preserving changes) must not overwrite the evidence of /repo
    edir = os.path.join(VERIF, "evidence") if REPO == "/repo" else os.path.join(VERIF, "evidence", "scratch")
    os.makedirs(edir, exist_ok=True)
    path = os.path.join(edir, "%s.json" % ctx.id)
    tmp = path + ".tmp"
    with open(tmp, "w") as f:
        json.dump(ev, f, indent=1, sort_keys=True, default=str)
        f.write("\n")
    os.replace(tmp, path)
    return path


def write_replay(ctx, v):
    os.makedirs(os.path.join(VERIF, "replays"), exist_ok=True)
    h = hashlib.sha1(v.signature.encode()).hexdigest()[:10]
    path = os.path.join(VERIF, "replays", "%s-%s.json" % (ctx.id, h))
    with open(path, "w") as f:
        json.dump({"property": ctx.id, "signature": v.signature, "what": v.what,
                   "seed": ctx.seed, "tier": ctx.tier, "replay": v.replay}, f, indent=1, default=str)
        f.write("\n")
    return path


def finish(ctx):
    ko, new = classify(ctx.id, ctx.violations)
    for v, k in ko:
        print("KNOWN-FINDING: property=%s %s (%s)" % (ctx.id, k["signature"], k.get("what", v.what)), flush=True)
    ctx.coverage.setdefault("known_findings_seen", [v.signature for v, _ in ko])
    write_evidence(ctx, len(new))
    for v in new:
        path = write_replay(ctx, v)
        print("VIOLATION property=%s replay=%s" % (ctx.id, path), flush=True)
        print("  signature: %s\n  what: %s" % (v.signature, v.what), flush=True)
    if new:
        return 1
    print("OK property=%s tier=%s seed=%d wall=%.1fs" % (ctx.id, ctx.tier, ctx.seed, time.time() - ctx.t0), flush=True)
    return 0
