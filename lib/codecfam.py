"""Shared driver for the codec family checks (C03-C06): stage, run codecdrive, judge with TLC."""
import glob
import json
import os
import re

from . import codecgen, gobuild, oracle, tlc
from .core import Inconclusive, sh

DEPS = ["TarsWire"]


def prepare(ctx, idl_files=None):
    h, schema = codecgen.stage(ctx, idl_files=idl_files)
    if "Vt.TupAttr" in schema["structs"]:
        # the TUP attribute map, decoded by tup.UniAttribute (harness/cmd/codecdrive/tupattr.go), has the schema of Vt.TupAttr
        schema["structs"]["tup.Attr"] = schema["structs"]["Vt.TupAttr"]
    exe = gobuild.build(ctx, "codecdrive")
    return exe, schema


def run_driver(ctx, exe, sub, outname, args, timeout=3000):
    d = ctx.sub(outname)
    rc, so, se = sh([exe, sub, "-seed", str(ctx.seed), "-out", d] + args, timeout=timeout)
    return d, so.strip().splitlines()[-1]


def whys(r):
    """Parse the <<"WHY", {<<i, "why">>, ...}>> line of Oracle_Dec."""
    m = re.search(r'<<\s*"WHY",\s*\{(.*?)\}\s*>>', r.out, re.S)
    out = {}
    if m:
        for a, b in re.findall(r'<<\s*(\d+),\s*"([\w-]+)"\s*>>', m.group(1)):
            out[int(a)] = b
    return out


def judge_dec(ctx, schema, paths, name, par=12, timeout=3000):
    """Oracle_Dec over shard files.  Returns (total, bad=[(why, record)], states, generated)."""
    from concurrent.futures import ThreadPoolExecutor
    extra = {"schemas.json": codecgen.schemas_json(schema)}
    total = states = gen = 0
    bad = []

    def one(ip):
        i, p = ip
        t, b, r = oracle.judge_file(ctx, "TarsSchema", "Oracle_Dec", "Oracle.cfg", p, "%s-%d" % (name, i),
                                    timeout=timeout, extra_files=extra, deps=DEPS)
        return p, t, b, whys(r), r

    with ThreadPoolExecutor(max_workers=par) as ex:
        for p, t, b, w, r in ex.map(one, list(enumerate(paths))):
            total += t
            states += max(r.distinct, 1)
            gen += max(r.generated, 1)
            if b:
                want = set(b)
                with open(p) as f:
                    for k, line in enumerate(f, 1):
                        if k in want:
                            bad.append((w.get(k, "?"), json.loads(line)))
    return total, bad, states, gen


def members_differing(schema, sname, a, e, path="", anc=None):
    """Paths of members where canonical values a and e differ; descends into nested structs and, element by
    element, into vectors/arrays of equal length.  Each entry is (path, member): member is the outermost enclosing
    optional member without a declared default if there is one (an absent optional struct leaves its own
    members stale), else the differing member itself; None when the shapes differ."""
    out = []
    S = schema["structs"][sname]
    if not isinstance(a, list) or not isinstance(e, list) or len(a) != len(S) or len(e) != len(S):
        return [(path or sname, None)]

    def walk(ty, x, y, pth, anc, m):
        if x == y:
            return
        if ty["k"] == "struct":
            out.extend(members_differing(schema, ty["name"], x, y, pth + ".", anc))
        elif ty["k"] in ("vec", "arr") and isinstance(x, list) and isinstance(y, list) and len(x) == len(y):
            for i, (xi, yi) in enumerate(zip(x, y)):
                walk(ty["el"], xi, yi, "%s[%d]" % (pth, i), anc, m)
        else:
            out.append((pth, (anc or m) if y == m["def"] else dict(m, req=True)))   # stale only if the fresh decode shows the default

    for m, x, y in zip(S, a, e):
        stale_anc = anc or (m if (not m["req"] and not m["hasdef"]) else None)
        walk(m["ty"], x, y, path + m["name"], stale_anc if m["ty"]["k"] in ("struct", "vec", "arr") else anc, m)
    return out


def first_records(paths, n, pred=None):
    out = []
    for p in paths:
        for line in open(p):
            r = json.loads(line)
            if pred is None or pred(r):
                out.append(r)
                if len(out) >= n:
                    return out
    return out


def panic_class(text):
    """Stable short class of a panic / fatal-error message (digits and addresses removed)."""
    t = text.lower()
    for key, name in (("makeslice", "makeslice-len-out-of-range"), ("out of memory", "out-of-memory"),
                      ("cannot allocate", "out-of-memory"), ("index out of range", "index-out-of-range"),
                      ("slice bounds", "slice-bounds-out-of-range"), ("stack", "stack-overflow"),
                      ("nil pointer", "nil-pointer"), ("hang", "hang"), ("makemap", "makemap-size-out-of-range")):
        if key in t:
            return name
    return re.sub(r"[^a-z]+", "-", t)[:40].strip("-")
