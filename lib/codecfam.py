"""Shared driver for the codec family checks (C03-C06): stage, run codecdrive, judge with TLC."""
import glob
import json
import os
import re

from . import codecgen, gobuild, oracle, tlc
from .core import Inconclusive, sh

DEPS = ["TarsWire"]


def prepare(ctx, idl_files=None):
    h, schema = codecgen.stage(ctx, idl_files=idl_files)
    exe = gobuild.build(ctx, "codecdrive")
    return exe, schema


def run_driver(ctx, exe, sub, outname, args, timeout=3000):
    d = ctx.sub(outname)
    rc, so, se = sh([exe, sub, "-seed", str(ctx.seed), "-out", d] + args, timeout=timeout)
    return d, so.strip().splitlines()[-1]


def whys(r):
    """Parse the <<"WHY", {<<i, "why">>, ...}>> line of Oracle_Dec."""
    m = re.search(r'<<\s*"WHY",\s*\{(.*?)\}\s*>>', r.out, re.S)
    out = {}
    if m:
        for a, b in re.findall(r'<<\s*(\d+),\s*"([\w-]+)"\s*>>', m.group(1)):
            out[int(a)] = b
    return out


def judge_dec(ctx, schema, paths, name, par=12, timeout=3000):
    """Oracle_Dec over shard files.  Returns (total, bad=[(why, record)], states, generated)."""
    from concurrent.futures import ThreadPoolExecutor
    extra = {"schemas.json": codecgen.schemas_json(schema)}
    total = states = gen = 0
    bad = []

    def one(ip):
        i, p = ip
        t, b, r = oracle.judge_file(ctx, "TarsSchema", "Oracle_Dec", "Oracle.cfg", p, "%s-%d" % (name, i),
                                    timeout=timeout, extra_files=extra, deps=DEPS)
        return p, t, b, whys(r), r

    with ThreadPoolExecutor(max_workers=par) as ex:
        for p, t, b, w, r in ex.map(one, list(enumerate(paths))):
            total += t
            states += max(r.distinct, 1)
            gen += max(r.generated, 1)
            if b:
                want = set(b)
                with open(p) as f:
                    for k, line in enumerate(f, 1):
                        if k in want:
                            bad.append((w.get(k, "?"), json.loads(line)))
    return total, bad, states, gen


def members_differing(schema, sname, a, e, path=""):
    """Paths of members where canonical values a and e differ (descends into nested structs only)."""
    out = []
    S = schema["structs"][sname]
    if not isinstance(a, list) or not isinstance(e, list) or len(a) != len(S) or len(e) != len(S):
        return [(path or sname, None)]
    for m, x, y in zip(S, a, e):
        if x == y:
            continue
        if m["ty"]["k"] == "struct":
            out += members_differing(schema, m["ty"]["name"], x, y, path + m["name"] + ".")
        else:
            out.append((path + m["name"], m))
    return out


def first_records(paths, n, pred=None):
    out = []
    for p in paths:
        for line in open(p):
            r = json.loads(line)
            if pred is None or pred(r):
                out.append(r)
                if len(out) >= n:
                    return out
    return out
