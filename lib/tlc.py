"""TLC runner: scratch copy of the spec directory, own metadir, timeout, output parsing."""
import os
import re
import shutil
import subprocess
import time

from .core import Inconclusive, VERIF

JAR = "/opt/veriftools/tla/tla2tools.jar"
CM = "/opt/veriftools/tla/CommunityModules-deps.jar"


class TLCResult:
    def __init__(self, out, rc, wall, workdir):
        self.out = out
        self.rc = rc
        self.wall = wall
        self.workdir = workdir
        self.generated = 0
        self.distinct = 0
        self.depth = 0
        m = None
        for m in re.finditer(r"(\d+) states generated, (\d+) distinct states found", out):
            pass
        if m:
            self.generated = int(m.group(1))
            self.distinct = int(m.group(2))
        m = re.search(r"The depth of the complete state graph search is (\d+)", out)
        if m:
            self.depth = int(m.group(1))
        self.success = "Model checking completed. No error has been found." in out
        self.inv_violated = re.findall(r"Error: Invariant (\S+) is violated", out)
        self.prop_violated = re.findall(r"Error: Action property (\S+) is violated", out)
        if "Error: Temporal properties were violated" in out:
            self.prop_violated.append("<temporal>")
        self.post_violated = "Error: The postcondition" in out or "Postcondition" in out and "violated" in out
        self.assume_false = re.findall(r"Error: Assumption line (\d+)", out)
        self.deadlock = "Error: Deadlock reached" in out
        self.printed = re.findall(r"^(?!TLC|Running|Parsing|Semantic|Starting|Finished|Computing|Progress|Implied|Model|The |Checking|Linting|@!@!@).*", out, re.M)

    def errors(self):
        return [l for l in self.out.splitlines() if l.startswith("Error:")]

    def prints(self):
        """Lines printed by PrintT/Print (heuristic: lines TLC itself does not emit)."""
        return [l for l in self.printed if l.strip()]

    def coverage_zero(self):
        """Actions/expressions with zero count under -coverage 1."""
        return re.findall(r"^<(\w+) line .*>: 0:0$", self.out, re.M)


def run(ctx, specdir, module, cfg=None, workers="auto", timeout=600, extra_files=None,
        simulate=None, depth=None, seed=None, coverage=False, deadlock=None, dfs_queue=False,
        heap=None, name=None, dump_trace=None, jvm_props=None, args=None, deps=None):
    """Run TLC on spec/<specdir>/<module>.tla in a scratch copy.  Returns TLCResult.

    Does not interpret the outcome: callers decide (a model-only counterexample is Inconclusive
    for the property verdict unless the check is *about* the observed data, as in batch oracles)."""
    src = os.path.join(VERIF, "spec", specdir)
    wd = ctx.sub("tlc-%s-%s" % (name or module, len(os.listdir(ctx.work))))
    for f in os.listdir(src):
        if f.endswith((".tla", ".cfg")):
            shutil.copy(os.path.join(src, f), wd)
    for d in (deps or []):          # modules EXTENDed from other spec directories
        for f in os.listdir(os.path.join(VERIF, "spec", d)):
            if f.endswith(".tla") and not os.path.exists(os.path.join(wd, f)):
                shutil.copy(os.path.join(VERIF, "spec", d, f), wd)
    common = os.path.join(VERIF, "spec", "common")
    if os.path.isdir(common):
        for f in os.listdir(common):
            if f.endswith(".tla") and not os.path.exists(os.path.join(wd, f)):
                shutil.copy(os.path.join(common, f), wd)
    for fn, content in (extra_files or {}).items():
        p = os.path.join(wd, fn)
        if isinstance(content, bytes):
            open(p, "wb").write(content)
        else:
            open(p, "w").write(content)
    meta = os.path.join(wd, "meta")
    java = ["java", "-XX:+UseParallelGC", "-Xss512m"]
    java.append("-Xmx%s" % (heap or "4g"))
    if os.environ.get("TMPDIR"):
        java.append("-Djava.io.tmpdir=" + os.environ["TMPDIR"])
    if dfs_queue:
        java.append("-Dtlc2.tool.queue.IStateQueue=StateDeque")
    for k, v in (jvm_props or {}).items():
        java.append("-D%s=%s" % (k, v))
    cmd = java + ["-cp", JAR + ":" + CM, "tlc2.TLC", "-noGenerateSpecTE", "-metadir", meta, "-workers", str(workers)]
    if cfg:
        cmd += ["-config", cfg]
    if simulate:
        cmd += ["-simulate", simulate]
    if depth:
        cmd += ["-depth", str(depth)]
    if seed is not None:
        cmd += ["-seed", str(seed)]
    if coverage:
        cmd += ["-coverage", "1"]
    if deadlock is False:
        cmd += ["-deadlock"]   # -deadlock = do NOT check for deadlock
    if dump_trace:
        cmd += ["-dumpTrace", "json", dump_trace]
    if args:
        cmd += list(args)
    cmd += [module + ".tla"]
    t0 = time.time()
    # the budgets were measured on an idle machine: on a loaded one (other checks running alongside) they stretch with the
    # load per core, so that a slow model-checking run ends as a result and not as a timeout
    try:
        timeout = int(timeout * min(6.0, max(1.0, 1.5 * os.getloadavg()[0] / (os.cpu_count() or 1))))
    except OSError:
        pass
    env = dict(os.environ)
    env.pop("JAVA_TOOL_OPTIONS", None)
    try:
        p = subprocess.run(cmd, cwd=wd, stdout=subprocess.PIPE, stderr=subprocess.STDOUT, text=True,
                           timeout=timeout, env=env)
    except subprocess.TimeoutExpired:
        shutil.rmtree(meta, ignore_errors=True)
        raise Inconclusive("TLC timeout (%ss) on %s/%s %s" % (timeout, specdir, module, cfg))
    shutil.rmtree(meta, ignore_errors=True)
    r = TLCResult(p.stdout, p.returncode, time.time() - t0, wd)
    return r


def require_clean(r, what):
    """Model-level run must finish without any error; otherwise the check is inconclusive."""
    if not r.success:
        raise Inconclusive("TLC did not complete cleanly for %s:\n%s" % (what, "\n".join(r.out.splitlines()[-60:])))
    return r


def tla_str(s):
    return '"' + s.replace("\\", "\\\\").replace('"', '\\"') + '"'
