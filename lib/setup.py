"""setup: verify the toolchain and warm the Go build cache (offline, from files on disk only)."""
import os
import shutil
import sys

from . import gobuild
from .core import Ctx, Inconclusive, sh


def main():
    ctx = Ctx("setup", "quick", 0)
    try:
        for tool in ("go", "java", "python3"):
            if not shutil.which(tool):
                print("missing tool:", tool)
                return 1
        if not os.path.exists("/opt/veriftools/tla/tla2tools.jar"):
            print("missing tla2tools.jar")
            return 1
        gobuild.build(ctx, "vdrive")
        gobuild.build_tars2go(ctx)
        print("setup ok")
        return 0
    except Inconclusive as e:
        print("setup failed:", e)
        return 1
    finally:
        ctx.cleanup()
