"""Batch oracle driver: ndjson record shards -> TLC (Oracle_* module) -> indices of rejected records.

Convention of the Oracle_* modules: `Recs == ndJsonDeserialize("recs.ndjson")`,
`ASSUME PrintT(<<"ORACLE", Len(Recs), Bad>>)` where Bad is the set of 1-based indices of records the
reference rejects; a cfg with dummy INIT/NEXT.
"""
import json
import os
import re
import shutil
from concurrent.futures import ThreadPoolExecutor

from . import tlc
from .core import Inconclusive


def parse(out):
    m = re.search(r'<<\s*"ORACLE",\s*(\d+),\s*\{([^}]*)\}\s*>>', out, re.S)
    if not m:
        return None
    total = int(m.group(1))
    bad = [int(x) for x in re.findall(r"\d+", m.group(2))]
    return total, bad


def judge_file(ctx, specdir, module, cfg, path, name, timeout=1800, extra_files=None, heap=None, deps=None):
    """Run the oracle on one ndjson file.  Returns (total, bad_indices_1based, tlc_result)."""
    files = dict(extra_files or {})
    r = tlc.run(ctx, specdir, module, cfg=cfg, workers=1, timeout=timeout,
                extra_files=dict(files, **{"recs.ndjson": open(path, "rb").read()}), name=name, heap=heap, deps=deps)
    p = parse(r.out)
    if p is None or not r.success:
        raise Inconclusive("oracle %s/%s failed on %s:\n%s" % (specdir, module, os.path.basename(path),
                                                                "\n".join(r.out.splitlines()[-30:])))
    # free the copy of the records early (they can be large)
    try:
        os.remove(os.path.join(r.workdir, "recs.ndjson"))
    except OSError:
        pass
    return p[0], p[1], r


def judge(ctx, specdir, module, cfg, paths, par=8, timeout=1800, extra_files=None, heap=None, name="oracle", deps=None):
    """Judge many shard files in parallel.  Returns dict(total, bad=[(path, idx1, record)], states, generated)."""
    res = {"total": 0, "bad": [], "states": 0, "generated": 0, "files": len(paths)}

    def one(ip):
        i, p = ip
        return p, judge_file(ctx, specdir, module, cfg, p, "%s-%d" % (name, i), timeout, extra_files, heap, deps)

    with ThreadPoolExecutor(max_workers=par) as ex:
        for p, (total, bad, r) in ex.map(one, list(enumerate(paths))):
            res["total"] += total
            res["states"] += max(r.distinct, 1)
            res["generated"] += max(r.generated, 1)
            if bad:
                want = set(bad[:50])
                with open(p) as f:
                    for k, line in enumerate(f, 1):
                        if k in want:
                            res["bad"].append((p, k, json.loads(line)))
    return res


def selftest(ctx, specdir, module, cfg, records, mutate, name="oracle-selftest", extra_files=None, deps=None):
    """records: list of dict; mutate(i, rec) -> corrupted rec or None.  Every corrupted record (and only those)
    must be rejected.  Returns dict for the evidence; raises Inconclusive when the oracle is blind."""
    recs = [json.loads(json.dumps(r)) for r in records]
    corrupted = []
    for i, r in enumerate(recs):
        m = mutate(i, r)
        if m is not None:
            recs[i] = m
            corrupted.append(i + 1)
    if not corrupted:
        raise Inconclusive("oracle self-test: nothing could be corrupted")
    path = os.path.join(ctx.sub(name), "selftest.ndjson")
    with open(path, "w") as f:
        for r in recs:
            f.write(json.dumps(r) + "\n")
    total, bad, _ = judge_file(ctx, specdir, module, cfg, path, name, extra_files=extra_files, deps=deps)
    if sorted(bad) != sorted(corrupted):
        # records that are rejected even uncorrupted (the tree under test has a real problem) are not the self-test's business
        base = os.path.join(ctx.sub(name + "-base"), "base.ndjson")
        with open(base, "w") as f:
            for r in records:
                f.write(json.dumps(r) + "\n")
        _, bad0, _ = judge_file(ctx, specdir, module, cfg, base, name + "-base", extra_files=extra_files, deps=deps)
        if sorted(set(bad) - set(bad0)) != sorted(set(corrupted) - set(bad0)) or not (set(corrupted) <= set(bad)):
            raise Inconclusive("oracle self-test failed: corrupted records %s, rejected %s (rejected uncorrupted: %s)" % (corrupted, bad, bad0))
    return {"records": total, "corrupted": len(corrupted), "rejected_exactly_those": True}
