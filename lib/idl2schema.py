"""Independent extractor: Tars IDL text -> schema (does not use tars2go's lexer/parser).

Schema (JSON-able):
  {"structs": {"Mod.Name": [member...]}, "enums": {"Mod.Name": {"MEMBER": int}}, "interfaces": {...}}
  member = {"name", "tag", "req", "ty": T, "def": canonical default value, "hasdef": bool}
  T = {"k":"int","t":"int8|uint8|...|bool"} | {"k":"f32"} | {"k":"f64"} | {"k":"str"}
    | {"k":"bytes","signed":bool} | {"k":"vec","el":T} | {"k":"map","key":T,"val":T}
    | {"k":"struct","name":"Mod.Name"} | {"k":"arr","n":N,"el":T}      (enum -> int32 with "enum":"Mod.Name")
Canonical values: integers/bools/floats/strings as big-endian byte arrays, vectors/arrays as lists,
maps as lists of [key, value], structs as lists of member values in tag order.
"""
import os
import re
import struct

TOK = re.compile(r"""
    (?P<ws>\s+|//[^\n]*|/\*.*?\*/)
  | (?P<inc>\#include\s*"[^"]*")
  | (?P<str>"(?:[^"\\]|\\.)*")
  | (?P<num>[+-]?(?:0[xX][0-9a-fA-F]+|\d+\.\d*(?:[eE][+-]?\d+)?|\.\d+|\d+(?:[eE][+-]?\d+)?))
  | (?P<name>[A-Za-z_][A-Za-z0-9_]*(?:::[A-Za-z_][A-Za-z0-9_]*)*)
  | (?P<sym>[{}\[\]();,<>=])
""", re.X | re.S)


class IdlError(Exception):
    pass


def tokenize(text):
    pos, out = 0, []
    while pos < len(text):
        m = TOK.match(text, pos)
        if not m:
            raise IdlError("bad character %r at %d" % (text[pos], pos))
        pos = m.end()
        k = m.lastgroup
        if k == "ws":
            continue
        out.append((k, m.group(k)))
    return out


SCALAR = {"bool": "bool", "byte": "int8", "short": "int16", "int": "int32", "long": "int64"}
UNSIGNED = {"byte": "uint8", "short": "uint16", "int": "uint32"}


class Parser:
    def __init__(self, toks, module_resolver):
        self.t = toks
        self.i = 0
        self.structs = {}
        self.enums = {}
        self.interfaces = {}
        self.consts = {}
        self.order = []
        self.includes = []

    def peek(self):
        return self.t[self.i] if self.i < len(self.t) else ("eof", "")

    def next(self):
        tk = self.peek()
        self.i += 1
        return tk

    def expect(self, val):
        k, v = self.next()
        if v != val:
            raise IdlError("expected %r, got %r" % (val, v))

    def accept(self, val):
        if self.peek()[1] == val:
            self.i += 1
            return True
        return False

    def parse(self):
        while self.peek()[0] != "eof":
            k, v = self.peek()
            if k == "inc":
                self.includes.append(re.search(r'"([^"]*)"', v).group(1))
                self.i += 1
            elif v == "module":
                self.module()
            else:
                raise IdlError("unexpected %r at top level" % v)

    def module(self):
        self.expect("module")
        _, mod = self.next()
        self.expect("{")
        while not self.accept("}"):
            k, v = self.peek()
            if v == "struct":
                self.struct(mod)
            elif v == "enum":
                self.enum(mod)
            elif v == "interface":
                self.interface(mod)
            elif v == "const":
                self.const(mod)
            elif v == "key":
                while self.next()[1] != "]":
                    pass
                self.accept(";")
            else:
                raise IdlError("unexpected %r in module" % v)
        self.accept(";")

    def enum(self, mod):
        self.expect("enum")
        _, name = self.next()
        self.expect("{")
        members, cur = {}, 0
        while not self.accept("}"):
            _, m = self.next()
            if self.accept("="):
                _, n = self.next()
                cur = int(n, 0)
            members[m] = cur
            cur += 1
            self.accept(",")
        self.accept(";")
        self.enums["%s.%s" % (mod, name)] = members

    def const(self, mod):
        self.expect("const")
        ty = self.type(mod)
        _, name = self.next()
        self.expect("=")
        k, v = self.next()
        self.accept(";")
        self.consts["%s.%s" % (mod, name)] = (ty, k, v)

    def type(self, mod):
        k, v = self.next()
        if v == "unsigned":
            _, b = self.next()
            if b not in UNSIGNED:
                raise IdlError("unsigned %s" % b)
            return {"k": "int", "t": UNSIGNED[b]}
        if v in SCALAR:
            return {"k": "int", "t": SCALAR[v]}
        if v == "float":
            return {"k": "f32"}
        if v == "double":
            return {"k": "f64"}
        if v == "string":
            return {"k": "str"}
        if v == "vector":
            self.expect("<")
            el = self.type(mod)
            self.expect(">")
            if el["k"] == "int" and el["t"] in ("int8", "uint8"):
                return {"k": "bytes", "signed": el["t"] == "int8"}
            return {"k": "vec", "el": el}
        if v == "map":
            self.expect("<")
            kt = self.type(mod)
            self.expect(",")
            vt = self.type(mod)
            self.expect(">")
            return {"k": "map", "key": kt, "val": vt}
        if k == "name":
            q = v.replace("::", ".") if "::" in v else "%s.%s" % (mod, v)
            return {"k": "named", "name": q}
        raise IdlError("bad type %r" % v)

    def struct(self, mod):
        self.expect("struct")
        _, name = self.next()
        self.expect("{")
        mbs = []
        while not self.accept("}"):
            _, tag = self.next()
            _, rq = self.next()
            if rq not in ("require", "optional"):
                raise IdlError("require/optional expected, got %r" % rq)
            ty = self.type(mod)
            _, mname = self.next()
            if self.accept("["):
                _, n = self.next()
                self.expect("]")
                ty = {"k": "arr", "n": int(n, 0), "el": ty}
            dflt = None
            if self.accept("="):
                dflt = self.next()
            self.expect(";")
            mbs.append({"name": mname, "tag": int(tag, 0), "req": rq == "require", "ty": ty, "lit": dflt, "mod": mod})
        self.accept(";")
        mbs.sort(key=lambda m: m["tag"])
        q = "%s.%s" % (mod, name)
        self.structs[q] = mbs
        self.order.append(q)

    def interface(self, mod):
        self.expect("interface")
        _, name = self.next()
        self.expect("{")
        funcs = []
        while not self.accept("}"):
            if self.peek()[1] == "void":
                self.next()
                ret = None
            else:
                ret = self.type(mod)
            _, fname = self.next()
            self.expect("(")
            args = []
            while not self.accept(")"):
                out = self.accept("out")
                ty = self.type(mod)
                _, an = self.next()
                args.append({"name": an, "out": out, "ty": ty})
                self.accept(",")
            self.accept(";")
            funcs.append({"name": fname, "ret": ret, "args": args})
        self.accept(";")
        self.interfaces["%s.%s" % (mod, name)] = funcs


def ibytes(v, w):
    return list((v & ((1 << (8 * w)) - 1)).to_bytes(w, "big"))


WIDTH = {"bool": 1, "int8": 1, "uint8": 1, "int16": 2, "uint16": 2, "int32": 4, "uint32": 4, "int64": 8}


def load(paths):
    """Parse IDL files (and their includes); returns the resolved schema dict."""
    structs, enums, interfaces, order = {}, {}, {}, []
    seen = set()
    todo = list(paths)
    while todo:
        p = os.path.abspath(todo.pop(0))
        if p in seen:
            continue
        seen.add(p)
        ps = Parser(tokenize(open(p, encoding="utf-8", errors="replace").read()), None)
        ps.parse()
        structs.update(ps.structs)
        enums.update(ps.enums)
        interfaces.update(ps.interfaces)
        order += ps.order
        for inc in ps.includes:
            todo.append(os.path.join(os.path.dirname(p), inc))

    def resolve(ty):
        k = ty["k"]
        if k == "named":
            if ty["name"] in enums:
                return {"k": "int", "t": "int32", "enum": ty["name"]}
            if ty["name"] in structs:
                return {"k": "struct", "name": ty["name"]}
            raise IdlError("unknown type %s" % ty["name"])
        if k == "vec":
            return {"k": "vec", "el": resolve(ty["el"])}
        if k == "arr":
            return {"k": "arr", "n": ty["n"], "el": resolve(ty["el"])}
        if k == "map":
            return {"k": "map", "key": resolve(ty["key"]), "val": resolve(ty["val"])}
        return ty

    for q, mbs in structs.items():
        for m in mbs:
            m["ty"] = resolve(m["ty"])
    for q, fs in interfaces.items():
        for f in fs:
            if f["ret"]:
                f["ret"] = resolve(f["ret"])
            for a in f["args"]:
                a["ty"] = resolve(a["ty"])

    def zero(ty):
        k = ty["k"]
        if k == "int":
            return [0] * WIDTH[ty["t"]]
        if k == "f32":
            return [0] * 4
        if k == "f64":
            return [0] * 8
        if k in ("str", "bytes", "vec", "map"):
            return []
        if k == "arr":
            return [zero(ty["el"]) for _ in range(ty["n"])]
        if k == "struct":
            return [default(m) for m in structs[ty["name"]]]
        raise IdlError(k)

    def default(m):
        lit, ty = m.get("lit"), m["ty"]
        if lit is None:
            return zero(ty)
        kind, text = lit
        k = ty["k"]
        if k == "int":
            if ty.get("enum") or kind == "name" and text not in ("true", "false"):
                if kind == "num":
                    return ibytes(int(text, 0), 4)
                nm = text.split("::")[-1]
                # enum member by name: look in the member's enum first, then everywhere
                cands = [ty["enum"]] if ty.get("enum") else []
                cands += [e for e in enums if e not in cands]
                for e in cands:
                    if nm in enums[e]:
                        return ibytes(enums[e][nm], WIDTH[ty["t"]])
                raise IdlError("unknown default %s" % text)
            if ty["t"] == "bool":
                return [1] if text == "true" else [0]
            return ibytes(int(float(text)) if kind == "num" and re.search(r"[.eE]", text) and not text.lower().startswith("0x") else int(text, 0), WIDTH[ty["t"]])
        if k == "f32":
            return list(struct.pack(">f", float(text)))
        if k == "f64":
            return list(struct.pack(">d", float(text)))
        if k == "str":
            return list(text[1:-1].encode("utf-8"))
        raise IdlError("default on %s" % k)

    out = {}
    for q in order:
        out[q] = [{"name": m["name"], "tag": m["tag"], "req": m["req"], "ty": m["ty"],
                   "def": default(m), "hasdef": m.get("lit") is not None} for m in structs[q]]
    return {"structs": out, "enums": enums, "interfaces": interfaces, "order": order}


def go_name(n):
    return n[:1].upper() + n[1:]


if __name__ == "__main__":
    import json
    import sys
    print(json.dumps(load(sys.argv[1:]), indent=1)[:6000])
