"""C16 — tars2go: valid IDL yields compiling, conformant code; the tool always terminates; the checked-in
bindings are what the generator produces.

Spec: spec/IdlGrammar.
  IdlPrograms.tla   the bounded family of VALID abstract programs as a generative state machine (TLC's simulator
                    samples it); lib/idlgen.py renders them to IDL text with identifiers from a pool.
  IdlSignatures.tla the family of operation signatures by parameter-direction sequence (every in/out sequence up to a
                    bound, with and without return value), enumerated exhaustively by TLC; one program per batch;
  IdlIncludes.tla   the family of include graphs (acyclic, up to 4 files, the order of the include lines part of the graph, the
                    root file written as one module or as two), enumerated exhaustively by TLC, each with the program in which
                    every file uses types of every file it includes (members, defaults, containers, arrays, parameters, results);
  IdlIncludeGraphs.tla  the family of include graphs of ANY shape (a line may name any file of the graph, itself included, or a
                    file that does not exist): self-include, cycles of 2..n files through the root or below it, cycles and missing
                    files that only a later include line leads to, diamonds, triangles; enumerated exhaustively by TLC up to
                    renumbering; Oracle_IncludeGraphs judges what the binary did on the files of each graph (in the language <=> no
                    cycle and nothing missing below the root: exit 0 and compiling output; otherwise: it ends, with a diagnostic);
  IdlSwitches.tla   the family of assignments of the tool's switches that change what it emits (+ the include search path),
                    enumerated by TLC; every program of a batch is generated under its own assignment;
  Oracle_Call       batch oracle for the calls made through the generated proxies and dispatchers (call transparency);
  IdlGrammar.tla    the IDL as a token-level pushdown automaton (reference for "in the language");
  Gen_IdlGrammar    TLC enumerates its configurations / viable prefixes and every transition out of them;
  Oracle_IdlGrammar batch oracle: TLC re-parses each token sequence and judges what the real binary did.
  Oracle_Enum       batch oracle for the values of the generated enum constants.
  TarsSchema        (spec/TarsSchema) Oracle_Schema / Oracle_Dec judge the codecs tars2go generated for each program.
Binding:
  (1) each batch of sampled programs goes through the tars2go binary built from the working tree (terminate, exit 0),
      one `go build` (structs, proxies, dispatchers), then the generated codecs are driven by cmd/codecdrive and judged
      by TLC against schemas extracted from the IDL text by the independent lib/idl2schema.py; every operation of every
      generated interface is called through its generated proxy method (with context, without, one-way), looped back
      in process into the generated Dispatch with a recording servant behind it (cmd/ifdrive adapts to the generated
      signatures by reflection; the servants are copied from the generated servant interfaces), and TLC judges per
      call: inputs delivered, outputs and return value handed back, servant entered once (directions from the IDL text);
  (2) one run of the binary per transition of the automaton (prefix + viable token + completion; prefix + end of
      input; prefix + non-viable token), plus random bytes, token soup and mutated valid programs: must terminate;
      in the language => exit 0 and compiling output; otherwise non-zero exit, or (lenient, logged) compiling output;
      one run of the binary per include graph of IdlIncludeGraphs (the files of the graph laid out flat / with ./ / in a
      sub-directory / behind the -include search path, the root file given bare, with ./, absolute, with ../): the child runs
      under a time limit AND an output cap (run_capped: output beyond the cap is read and dropped, the process group is
      killed at the limit); a run that does not end is repeated with a longer limit before it counts as "does not
      terminate" (so does a run that ends in the Go runtime's stack overflow); TLC (Oracle_IncludeGraphs) judges;
  (3) tars/protocol/res/*.tars regenerated with the Makefile's flags and compared with the checked-in files.
"""
import copy
import glob
import hashlib
import itertools
import json
import os
import random
import re
import shutil
import subprocess
import time
from concurrent.futures import ThreadPoolExecutor

from lib import codecfam, codecgen, gobuild, idl2schema, idlgen, oracle, tlc
from lib.core import REPO, VERIF, Inconclusive, env_go, load_known, sh

SPEC = "IdlGrammar"
PUNCT = {"{": "lbrace", "}": "rbrace", ";": "semi", "=": "eq", "<": "lt", ">": "gt", ",": "comma", "(": "lparen", ")": "rparen",
         "[": "lbracket", "]": "rbracket", "#include": "include"}


def tmpl(name, **kw):
    s = open(os.path.join(VERIF, "spec", SPEC, name)).read()
    for k, v in kw.items():
        s = s.replace("@%s@" % k, str(v))
    return s


def tlc_json_lines(out):
    """PrintT(ToJson(x)) lines: JSON-encoded JSON strings."""
    res = []
    for line in out.splitlines():
        if line.startswith('"{') or line.startswith('"['):
            try:
                res.append(json.loads(json.loads(line)))
            except ValueError:
                pass
    return res


def as_indexed(x):
    """ToJson of a TLA+ function over a set of record indices: an object, or -- when the set happens to be 1..n -- an array"""
    if isinstance(x, dict):
        return x
    if isinstance(x, list):
        return {str(i + 1): v for i, v in enumerate(x)}
    return {}


def run_tool(exe, args, cwd, timeout):
    """Run tars2go; returns (rc, output, seconds, timed_out).  A timeout kills the process (never Inconclusive:
    termination is what is being observed)."""
    t0 = time.time()
    try:
        p = subprocess.run([exe] + args, cwd=cwd, stdout=subprocess.PIPE, stderr=subprocess.STDOUT, timeout=timeout, env=env_go())
        return p.returncode, p.stdout.decode("utf-8", "replace"), time.time() - t0, False
    except subprocess.TimeoutExpired as e:
        return -1, (e.stdout or b"").decode("utf-8", "replace"), time.time() - t0, True


def diag_class(text):
    """Stable class of a tars2go diagnostic: the last non-log line, without file names, line numbers and identifiers."""
    lines = [l for l in text.splitlines() if l.strip() and not re.match(r"^\d{4}/\d\d/\d\d ", l)]
    if not lines:
        lines = [re.sub(r"^\d{4}/\d\d/\d\d \d\d:\d\d:\d\d ", "", l) for l in text.splitlines() if l.strip()][-1:]
        lines = [re.sub(r"\S*/\S*|\S+\.tars\S*", "", l) for l in lines]
    if not lines:
        return "no-diagnostic"
    l = lines[-1]
    l = re.sub(r"^\S+\.tars: ?\d+\.\s*", "", l)
    l = re.sub(r"[A-Za-z_0-9]*\d[A-Za-z_0-9]*", "", l)
    l = re.sub(r"[^A-Za-z]+", "-", l).strip("-").lower()
    return l[:60] or "no-diagnostic"


def go_error_class(text):
    """Stable class of the first Go compile error: the plain lower-case words of the message (identifiers, types and
    numbers dropped)."""
    for l in text.splitlines():
        m = re.match(r"^\S+\.go:\d+:\d+: (.*)$", l)
        if m:
            words = [w.strip(":,;()") for w in m.group(1).replace("(", " ").replace(")", " ").split()]
            words = [w for w in words if re.match(r"^[a-z]{2,}$", w)]
            return "-".join(words[:8]) or "compile-error"
    return "compile-error"


def go_build(h, pattern, timeout=900):
    """go build of generated packages; returns (ok, {package dir relative to h: first error text})."""
    rc, so, se = sh(["go", "build", pattern], cwd=h, env=env_go(), timeout=timeout, check=False)
    bad = {}
    if rc != 0:
        cur = None
        for l in (so + se).splitlines():
            m = re.match(r"^(\S+)/[^/\s]+\.go:\d+:\d+: ", l)
            if m:
                cur = os.path.normpath(m.group(1))
                bad.setdefault(cur, "")
                if len(bad[cur]) < 1500:
                    bad[cur] += l + "\n"
        if not bad:
            raise Inconclusive("go build %s failed without a source position:\n%s" % (pattern, (so + se)[-3000:]))
    return rc == 0, bad


LOAD_ERR = re.compile(r"is not in std|cannot find package|no required module provides|cannot find module|import cycle not allowed|case-insensitive import collision")


def go_build_all(h, root):
    """go build ./<root>/...: a package that cannot be LOADED (an import that resolves to nothing) keeps the compiler from
    running on any package of the pattern, so the trees <root>/<x> with such errors are set aside and the rest is built again."""
    bad = {}
    for _ in range(6):
        ok, b = go_build(h, "./%s/..." % root)
        for pkg, e in b.items():
            bad.setdefault(pkg, e)
        load = sorted({os.sep.join(pkg.split(os.sep)[:2]) for pkg, e in b.items() if LOAD_ERR.search(e)})
        if ok or not load:
            break
        for t in load:
            shutil.rmtree(os.path.join(h, t), ignore_errors=True)
    return bad


GENFROM = re.compile(r"^// This file was generated from (\S+)", re.M)
GENIMPORT = re.compile(r'^\s*(?:(\w+)\s+)?"verifharness/([^"]+)"\s*$', re.M)


def scan_gen(h, root):
    """Where the generator put what: {IDL file name: package directory relative to the harness} from the header line of the
    emitted files, {qualifier: package directory} from their package clauses and from the import lines the generator wrote
    (the qualifiers other emitted code uses for a package).  A file with several modules gives several directories."""
    src, quals = {}, {}
    for path in sorted(glob.glob(os.path.join(h, root, "**", "*.go"), recursive=True)):
        text = open(path, encoding="utf-8", errors="replace").read()
        d = os.path.relpath(os.path.dirname(path), h)
        m = GENFROM.search(text)
        if m:
            f = os.path.basename(m.group(1))
            if d not in src.setdefault(f, []):
                src[f].append(d)
        pm = re.search(r"^package (\w+)", text, re.M)
        if pm:
            quals.setdefault(pm.group(1), d)
        for im in GENIMPORT.finditer(text):
            quals[im.group(1) or os.path.basename(im.group(2))] = im.group(2)
    return src, quals


# =============================================================================================== clause 3

BANNER = re.compile(r"^// Code generated by tars2go \d+(\.\d+)*, DO NOT EDIT\.$", re.M)


def normalise_go(path):
    rc, so, se = sh(["gofmt", path], env=env_go(), timeout=60, check=False)
    if rc != 0:
        return None
    return BANNER.sub("// Code generated by tars2go X.Y.Z, DO NOT EDIT.", so)


def makefile_flags():
    mk = open(os.path.join(REPO, "tars", "protocol", "res", "Makefile")).read()
    m = re.search(r"^\s*tars2go\s+(.*?)\s+\*\.tars\s*$", mk, re.M)
    if not m:
        raise Inconclusive("cannot read the tars2go flags from tars/protocol/res/Makefile")
    return m.group(1).split()


def clause3(ctx, exe):
    res = os.path.join(REPO, "tars", "protocol", "res")
    d = ctx.sub("regen")
    names = sorted(os.path.basename(p) for p in glob.glob(os.path.join(res, "*.tars")))
    for n in names:
        shutil.copy(os.path.join(res, n), d)
    rc, out, secs, to = run_tool(exe, makefile_flags() + names, d, 30)
    if to:
        ctx.violate("C16:hang:framework-idl", "tars2go does not terminate on tars/protocol/res/*.tars", {"files": names})
        return {"files_compared": 0}
    if rc != 0:
        ctx.violate("C16:valid-rejected:framework-idl:" + diag_class(out), "tars2go rejects the framework's own IDL files: " + out[-300:], {"files": names})
        return {"files_compared": 0}
    gen = sorted(os.path.relpath(p, d) for p in glob.glob(os.path.join(d, "*", "*.go")))
    compared, differing = 0, []

    def differs(a, b):
        na, nb = normalise_go(a), normalise_go(b)
        if na is None or nb is None:
            return True
        return na != nb

    for rel in gen:
        chk = os.path.join(res, rel)
        if not os.path.exists(chk):
            ctx.violate("C16:checked-in-binding-differs:%s:missing" % rel, "the generator emits %s but it is not checked in" % rel, {"file": rel})
            differing.append(rel)
            continue
        compared += 1
        if differs(os.path.join(d, rel), chk):
            a, b = normalise_go(os.path.join(d, rel)) or "", normalise_go(chk) or ""
            la, lb = a.splitlines(), b.splitlines()
            first = next((i for i, (x, y) in enumerate(zip(la, lb)) if x != y), min(len(la), len(lb)))
            ctx.violate("C16:checked-in-binding-differs:%s" % rel,
                        "checked-in %s is not what tars2go generates (first difference at line %d)" % (rel, first + 1),
                        {"file": rel, "generated": la[first:first + 3], "checked_in": lb[first:first + 3]})
            differing.append(rel)
    stale, hand = [], []
    for p in sorted(glob.glob(os.path.join(res, "*", "*.go"))):
        rel = os.path.relpath(p, res)
        if rel not in gen:
            if BANNER.search(open(p).read()):
                stale.append(rel)
                ctx.violate("C16:checked-in-binding-differs:%s:not-generated" % rel,
                            "%s carries the generator's banner but the generator does not produce it" % rel, {"file": rel})
            else:
                hand.append(rel)
    # self-test: a corrupted copy of one checked-in file must be flagged by the same comparison
    if not gen:
        raise Inconclusive("regeneration produced no files")
    victim = gen[len(gen) // 2]
    sc = ctx.sub("regen-selftest")
    txt = open(os.path.join(res, victim)).read()
    m = re.search(r"tag:(\d+)", txt) or re.search(r"\b(\d+)\)", txt)
    if not m:
        raise Inconclusive("diff self-test: nothing to corrupt in %s" % victim)
    cor = txt[:m.start(1)] + str(int(m.group(1)) + 1) + txt[m.end(1):]
    cp = os.path.join(sc, "corrupt.go")
    open(cp, "w").write(cor)
    # banner-only change must NOT be flagged, the corrupted copy must
    bp = os.path.join(sc, "banner.go")
    open(bp, "w").write(BANNER.sub("// Code generated by tars2go 0.0.1, DO NOT EDIT.", open(os.path.join(d, victim)).read()))
    st_flag = differs(os.path.join(d, victim), cp)
    st_banner = differs(os.path.join(d, victim), bp)
    if not st_flag or st_banner:
        raise Inconclusive("diff self-test failed: corrupted copy flagged=%s, banner-only change flagged=%s" % (st_flag, st_banner))
    return {"files_compared": compared, "files_differing": differing, "stale_generated": stale, "hand_written_not_compared": hand,
            "flags": makefile_flags(), "selftest_corrupted_copy_flagged": True, "selftest_banner_only_not_flagged": True,
            "selftest_file": victim}


# =============================================================================================== clause 2

def explore(ctx, depth, maxlen, byprefix, name):
    r = tlc.run(ctx, SPEC, "Gen_IdlGrammar", cfg="Gen.cfg", workers=1, timeout=900, name=name,
                extra_files={"Gen.cfg": tmpl("Gen.cfg.tmpl", DEPTH=depth, LEN=maxlen, BYPREFIX="TRUE" if byprefix else "FALSE")})
    tlc.require_clean(r, "Gen_IdlGrammar " + name)
    recs = tlc_json_lines(r.out)
    head = [x for x in recs if "alphabet" in x]
    nodes = [x for x in recs if "trans" in x]
    if not head or not nodes:
        raise Inconclusive("Gen_IdlGrammar produced no records")
    return head[0]["alphabet"], nodes, r


def ckey(c, soft):
    return json.dumps(c, sort_keys=True) + "|%d" % soft


def completions(nodes):
    """Shortest viable token path from every configuration to acceptance: BFS over the graph TLC enumerated."""
    graph, acc = {}, set()
    for n in nodes:
        k = ckey(n["c"], n["soft"])
        if k in graph:
            continue
        graph[k] = [(tr["t"], ckey(tr["to"], n["soft"]), n["c"]) for tr in sorted(n["trans"], key=lambda x: x["t"]) if tr["kind"] == "ok"]
        if n["accepting"]:
            acc.add(k)
    rev = {}
    for k, es in graph.items():
        for t, to, c in es:
            rev.setdefault(to, []).append(k)
    dist = {k: 0 for k in acc}
    frontier = sorted(acc)
    while frontier:
        nxt = []
        for k in frontier:
            for p in rev.get(k, []):
                if p not in dist:
                    dist[p] = dist[k] + 1
                    nxt.append(p)
        frontier = sorted(set(nxt))

    def path(k):
        out = []
        while dist.get(k, None) not in (0, None):
            t, to, c = min(((t, to, c) for t, to, c in graph[k] if dist.get(to, 1 << 30) == dist[k] - 1), key=lambda x: x[0])
            out.append((t, c))
            k = to
        return out if k in dist else None

    return graph, dist, path


def plan_token_tests(alphabet, nodes, cut_tests, cut_sample=None):
    """One test per transition of the automaton.  Each test: dict(toks=[...], steps=[(tok, config)], what=...)."""
    graph, dist, path = completions(nodes)
    tests, seen = [], set()
    nocomp = 0

    region = [""]

    def add(steps, what):
        toks = [t for t, _ in steps]
        key = tuple(toks)
        if key in seen:
            return
        seen.add(key)
        tests.append({"toks": toks, "steps": steps, "what": what, "region": region[0]})

    for n in nodes:
        if n["soft"] != 0:
            continue
        c = n["c"]
        region[0] = n["region"]
        pre = [(h["t"], h["c"]) for h in n["hist"]]
        own = path(ckey(c, 0))
        if own is None:
            nocomp += 1
            continue
        add(pre, "eof")
        by = {tr["t"]: tr for tr in n["trans"]}
        for t in sorted(alphabet):
            tr = by.get(t)
            if tr is None:
                if cut_tests and (cut_sample is None or cut_sample(c, t)):
                    add(pre + [(t, c)], "hard-cut")
                add(pre + [(t, c)] + own, "hard-insert")
            elif tr["kind"] == "ok":
                comp = path(ckey(tr["to"], 0))
                if comp is None:
                    nocomp += 1
                    continue
                add(pre + [(t, c)] + comp, "viable")
            elif tr["kind"] == "soft":
                comp = path(ckey(tr["to"], 1))
                if comp is not None:
                    add(pre + [(t, c)] + comp, "soft")
                else:
                    add(pre + [(t, c)] + own, "soft-insert")
    return tests, nocomp


def run_inputs(ctx, exe, h, inputs, idl_dir, out_root, timeout, par=None, tag="w"):
    """inputs: [(id, bytes)]; writes <idl_dir>/<id>.tars and runs the binary into <out_root>/<id>/, spread over `par`
    shell workers (a Python thread per run is an order of magnitude slower).  `timeout -s KILL` bounds each run.
    Returns {id: dict(rc, timeout, secs, out, files)}."""
    os.makedirs(os.path.join(h, idl_dir), exist_ok=True)
    logd = os.path.join(h, out_root + "-log")
    os.makedirs(logd, exist_ok=True)
    par = max(1, min(par or ctx.ncpu, len(inputs)))
    scripts = [[] for _ in range(par)]
    for n, (tid, data) in enumerate(inputs):
        with open(os.path.join(h, idl_dir, tid + ".tars"), "wb") as f:
            f.write(data)
        scripts[n % par].append(
            's=$EPOCHREALTIME; timeout -s KILL %d "$EXE" -outdir=%s/%s/ -module=verifharness %s/%s.tars > %s/%s.txt 2>&1; '
            'echo "%s $? $s $EPOCHREALTIME" >> %s/%s%d.log' % (timeout, out_root, tid, idl_dir, tid, logd, tid, tid, logd, tag, n % par))
    procs = []
    env = env_go({"EXE": exe})
    for i, lines in enumerate(scripts):
        sp = os.path.join(logd, "%s%d.sh" % (tag, i))
        open(sp, "w").write("\n".join(lines) + "\n")
        lp = os.path.join(logd, "%s%d.log" % (tag, i))
        if os.path.exists(lp):
            os.remove(lp)
        procs.append(subprocess.Popen(["bash", sp], cwd=h, env=env, stdout=subprocess.DEVNULL, stderr=subprocess.DEVNULL))
    for pr in procs:
        pr.wait()
    res = {}
    for i in range(par):
        lp = os.path.join(logd, "%s%d.log" % (tag, i))
        if not os.path.exists(lp):
            continue
        for line in open(lp):
            tid, rc, t0, t1 = line.split()
            secs = float(t1) - float(t0)
            to = int(rc) == 137 and secs >= timeout - 0.2
            try:
                out = open(os.path.join(logd, tid + ".txt"), "rb").read()[-600:].decode("utf-8", "replace")
            except OSError:
                out = ""
            files = sorted(glob.glob(os.path.join(h, out_root, tid, "*", "*.go"))) if int(rc) == 0 else []
            res[tid] = {"rc": -1 if to else int(rc), "timeout": to, "secs": round(secs, 3), "out": out, "files": files}
    if len(res) != len(inputs):
        raise Inconclusive("runner lost %d of %d runs" % (len(inputs) - len(res), len(inputs)))
    return res


def compile_outputs(ctx, h, out_root, results):
    """Compile what accepted inputs produced.  Identical outputs (up to the test's own id) are compiled once.
    Sets results[id]['compiled'] and ['cerr']."""
    classes = {}
    for tid, r in results.items():
        r["compiled"], r["cerr"] = False, ""
        if r["rc"] != 0 or r["timeout"]:
            continue
        if not r["files"]:
            r["compiled"] = True        # nothing emitted (e.g. an empty module): vacuously usable
            continue
        hh = hashlib.sha1()
        for p in r["files"]:
            hh.update(os.path.relpath(p, os.path.join(h, out_root, tid)).replace(tid, "@").encode())
            hh.update(open(p, "rb").read().replace(tid.encode(), b"@"))
        classes.setdefault(hh.hexdigest(), []).append(tid)
    keep = {v[0] for v in classes.values()}
    for tid, r in results.items():
        if r["rc"] == 0 and r["files"] and tid not in keep:
            shutil.rmtree(os.path.join(h, out_root, tid), ignore_errors=True)
    for tid, r in results.items():
        if r["rc"] != 0 or r["timeout"]:
            shutil.rmtree(os.path.join(h, out_root, tid), ignore_errors=True)
    nrep = len(keep)
    bad = {}
    if nrep:
        ok, bad = go_build(h, "./" + out_root + "/...")
    for hx, tids in classes.items():
        rep = tids[0]
        err = ""
        for pkg, e in bad.items():
            if pkg.startswith(os.path.join(out_root, rep) + os.sep) or pkg == os.path.join(out_root, rep):
                err += e
        for tid in tids:
            results[tid]["compiled"] = err == ""
            results[tid]["cerr"] = err[:800]
    return nrep


def judge_tokens(ctx, records, name, shards=8):
    """Oracle_IdlGrammar over the run records.  Returns (bad {idx0: info}, lenient {idx0: info}, nvalid, states, generated)."""
    d = ctx.sub(name)
    per = max(1, (len(records) + shards - 1) // shards)
    chunks = [records[i:i + per] for i in range(0, len(records), per)]
    paths = []
    for i, ch in enumerate(chunks):
        p = os.path.join(d, "recs_%02d.ndjson" % i)
        with open(p, "w") as f:
            for r in ch:
                f.write(json.dumps(r) + "\n")
        paths.append(p)
    bad, lenient = {}, {}
    tot = {"nvalid": 0, "states": 0, "generated": 0, "total": 0}

    def one(ip):
        i, p = ip
        total, b, r = oracle.judge_file(ctx, SPEC, "Oracle_IdlGrammar", "Oracle.cfg", p, "%s-%d" % (name, i), timeout=1200)
        js = [x for x in tlc_json_lines(r.out) if "nvalid" in x]
        if not js:
            raise Inconclusive("Oracle_IdlGrammar printed no details")
        return i, total, b, js[0], r

    with ThreadPoolExecutor(max_workers=shards) as ex:
        for i, total, b, js, r in ex.map(one, list(enumerate(paths))):
            tot["total"] += total
            tot["nvalid"] += js["nvalid"]
            tot["states"] += max(r.distinct, 1)
            tot["generated"] += max(r.generated, 1)
            jb, jl = as_indexed(js["bad"]), as_indexed(js["lenient"])
            if sorted(int(k) for k in jb) != sorted(b):
                raise Inconclusive("Oracle_IdlGrammar: details do not match the rejected set")
            for k, v in jb.items():
                bad[i * per + int(k) - 1] = v
            for k, v in jl.items():
                lenient[i * per + int(k) - 1] = v
    if tot["total"] != len(records):
        raise Inconclusive("token oracle judged %d of %d records" % (tot["total"], len(records)))
    return bad, lenient, tot


CTL_REGION = [("E_", "enum"), ("SM_", "struct-body"), ("S_", "struct"), ("IF_", "interface-body"), ("IP_", "interface-body"), ("I_", "interface"),
              ("C_", "const"), ("K_", "key"), ("M_", "module"), ("F", "file"), ("T", "type")]


def orecs_region(info):
    for pre, name in CTL_REGION:
        if info["ctl"].startswith(pre):
            return name
    return "other"


RAW_CLASSES = [(r"cannot use .* constant\) as .* value in (assignment|constant declaration)", "literal-type-mismatch"),
               (r"constant .* overflows|truncated", "literal-type-mismatch"),
               (r"invalid map key type", "container-as-map-key"),
               (r"invalid array length", "array-length-negative"),
               (r"redeclared|duplicate (field|method|case)|already declared", "duplicate-identifier"),
               (r"cannot use st\.\w+ \(variable of type \[\d+\]u?int8\)", "fixed-array-of-bytes")]


def tokname(t):
    return PUNCT.get(t, t)


def token_signature(info, rec, res):
    v = info["v"]
    if v == "hang":
        if rec["cls"] == "tok":
            # a run that never ends was still reading when the input ended: when the first token outside the language is the
            # last one (or the end itself) the class is "end of input inside <construct>"
            t = "eof" if info["at"] >= len(rec["toks"]) else tokname(info["t"])
            return "C16:hang:%s-inside-%s" % (t, info["region"])
        return "C16:hang:eof-inside-%s" % idlgen.open_construct(rec["_data"])
    if v == "accepted-but-does-not-compile":
        if rec["cls"] != "tok":
            # no reference class for raw input: the compiler's complaint names it; complaints that are typical of a class
            # the automaton knows are filed under that class
            ec = go_error_class(res["cerr"])
            for pat, cls in RAW_CLASSES:
                if re.search(pat, res["cerr"].splitlines()[0] if res["cerr"] else ""):
                    return "C16:accepted-but-does-not-compile:%s" % cls
            # (one class: which compiler message a piece of garbage ends in depends on the sample, the defect does not:
            # the parser skipped what it could not read instead of reporting it)
            return "C16:accepted-but-does-not-compile:raw-input-outside-the-language"
        if info["kind"] == "soft":
            return "C16:accepted-but-does-not-compile:%s" % info["why"]
        return "C16:accepted-but-does-not-compile:unexpected-%s-at-%s" % (tokname(info["t"]), info["ctl"])
    if v == "valid-rejected":
        return "C16:valid-rejected:%s" % diag_class(res["out"])
    if v == "valid-does-not-compile":
        return "C16:valid-does-not-compile:%s" % go_error_class(res["cerr"])
    return "C16:%s" % v


def settle_timeouts(ctx, exe, h, inputs, results, idl_dir, out_root):
    """Machine load must not look like a hang: some of the timeouts are re-run on their own; if any of those then
    terminates, all of them are re-run."""
    touts = sorted(tid for tid, r in results.items() if r["timeout"])
    if touts:
        byid = dict(inputs)
        again = run_inputs(ctx, exe, h, [(tid, byid[tid]) for tid in touts[:4]], idl_dir, out_root, 5, par=4, tag="again")
        if any(not r["timeout"] for r in again.values()):
            again = run_inputs(ctx, exe, h, [(tid, byid[tid]) for tid in touts], idl_dir, out_root, 5, par=4, tag="again2")
        results.update(again)
    return len(touts)


def report_bad(ctx, bad, recs, results, inputs):
    byid = dict(inputs)
    for idx, info in sorted(bad.items()):
        rec, res = recs[idx], results[recs[idx]["id"]]
        if info["v"] == "beyond":
            raise Inconclusive("a token test exceeds the oracle's stack bound: %s" % rec["toks"])
        sig = token_signature(info, rec, res)
        text = byid[rec["id"]]
        ctx.violate(sig, "%s: input %r -> exit %s%s %s" % (info["v"], text[:160].decode("utf-8", "replace"), res["rc"],
                                                            " (no exit within 5 s)" if res["timeout"] else "",
                                                            (res["cerr"] or res["out"])[-200:].replace("\n", " | ")),
                    {"input": text.decode("utf-8", "replace"), "tokens": rec["toks"], "class": rec["what"], "oracle": info,
                     "exit": res["rc"], "output": res["out"], "compile_error": res["cerr"]})


def clause2(ctx, exe):
    """One run of the binary per transition of the automaton; TLC judges.  Returns (evidence, texts of accepted valid inputs)."""
    depth = ctx.pick(1, 3)
    alphabet, nodes, rgen = explore(ctx, depth, 80, False, "gen-configs")
    # quick tier: "prefix + non-viable token + end of input" for a seeded part of the pairs (every pair is still run with
    # the prefix's completion after the token, and every prefix with end of input right after it)
    crng = random.Random(ctx.seed * 31 + 5)
    tests, nocomp = plan_token_tests(alphabet, nodes, cut_tests=True, cut_sample=(lambda c, t: crng.random() < 0.05) if ctx.quick else None)
    nconf = len([n for n in nodes if n["soft"] == 0])
    ntrans = sum(len(n["trans"]) for n in nodes if n["soft"] == 0)
    gen_states, gen_trans = rgen.distinct, rgen.generated
    nprefix = 0
    if not ctx.quick:
        # every viable prefix up to a length (not just one per configuration)
        _, pnodes, rp = explore(ctx, 2, 11, True, "gen-prefixes")
        ptests, nc2 = plan_token_tests(alphabet, nodes + pnodes, cut_tests=False)
        seen = {tuple(t["toks"]) for t in tests}
        tests += [t for t in ptests if tuple(t["toks"]) not in seen]
        nprefix = len([n for n in pnodes if n["soft"] == 0])
        gen_states += rp.distinct
        gen_trans += rp.generated
    if nocomp:
        raise Inconclusive("%d configurations of the automaton have no completion in the explored graph" % nocomp)
    h = gobuild.stage_harness(ctx)
    os.makedirs(os.path.join(h, "tokidl"), exist_ok=True)
    for name, text in (("pre.tars", idlgen.PRELUDE), ("inc1.tars", idlgen.INC[1]), ("inc2.tars", idlgen.INC[2])):
        open(os.path.join(h, "tokidl", name), "w").write(text)
    inputs, recs = [], []
    for i, t in enumerate(tests):
        tid = "t%06d" % i
        # tests without references to the prelude alternate between carrying the include line and not
        text = idlgen.TokenText(variant=i).render(t["steps"], prelude=(i % 3 == 0))
        t["text"] = text
        inputs.append((tid, text.encode("utf-8")))
        recs.append({"id": tid, "cls": "tok", "toks": t["toks"], "what": t["what"]})
    ctx.log("clause 2: %d configurations, %d token tests" % (nconf, len(tests)))
    t0 = time.time()
    results = run_inputs(ctx, exe, h, inputs, "tokidl", "tok", 5)
    nto = settle_timeouts(ctx, exe, h, inputs, results, "tokidl", "tok")
    ctx.log("clause 2: binary ran %d times in %.1fs (%d timeouts re-run)" % (len(inputs), time.time() - t0, nto))
    t0 = time.time()
    nrep = compile_outputs(ctx, h, "tok", results)
    ctx.log("clause 2: compiled %d distinct outputs in %.1fs" % (nrep, time.time() - t0))
    orecs = [{"id": r["id"], "cls": r["cls"], "toks": r["toks"], "rc": results[r["id"]]["rc"], "timeout": results[r["id"]]["timeout"],
              "compiled": results[r["id"]]["compiled"]} for r in recs]
    bad, lenient, tot = judge_tokens(ctx, orecs, "tokoracle", shards=ctx.pick(4, 8))
    report_bad(ctx, bad, recs, results, inputs)
    # lenient acceptances: observations, grouped by context
    len_classes, len_examples = {}, {}
    byid = dict(inputs)
    for idx, info in sorted(lenient.items()):
        k = info["why"] or "unexpected-token-inside-%s" % orecs_region(info)
        len_classes[k] = len_classes.get(k, 0) + 1
        len_examples.setdefault(k, [])
        if len(len_examples[k]) < 2:
            len_examples[k].append(byid[recs[idx]["id"]].decode("utf-8", "replace")[:200])
    # binding self-test: falsified observations must be rejected, exactly those
    good = [i for i, r in enumerate(orecs) if i not in bad]
    valid_ok = [i for i in good if orecs[i]["rc"] == 0 and i not in lenient][:3]
    invalid_rej = [i for i in good if orecs[i]["rc"] != 0][:3]
    if len(valid_ok) < 3 or len(invalid_rej) < 3:
        raise Inconclusive("token self-test: not enough accepted/rejected records")
    sample = [json.loads(json.dumps(orecs[i])) for i in (valid_ok + invalid_rej)]
    sample[0]["rc"] = 1                      # a program of the language reported as rejected
    sample[1]["compiled"] = False            # ... as emitting code that does not compile
    sample[3]["rc"], sample[3]["compiled"] = 0, False     # an input outside the language accepted with unusable output
    sample[4]["timeout"] = True              # a hang
    sb, _, _ = judge_tokens(ctx, sample, "tokoracle-selftest", shards=1)
    if sorted(sb) != [0, 1, 3, 4] or [sb[k]["v"] for k in (0, 1, 3, 4)] != ["valid-rejected", "valid-does-not-compile", "accepted-but-does-not-compile", "hang"]:
        raise Inconclusive("token oracle self-test failed: rejected %s" % {k: v["v"] for k, v in sb.items()})
    by_what = {}
    for r in recs:
        by_what[r["what"]] = by_what.get(r["what"], 0) + 1
    # end of input at every configuration, by construct: how many runs, how many never ended
    eof_by_region = {}
    for i, t in enumerate(tests):
        if t["what"] == "eof":
            e = eof_by_region.setdefault(t["region"], {"runs": 0, "hangs": 0})
            e["runs"] += 1
            e["hangs"] += 1 if orecs[i]["timeout"] else 0
    ex = next((t for t in tests if t["what"] == "viable" and len(t["toks"]) > 12), tests[0])
    ok_texts = [t["text"] for i, t in enumerate(tests) if t["what"] == "viable" and i not in bad and orecs[i]["rc"] == 0]
    ev = {
        "configurations": nconf, "transitions_of_automaton": ntrans, "prefixes_enumerated": nprefix, "stack_depth": depth,
        "token_tests": len(tests), "tests_by_kind": by_what, "end_of_input_by_construct": eof_by_region,
        "runs": len(inputs), "in_language": tot["nvalid"], "accepted_outputs_compiled": nrep,
        "lenient_acceptances": sum(len_classes.values()), "lenient_classes": dict(sorted(len_classes.items(), key=lambda x: -x[1])),
        "lenient_examples": len_examples,
        "rejected_by_oracle": len(bad), "oracle_states": tot["states"], "oracle_transitions": tot["generated"],
        "gen_states": gen_states, "gen_transitions": gen_trans,
        "selftest_falsified_observations": {"records": len(sample), "corrupted": 4, "rejected_exactly_those": True},
        "sample": {"tokens": ex["toks"], "text": ex["text"], "exit": results[recs[tests.index(ex)]["id"]]["rc"]},
    }
    return ev, ok_texts


def clause2_raw(ctx, exe, corpus, kinds, nraw, tag):
    """Inputs without a reference class: random bytes, token soup, valid programs cut or with characters / tokens changed.
    Judged by the same oracle (class "raw"): the binary terminates, and exit 0 comes with output that compiles."""
    h = gobuild.stage_harness(ctx)
    rng = random.Random(ctx.seed * 7919 + 16 + len(tag))
    inputs, recs = [], []
    for j, (cls, data) in enumerate(idlgen.raw_inputs(rng, nraw, corpus, kinds)):
        tid = "%s%06d" % (tag, j)
        inputs.append((tid, data))
        recs.append({"id": tid, "cls": "raw", "toks": [], "what": cls, "_data": data})
    t0 = time.time()
    # in chunks: on a tree where whole classes of input hang, every hang costs 5 s of a core; once 150 runs have timed out
    # the classes are known and the rest of the corpus is dropped (recorded in the evidence)
    results, done, chunk = {}, 0, 10000
    while done < len(inputs):
        part = inputs[done:done + chunk]
        r = run_inputs(ctx, exe, h, part, "tokidl", "raw" + tag, 5, tag="raw%d" % done)
        settle_timeouts(ctx, exe, h, part, r, "tokidl", "raw" + tag)
        results.update(r)
        done += len(part)
        if sum(1 for x in results.values() if x["timeout"]) > 150:
            break
    truncated = len(inputs) - done
    inputs, recs, nraw = inputs[:done], recs[:done], done
    nrep = compile_outputs(ctx, h, "raw" + tag, results)
    ctx.log("clause 2: %d raw inputs (%s) run and %d distinct outputs compiled in %.1fs" % (nraw, "/".join(kinds), nrep, time.time() - t0))
    orecs = [{"id": r["id"], "cls": "raw", "toks": [], "rc": results[r["id"]]["rc"], "timeout": results[r["id"]]["timeout"],
              "compiled": results[r["id"]]["compiled"]} for r in recs]
    bad, _, tot = judge_tokens(ctx, orecs, "raworacle" + tag, shards=ctx.pick(2, 6))
    report_bad(ctx, bad, recs, results, inputs)
    by_what, acc = {}, {}
    for r in recs:
        by_what[r["what"]] = by_what.get(r["what"], 0) + 1
        if results[r["id"]]["rc"] == 0:
            acc[r["what"]] = acc.get(r["what"], 0) + 1
    return {"raw_inputs": nraw, "dropped_after_150_timeouts": truncated, "by_kind": by_what, "exit_0_by_kind": acc, "corpus_texts": len(corpus), "accepted_outputs_compiled": nrep,
            "rejected_by_oracle": len(bad), "oracle_states": tot["states"], "oracle_transitions": tot["generated"]}


# =============================================================================================== clause 1

def sample_programs(ctx, n, seed, tdepth):
    cfg = tmpl("Programs.cfg.tmpl", TDEPTH=tdepth, MINSTRUCTS=2, STRUCTS=3, FUNCS=3, PARAMS=4)
    r = tlc.run(ctx, SPEC, "IdlPrograms", cfg="Programs.cfg", workers=1, timeout=900, name="programs",
                extra_files={"Programs.cfg": cfg}, simulate="num=%d" % n, depth=800, seed=seed, deadlock=False)
    progs = [p for p in tlc_json_lines(r.out) if "structs" in p]
    if r.errors() or len(progs) < n:
        raise Inconclusive("IdlPrograms sampling failed (%d of %d programs):\n%s" % (len(progs), n, "\n".join(r.out.splitlines()[-30:])))
    m = re.search(r"(\d+) states checked", r.out)
    return progs[:n], (int(m.group(1)) if m else 0)


def signature_program(ctx, maxparams, rot, name):
    """IdlSignatures.tla: TLC enumerates every parameter-direction sequence up to maxparams, with and without a return
    value; the result is one abstract program (IdlPrograms' format) holding one operation per signature."""
    r = tlc.run(ctx, SPEC, "IdlSignatures", cfg="Signatures.cfg", workers=1, timeout=300, name=name,
                extra_files={"Signatures.cfg": tmpl("Signatures.cfg.tmpl", PARAMS=maxparams, ROT=rot)})
    tlc.require_clean(r, "IdlSignatures " + name)
    recs = tlc_json_lines(r.out)
    skel = [x for x in recs if "skeleton" in x]
    funcs = sorted((x for x in recs if "params" in x and "shape" in x), key=lambda f: (bool(f["ret"]), f["shape"]))
    want = 2 * (2 ** (maxparams + 1) - 1)
    if not skel or len(funcs) != want or r.distinct != want:
        raise Inconclusive("IdlSignatures emitted %d signatures (%d states), expected %d" % (len(funcs), r.distinct, want))
    return dict(skel[0]["skeleton"], funcs=funcs), r


def include_programs(ctx, maxfiles, name):
    """IdlIncludes.tla: TLC enumerates every include graph over up to maxfiles files (one state per graph: acyclic, the
    order of the include lines is part of the state); every graph whose files are all reachable from the last one is
    emitted with its program (IdlPrograms' format + `mods`).  Returns ([{"graph", "program"}], run)."""
    r = tlc.run(ctx, SPEC, "IdlIncludes", cfg="Includes.cfg", workers=1, timeout=600, name=name, heap="1g",
                extra_files={"Includes.cfg": tmpl("Includes.cfg.tmpl", FILES=maxfiles)})
    tlc.require_clean(r, "IdlIncludes")
    recs, seen = [], set()
    for x in tlc_json_lines(r.out):
        key = json.dumps([x["graph"]["inc"], x["graph"]["two"]]) if "graph" in x else None
        if key and key not in seen:
            seen.add(key)
            recs.append(x)
    # independent count: ordered subsets of the earlier files per file; rooted graphs among them
    def ordsub(n):
        out = [[]]
        for size in range(1, n + 1):
            out += [list(p) for p in itertools.permutations(range(1, n + 1), size)]
        return out
    def graphs(n):
        gs = [[[]]]
        for i in range(2, n + 1):
            gs = [g + [s] for g in gs for s in ordsub(i - 1)]
        return gs
    def rooted(g):
        seen2, todo = set(), [len(g)]
        while todo:
            i = todo.pop()
            if i not in seen2:
                seen2.add(i)
                todo += g[i - 1]
        return len(seen2) == len(g)
    states = 2 * sum(len(graphs(n)) for n in range(1, maxfiles + 1))
    want = sorted(json.dumps([g, two]) for n in range(2, maxfiles + 1) for g in graphs(n) if rooted(g) for two in (False, True))
    if r.distinct != states or sorted(seen) != want:
        raise Inconclusive("IdlIncludes emitted %d graphs in %d states, expected %d in %d" % (len(recs), r.distinct, len(want), states))
    recs.sort(key=lambda x: (x["graph"]["files"], json.dumps(x["graph"]["inc"]), x["graph"]["two"]))
    return recs, r


def pick_include_programs(ctx, recs):
    """thorough: every graph (up to three files: both ways of writing the root file; four files: as one module or as two in
    turn, seeded); quick: every graph of three files (chain, fans and triangles in both orders of the include lines) + three
    seeded graphs of four files (a diamond, one file with three include lines, one of the others), the root file written
    as one module or as two in turn (seeded)"""
    rng = random.Random(ctx.seed * 613 + 7)
    graphs = sorted({json.dumps(x["graph"]["inc"]) for x in recs})
    turn = {g: (i + ctx.seed) % 2 == 0 for i, g in enumerate(graphs)}
    if not ctx.quick:
        return [x for x in recs if x["graph"]["files"] <= 3 or x["graph"]["two"] == turn[json.dumps(x["graph"]["inc"])]]
    recs = [x for x in recs if x["graph"]["two"] == turn[json.dumps(x["graph"]["inc"])]]
    out = [x for x in recs if x["graph"]["files"] == 3]
    four = [x for x in recs if x["graph"]["files"] == 4]
    strata = [[x for x in four if x["graph"]["diamond"]],
              [x for x in four if x["graph"]["maxinc"] == 3 and not x["graph"]["diamond"]],
              [x for x in four if x["graph"]["maxinc"] < 3 and not x["graph"]["diamond"]]]
    return out + [rng.choice(st) for st in strata if st]


# =============================================================================================== include graphs (any shape)

INCG_MODS = ["Ga", "Gb", "Gc", "Gd", "Ge", "Gf"]
INCG_MISSING = "Gz"
INCG_LAYOUTS = ["flat", "dot", "sub", "search"]
INCG_SPELL = ["bare", "dot", "abs", "unclean"]
INCG_CONFIGS = {True: [(3, 2, 2), (5, 2, 1)], False: [(4, 2, 2), (5, 2, 1)]}
INCG_T1, INCG_T2 = 10, 30            # seconds: every run; the second run that has to confirm a run that did not end
INCG_CAP = 1 << 16                   # bytes of output kept per run (first and last half); the rest is read and dropped
INCG_MARKERS = (b"goroutine stack exceeds", b"fatal error: stack overflow")


def run_capped(argv, cwd, timeout, cap=INCG_CAP, markers=INCG_MARKERS, env=None):
    """Run a child with a time limit AND an output cap: the output is read as it comes, the first and the last cap/2 bytes
    are kept, everything else is counted, searched for `markers` and dropped (a tool that recurses for ever prints tens of
    thousands of lines a second: nothing unbounded is kept, in memory or on disk).  At the limit the whole process group is
    killed.  Returns dict(rc, timeout, secs, nbytes, head, tail, marks)."""
    import select
    import signal
    t0 = time.time()
    p = subprocess.Popen(argv, cwd=cwd, stdin=subprocess.DEVNULL, stdout=subprocess.PIPE, stderr=subprocess.STDOUT,
                         env=env or env_go(), start_new_session=True, bufsize=0)
    fd = p.stdout.fileno()
    half = cap // 2
    head, tail, carry, n, marks, to = b"", b"", b"", 0, set(), False
    deadline = t0 + timeout
    try:
        while True:
            left = deadline - time.time()
            if left <= 0:
                to = True
                break
            ready, _, _ = select.select([fd], [], [], min(left, 0.5))
            if not ready:
                continue
            chunk = os.read(fd, 1 << 16)
            if not chunk:
                break
            n += len(chunk)
            scan = carry + chunk
            for m in markers:
                if m in scan:
                    marks.add(m.decode())
            carry = scan[-64:]
            if len(head) < half:
                head += chunk[:half - len(head)]
            tail = (tail + chunk)[-half:]
    finally:
        if to or p.poll() is None:
            try:
                os.killpg(p.pid, signal.SIGKILL)
            except OSError:
                pass
        p.stdout.close()
        rc = p.wait()
    return {"rc": -1 if to else rc, "timeout": to, "secs": round(time.time() - t0, 3), "nbytes": n,
            "head": head.decode("utf-8", "replace"), "tail": tail.decode("utf-8", "replace"), "marks": sorted(marks)}


def include_graph_family(ctx, files, rootlines, otherlines, name):
    """IdlIncludeGraphs.tla: TLC enumerates every include graph over <= `files` files (lines to any file of the graph, the file
    itself included, or to a missing file) and emits the closed canonical ones with their class.  The emitted set is compared
    with an independent enumeration.  Returns ([{"incgraph", "class"}], run)."""
    r = tlc.run(ctx, SPEC, "IdlIncludeGraphs", cfg="IncludeGraphs.cfg", workers=ctx.pick(1, 2), timeout=900, name=name, heap="1g",
                extra_files={"IncludeGraphs.cfg": tmpl("IncludeGraphs.cfg.tmpl", FILES=files, ROOTLINES=rootlines, OTHERLINES=otherlines)})
    tlc.require_clean(r, "IdlIncludeGraphs")
    recs = {}
    for x in tlc_json_lines(r.out):
        if "incgraph" in x:
            recs[json.dumps(x["incgraph"])] = x

    def lines(maxl):
        out = [()]
        for k in range(1, maxl + 1):
            out += list(itertools.permutations(range(0, files + 1), k))
        return out

    def canonical(g):
        seen = []

        def visit(i):
            if i == 0 or i in seen:
                return
            seen.append(i)
            for t in g[i - 1]:
                visit(t)
        visit(1)
        return seen == list(range(1, len(g) + 1))

    l1, lo = lines(rootlines), lines(otherlines)
    want, states = set(), 1
    for n in range(1, files + 1):
        states += len(l1) * len(lo) ** (n - 1)
        for g in itertools.product(l1, *([lo] * (n - 1))):
            if all(t <= n for s in g for t in s) and canonical(g):
                want.add(json.dumps([list(s) for s in g]))
    if r.distinct != states or set(recs) != want:
        raise Inconclusive("IdlIncludeGraphs emitted %d graphs in %d states, expected %d in %d" % (len(recs), r.distinct, len(want), states))
    return [recs[k] for k in sorted(recs)], r


def incg_reference_class(g):
    """(only used to order the runs and to cross-check TLC's class in the evidence; the verdict is Oracle_IncludeGraphs')"""
    def reach(i):
        s = {t for t in g[i - 1] if t}
        for _ in g:
            s |= {t for j in s for t in g[j - 1] if t}
        return s
    below = {1} | reach(1)
    return not any(i in reach(i) for i in below) and not any(0 in g[i - 1] for i in below)


def incg_kind(cls):
    if cls.get("cycle", 0) == 1:
        return "circular-include:self-include"
    if cls.get("cycle", 0) > 1:
        return "circular-include:cycle-of-%d-files" % cls["cycle"]
    if cls.get("missing"):
        return "include-of-missing-file"
    return "acyclic-includes" + (":diamond" if cls.get("diamond") else ":triangle" if cls.get("triangle") else "")


def incg_where(cls):
    if cls.get("lang"):
        return ""
    return (", the root file on the cycle" if cls.get("root_on_cycle") else ", below the root file" if cls.get("cycle") else "") + \
           (", met through a later include line of the root only" if cls.get("later_line") else "")


def incg_files(g, layout):
    """{path relative to the test directory: text} and the extra arguments of the tool.  Every file is one module with a struct S
    that has a member of the struct of every file it includes (not of itself: a struct cannot contain itself)."""
    n = len(g)

    def place(i):
        if i == 1 or layout in ("flat", "dot"):
            return ""
        return "sub/" if layout == "sub" else "lib/"

    def line(i, t):
        name = (INCG_MODS[t - 1] if t else INCG_MISSING) + ".tars"
        if layout == "dot":
            return "./" + name
        if layout == "sub" and t:
            if i == 1:
                return place(t) + name
            return ("../" if t == 1 else "") + name
        return name

    files = {}
    for i in range(1, n + 1):
        out = ['#include "%s"' % line(i, t) for t in g[i - 1]]
        mems = ["0 require int v;"]
        for p, t in enumerate(g[i - 1], 1):
            if t != i:
                mod = INCG_MODS[t - 1] if t else INCG_MISSING
                mems.append("%d optional %s f%d;" % (p, ("%s::S" if p % 2 else "vector<%s::S>") % mod, p))
        out.append("module %s\n{\n    struct S\n    {\n        %s\n    };\n};" % (INCG_MODS[i - 1], "\n        ".join(mems)))
        files[place(i) + INCG_MODS[i - 1] + ".tars"] = "\n".join(out) + "\n"
    return files, (["-include=lib;."] if layout == "search" else [])


def incg_run(exe, h, t, timeout):
    d = os.path.join(h, "incg", t["id"])
    shutil.rmtree(d, ignore_errors=True)
    files, extra = incg_files(t["inc"], t["layout"])
    for rel, text in files.items():
        os.makedirs(os.path.dirname(os.path.join(d, rel)), exist_ok=True)
        with open(os.path.join(d, rel), "w") as f:
            f.write(text)
    root = {"bare": "Ga.tars", "dot": "./Ga.tars", "abs": os.path.join(d, "Ga.tars"), "unclean": "../%s/Ga.tars" % t["id"]}[t["spell"]]
    argv = [exe, "-outdir=o", "-module=verifharness/incg/%s" % t["id"]] + extra + [root]
    r = run_capped(argv, d, timeout)
    r["argv"] = ["tars2go"] + argv[1:]
    r["files"] = sorted(glob.glob(os.path.join(d, "o", "*", "*.go"))) if r["rc"] == 0 else []
    r["stack_overflow"] = bool(r["marks"])
    return r


def incg_compile(ctx, h, tests, results):
    """what exit 0 emitted has to compile: one go build over all accepted tests; if that fails, one per test"""
    acc = [t["id"] for t in tests if t["id"] in results and results[t["id"]]["rc"] == 0]
    for t in tests:
        r = results.get(t["id"])
        if r is not None:
            r["compiled"], r["cerr"] = False, ""
            if r["rc"] != 0:
                shutil.rmtree(os.path.join(h, "incg", t["id"], "o"), ignore_errors=True)
    if not acc:
        return 0
    rc, so, se = sh(["go", "build", "./incg/..."], cwd=h, env=env_go(), timeout=900, check=False)
    for tid in acc:
        if rc == 0:
            results[tid]["compiled"] = True
            continue
        if not results[tid]["files"]:
            results[tid]["compiled"] = True            # nothing emitted: vacuously usable
            continue
        rc1, so1, se1 = sh(["go", "build", "./incg/%s/..." % tid], cwd=h, env=env_go(), timeout=600, check=False)
        results[tid]["compiled"] = rc1 == 0
        results[tid]["cerr"] = (so1 + se1)[:800]
    return len(acc)


def judge_incgraphs(ctx, orecs, name):
    """Oracle_IncludeGraphs over the run records.  Returns (bad {idx0: info}, lenient [idx0], nlang, tlc result)."""
    p = os.path.join(ctx.sub(name), "recs.ndjson")
    with open(p, "w") as f:
        for r in orecs:
            f.write(json.dumps(r) + "\n")
    total, b, r = oracle.judge_file(ctx, SPEC, "Oracle_IncludeGraphs", "OracleIncludeGraphs.cfg", p, name, timeout=1200)
    js = [x for x in tlc_json_lines(r.out) if "nlang" in x]
    if not js or total != len(orecs):
        raise Inconclusive("Oracle_IncludeGraphs judged %d of %d records / printed no details" % (total, len(orecs)))
    jb = as_indexed(js[0]["bad"])
    if sorted(int(k) for k in jb) != sorted(b):
        raise Inconclusive("Oracle_IncludeGraphs: details do not match the rejected set")
    return {int(k) - 1: v for k, v in jb.items()}, [int(k) - 1 for k in js[0]["lenient"]], js[0]["nlang"], r


def incg_diag_class(text):
    """class of the tool's last word, without file names and paths (they contain the scratch directory)"""
    lines = [l for l in text.splitlines() if l.strip()]
    plain = [l for l in lines if not re.match(r"^\d{4}/\d\d/\d\d ", l)] or lines[-1:]
    if not plain:
        return "no-diagnostic"
    l = re.sub(r"^\d{4}/\d\d/\d\d \d\d:\d\d:\d\d ", "", plain[-1])
    l = re.sub(r"\S*/\S*|\S+\.tars\S*|\w+::\w+", " ", l)
    l = re.sub(r"[A-Za-z_0-9]*\d[A-Za-z_0-9]*", "", l)
    return re.sub(r"[^A-Za-z]+", "-", l).strip("-").lower()[:60] or "no-diagnostic"


def incg_signature(info, res):
    v, kind = info["v"], incg_kind(info["class"])
    if v == "valid-rejected":
        return "C16:valid-rejected:%s:%s" % (kind, incg_diag_class(res["tail"]))
    if v in ("valid-does-not-compile", "accepted-but-does-not-compile"):
        return "C16:%s:%s:%s" % (v, kind, go_error_class(res["cerr"]))
    return "C16:%s:%s" % (v, kind)


def include_graphs(ctx, exe, h):
    """clauses 1 and 2 over include graphs of any shape: TLC enumerates the graphs, the binary runs on the files of each (time limit
    and output cap, timeouts confirmed by a longer run on their own), TLC judges the observations."""
    fams, rs = [], []
    with ThreadPoolExecutor(max_workers=2) as ex:
        for recs, r in ex.map(lambda c: include_graph_family(ctx, c[0], c[1], c[2], "incgraphs-%d-%d-%d" % c), INCG_CONFIGS[ctx.quick]):
            fams.append(recs)
            rs.append(r)
    graphs = {}
    for recs in fams:
        for x in recs:
            graphs.setdefault(json.dumps(x["incgraph"]), x)
    keys = sorted(graphs, key=lambda k: (len(graphs[k]["incgraph"]), k))
    rng = random.Random(ctx.seed * 977 + 3)
    tests = []
    for gi, k in enumerate(keys):
        x = graphs[k]
        if incg_reference_class(x["incgraph"]) != x["class"]["lang"]:
            raise Inconclusive("IdlIncludeGraphs: class of %s disagrees with the cross-check" % k)
        n = len(x["incgraph"])
        # thorough: the graphs of up to three files under every layout of the files; otherwise layouts and spellings of the root
        # file in turn (seeded)
        lays = INCG_LAYOUTS if (not ctx.quick and n <= 3) else [INCG_LAYOUTS[(gi + ctx.seed) % 4]]
        for lay in lays:
            tests.append({"id": "g%05d" % len(tests), "inc": x["incgraph"], "class": x["class"], "layout": lay,
                          "spell": INCG_SPELL[(gi // 4 + len(tests) + ctx.seed) % 4]})
    # order: one run per kind of graph first, then one per class, then the rest: if whole classes never end, that is known after a
    # small wave (every such run costs the full time limit and, in a tool that recurses, a lot of memory) and the rest is dropped
    def ckey(t):
        c = t["class"]
        return (c["lang"], c["cycle"], c["root_on_cycle"], c["missing"], c["later_line"], c["diamond"], c["triangle"])
    first, second, rest, seenk, seenc = [], [], [], set(), set()
    # (the representative of a kind of cycle: a graph in which nothing but the cycle is wrong, met through the first include line)
    for t in sorted(tests, key=lambda t: (t["class"]["cycle"] > 0 and t["class"]["missing"], t["class"]["later_line"], len(t["inc"]), t["id"])):
        k = incg_kind(t["class"])
        (first if k not in seenk else second if ckey(t) not in seenc else rest).append(t)
        seenk.add(k)
        seenc.add(ckey(t))
    rng.shuffle(rest)
    results, dropped = {}, 0
    t0 = time.time()
    par = max(2, min(6, ctx.ncpu // 2))

    def wave(ts, timeout, workers):
        with ThreadPoolExecutor(max_workers=workers) as ex:
            for t, r in zip(ts, ex.map(lambda t: incg_run(exe, h, t, timeout), ts)):
                results[t["id"]] = r

    def runaway(r):
        return r["timeout"] or r["stack_overflow"]

    # a run that did not end is run again with a longer limit (few at a time): only a second timeout (or the runtime's stack
    # overflow) counts as "does not terminate".  One representative per kind of graph is confirmed; if all of them end the second
    # time it was load: the other timeouts get their second run too and the corpus goes on.  Otherwise the remaining timeouts of the
    # wave are not judged and the rest of the corpus is dropped.
    waves = [(first, 4)] + [(second[i:i + 8], 4) for i in range(0, len(second), 8)] + [(rest[i:i + 400], par) for i in range(0, len(rest), 400)]
    touts, confirm, unconfirmed, first_obs, nrun = [], [], [], {}, 0
    for ts, workers in waves:
        wave(ts, INCG_T1, workers)
        nrun += len(ts)
        new = [t for t in ts if runaway(results[t["id"]])]
        if not new:
            continue
        touts += new
        conf, rem, kinds = [], [], set()
        for t in new:
            k = incg_kind(t["class"])
            if k not in kinds and len(conf) < 8:
                kinds.add(k)
                conf.append(t)
            else:
                rem.append(t)
        first_obs.update({t["id"]: results[t["id"]] for t in conf})
        wave(conf, INCG_T2, 3)
        confirm += conf
        if any(runaway(results[t["id"]]) for t in conf):
            unconfirmed = rem
            break
        wave(rem, INCG_T2, 3)
        first_obs.update({t["id"]: results[t["id"]] for t in rem if t["id"] not in first_obs})
        confirm += rem
    dropped = len(tests) - nrun
    for t in unconfirmed:
        del results[t["id"]]
    tests = [t for t in tests if t["id"] in results]
    ctx.log("include graphs: binary ran on %d graphs in %.1fs (%d runs did not end by themselves, %d run a second time with the longer limit, %d runs dropped)" %
            (len(tests), time.time() - t0, len(touts), len(confirm), dropped + len(unconfirmed)))
    nacc = incg_compile(ctx, h, tests, results)
    orecs = []
    for t in tests:
        r = results[t["id"]]
        orecs.append({"id": t["id"], "inc": t["inc"], "layout": t["layout"], "rc": r["rc"], "runaway": bool(r["timeout"] or r["stack_overflow"]),
                      "diag": bool(r["rc"] != 0 and (r["head"] + r["tail"]).strip()), "compiled": r["compiled"]})
    bad, lenient, nlang, rj = judge_incgraphs(ctx, orecs, "incgraph-oracle")
    for idx, info in sorted(bad.items()):
        t, r = tests[idx], results[tests[idx]["id"]]
        if info["v"] == "malformed-record":
            raise Inconclusive("include-graph record %s is not a graph" % t["inc"])
        files, _ = incg_files(t["inc"], t["layout"])
        fo = first_obs.get(t["id"])
        how = "exit %s after %.1fs, %d bytes of output" % (r["rc"], r["secs"], r["nbytes"])
        if r["timeout"]:
            how = "no exit within %d s in a second run (%d bytes of output by then)%s" % (INCG_T2, r["nbytes"], "; first run: killed after %d s" % INCG_T1 if fo else "")
        elif r["stack_overflow"]:
            how = "recursed until the Go runtime's stack limit: exit %s after %.1fs, %d bytes of output%s" % (
                r["rc"], r["secs"], r["nbytes"], "; first run: killed after %d s" % INCG_T1 if fo else "")
        ctx.violate(incg_signature(info, r),
                    "%s: include graph %s (%s%s; files laid out '%s', root given as '%s') -> %s %s" % (
                        info["v"], json.dumps(t["inc"]), incg_kind(info["class"]), incg_where(info["class"]), t["layout"], t["spell"], how,
                        (r["head"][:300] if orecs[idx]["runaway"] else (r["cerr"] or r["tail"])[-200:]).replace("\n", " | ")),
                    {"graph": t["inc"], "class": info["class"], "layout": t["layout"], "files": files, "command": r["argv"],
                     "exit": r["rc"], "seconds": r["secs"], "output_bytes": r["nbytes"], "output_head": r["head"][:1500], "output_tail": r["tail"][-1500:],
                     "compile_error": r["cerr"], "first_run": {k: fo[k] for k in ("rc", "timeout", "secs", "nbytes")} if fo else None})
    # binding self-test: falsified observations must be rejected, exactly those
    good = [i for i in range(len(orecs)) if i not in bad and i not in lenient]
    acc = [i for i in good if orecs[i]["rc"] == 0][:2]
    cyc = [i for i in good if orecs[i]["rc"] != 0 and tests[i]["class"]["cycle"] > 0][:2]
    mis = [i for i in good if orecs[i]["rc"] != 0 and tests[i]["class"]["cycle"] == 0][:1]
    st = {"skipped": "violations are reported"}
    if len(acc) == 2 and len(cyc) == 2 and len(mis) == 1:
        sample = [json.loads(json.dumps(orecs[i])) for i in acc + cyc + mis] + [json.loads(json.dumps(orecs[i])) for i in acc[:1] + cyc[:1]]
        sample[0]["rc"], sample[0]["diag"] = 1, True        # a diamond / chain reported as rejected
        sample[1]["compiled"] = False                       # ... as emitting code that does not compile
        sample[2]["runaway"] = True                         # a circular include that never ends
        sample[3]["rc"], sample[3]["diag"], sample[3]["compiled"] = 0, False, False    # a circular include accepted with unusable output
        sample[4]["diag"] = False                           # a missing file: non-zero exit without a word
        sb, _, _, _ = judge_incgraphs(ctx, sample, "incgraph-oracle-selftest")
        if sorted(sb) != [0, 1, 2, 3, 4] or [sb[k]["v"] for k in range(5)] != ["valid-rejected", "valid-does-not-compile", "hang", "accepted-but-does-not-compile", "no-diagnostic"]:
            raise Inconclusive("include-graph oracle self-test failed: rejected %s" % {k: v["v"] for k, v in sb.items()})
        st = {"records": len(sample), "corrupted": 5, "rejected_exactly_those": True}
    elif not ctx.violations:
        raise Inconclusive("include-graph self-test: not enough accepted / rejected records")
    by_kind, diags = {}, {}
    for i, t in enumerate(tests):
        k = incg_kind(t["class"])
        e = by_kind.setdefault(k, {"runs": 0, "exit_0": 0, "runaway": 0, "max_seconds": 0.0, "max_output_bytes": 0})
        r = results[t["id"]]
        e["runs"] += 1
        e["exit_0"] += 1 if r["rc"] == 0 else 0
        e["runaway"] += 1 if orecs[i]["runaway"] else 0
        e["max_seconds"] = max(e["max_seconds"], r["secs"])
        e["max_output_bytes"] = max(e["max_output_bytes"], r["nbytes"])
        if r["rc"] not in (0, -1):
            dc = incg_diag_class(r["tail"])
            diags[dc] = diags.get(dc, 0) + 1
    ex = next((t for t in tests if t["class"]["cycle"] == 2 and t["class"]["later_line"]), tests[-1])
    ev = {
        "what": "IdlIncludeGraphs.tla: every include graph (a line may name any file of the graph, the file itself included, or a file that does not "
                "exist; order of the lines part of the graph) up to renumbering, all files reachable from the root; in the language = no cycle and "
                "nothing missing below the root (diamonds, triangles: must be accepted and compile); anything else: must end with a diagnostic",
        "families": [{"max_files": c[0], "root_lines": c[1], "other_lines": c[2], "states": r.distinct, "graphs": len(f)}
                     for c, r, f in zip(INCG_CONFIGS[ctx.quick], rs, fams)],
        "graphs": len(keys), "runs": len(tests), "in_language": nlang, "accepted_and_compiled": nacc,
        "layouts": {l: sum(1 for t in tests if t["layout"] == l) for l in INCG_LAYOUTS},
        "root_spellings": {s: sum(1 for t in tests if t["spell"] == s) for s in INCG_SPELL},
        "by_class": by_kind,
        "cycles_below_the_root": sum(1 for t in tests if t["class"]["cycle"] and not t["class"]["root_on_cycle"]),
        "wrong_only_behind_a_later_include_line": sum(1 for t in tests if t["class"]["later_line"]),
        "diamonds_in_language": sum(1 for t in tests if t["class"]["lang"] and t["class"]["diamond"]),
        "diagnostics_seen": dict(sorted(diags.items(), key=lambda x: -x[1])[:8]),
        "lenient_acceptances": len(lenient),
        "time_limit_s": INCG_T1, "confirming_time_limit_s": INCG_T2, "output_cap_bytes": INCG_CAP,
        "runs_that_did_not_end_by_themselves": len(touts), "second_runs_with_the_longer_limit": len(confirm),
        "runs_dropped_after_timeouts": dropped + len(unconfirmed),
        "rejected_by_oracle": len(bad), "oracle_states": max(rj.distinct, 1), "oracle_transitions": max(rj.generated, 1),
        "gen_states": sum(r.distinct for r in rs), "gen_transitions": sum(r.generated for r in rs),
        "selftest_falsified_observations": st,
        "sample": {"graph": ex["inc"], "class": ex["class"], "layout": ex["layout"], "files": incg_files(ex["inc"], ex["layout"])[0],
                   "command": results[ex["id"]]["argv"], "exit": results[ex["id"]]["rc"], "output_tail": results[ex["id"]]["tail"][-300:]},
    }
    shutil.rmtree(os.path.join(h, "incg"), ignore_errors=True)
    return ev


def tool_switches(exe):
    """the boolean switches of the binary under test, read from its usage text: {name: default}"""
    p = subprocess.run([exe], stdout=subprocess.PIPE, stderr=subprocess.STDOUT, timeout=20, env=env_go())
    lines = p.stdout.decode("utf-8", "replace").splitlines()
    out = {}
    for i, l in enumerate(lines):
        m = re.match(r"^  -(\S+)(?: (\S+))?(?:\t(.*))?$", l)
        if not m or m.group(2):
            continue
        usage = m.group(3) if m.group(3) is not None else (lines[i + 1] if i + 1 < len(lines) else "")
        out[m.group(1)] = "(default true)" in usage
    return out


def switch_family(ctx, exe):
    """IdlSwitches.tla: every total assignment of the switches that change the emitted code (one state each).
    Returns (defaults, [assignment], run, evidence)."""
    r = tlc.run(ctx, SPEC, "IdlSwitches", cfg="Switches.cfg", workers=1, timeout=300, name="switches", heap="512m")
    tlc.require_clean(r, "IdlSwitches")
    recs = tlc_json_lines(r.out)
    dflt = [x["default"] for x in recs if "default" in x]
    combos, seen = [], set()
    for x in recs:
        if "sw" in x and json.dumps(x["sw"], sort_keys=True) not in seen:
            seen.add(json.dumps(x["sw"], sort_keys=True))
            combos.append(x["sw"])
    if not dflt or len(combos) != 2 ** len(dflt[0]) or r.distinct != len(combos):
        raise Inconclusive("IdlSwitches emitted %d assignments in %d states" % (len(combos), r.distinct))
    tool = tool_switches(exe)
    ev = {"switches": sorted(dflt[0]), "assignments": len(combos), "boolean_switches_of_the_tool": tool,
          "tool_switches_not_in_the_family": sorted(set(tool) - set(dflt[0])),
          "family_switches_the_tool_does_not_list": sorted(set(dflt[0]) - set(tool) - {"include"}),
          "defaults_differ": sorted(k for k in dflt[0] if k in tool and tool[k] != dflt[0][k])}
    return dflt[0], combos, r, ev


def switch_flags(sw, default, incdir="<directory-of-the-included-files>"):
    """command-line form of an assignment: the switches that differ from the tool's defaults (`include`: the search path)"""
    return [("-include=%s" % incdir) if k == "include" else "-%s=%s" % (k, "true" if sw[k] else "false") for k in sorted(sw) if sw[k] != default[k]]


def order_switches(combos, first, seed):
    """all assignments, ordered so that a short prefix already holds every combination of values of any three switches
    (greedy, seeded); `first` (the defaults, the framework Makefile's switches) lead"""
    names = sorted(combos[0])
    trip = lambda c: {(a, c[a], b, c[b], d, c[d]) for a, b, d in itertools.combinations(names, 3)}
    rng = random.Random(seed * 977 + 3)
    pool = [c for c in combos if c not in first]
    rng.shuffle(pool)
    out, covered = list(first), set()
    for c in out:
        covered |= trip(c)
    while pool:
        best = max(pool, key=lambda c: len(trip(c) - covered))
        pool.remove(best)
        out.append(best)
        covered |= trip(best)
    return out


def switch_coverage(used):
    names = sorted(used[0])
    res = {}
    for t in (2, 3):
        have = {tuple((a, c[a]) for a in sub) for c in used for sub in itertools.combinations(names, t)}
        total = len(list(itertools.combinations(names, t))) * 2 ** t
        res["%d_way_value_combinations_covered" % t] = "%d of %d" % (len(have), total)
    res["distinct_assignments"] = len({json.dumps(c, sort_keys=True) for c in used})
    return res


INCDIRS = ["%s", "%s/", "nowhere%d;%s", "%s/;nowhere%d", "nowhere%d:%s"]


def write_program(d, pt, searchpath=False):
    """the files of a program in directory d; searchpath: only the root file, the files it includes (directly or not) in
    d/lib<k>.  Returns (path of each file, value for -include)."""
    os.makedirs(d, exist_ok=True)
    lib = os.path.join(d, "lib%d" % pt.k) if searchpath else d
    os.makedirs(lib, exist_ok=True)
    paths = {}
    for mod in pt.files:
        paths[mod] = os.path.join(d if mod == pt.fileof[pt.root] else lib, pt.fname[mod])
        with open(paths[mod], "w", newline="") as f:
            f.write(pt.file_text(mod))
    with open(os.path.join(d, "P%dx.tars" % pt.k), "w") as f:
        f.write(pt.extras_text())
    return paths, lib


KNOWN_CODEC = None


def known_codec_open():
    global KNOWN_CODEC
    if KNOWN_CODEC is None:
        KNOWN_CODEC = {k["signature"] for k in load_known() if k.get("property") in ("C04", "C05", "C06") and k.get("status") == "open"}
    return KNOWN_CODEC


def codec_signatures(why, r, schema):
    """The signatures C04 / C05 / C06 would give this rejected record (to recognise the recorded generator findings)."""
    sigs = []
    if why == "panic":
        pc = codecfam.panic_class(r["panic"])
        site = r["panic"].rsplit("@", 1)[-1] if "@" in r["panic"] else "generated-decoder"
        sigs.append("C06:panic:%s:%s:%s" % (r["cls"], r.get("note", ""), pc))
        sigs.append("C05:%s:%s:%s" % ("fatal" if r["panic"].startswith("fatal") else "panic", pc, site))
        sigs.append("C05:fatal:%s:%s" % (pc, site))
    elif why == "alloc":
        sigs.append("C05:fatal:out-of-memory:generated-decoder")
    else:
        sigs.append("C06:%s:%s:%s" % (why, r["cls"], r.get("note", "")))
    if r["k"] == "decr" and why == "wrong-value" and r.get("fok") and r["ok"] and stale_only(schema, r["s"], r["dec"], r["fdec"]):
        sigs.append("C04:reuse-stale:absent-optional-without-declared-default")
    return sigs


def stale_only(schema, sname, a, e):
    """a: decoded into a reused struct, e: the same bytes decoded into a fresh one.  True when every difference lies in an
    optional member without declared default that is absent from the input (the fresh decode shows its default)."""
    S = schema["structs"][sname]
    if not isinstance(a, list) or not isinstance(e, list) or len(a) != len(S) or len(e) != len(S):
        return False

    def walk(ty, x, y):
        if x == y:
            return True
        if ty["k"] == "struct":
            return stale_only(schema, ty["name"], x, y)
        if ty["k"] in ("vec", "arr") and isinstance(x, list) and isinstance(y, list) and len(x) == len(y):
            return all(walk(ty["el"], xi, yi) for xi, yi in zip(x, y))
        return False

    for m, x, y in zip(S, a, e):
        if x == y:
            continue
        if not m["req"] and not m["hasdef"] and y == m["def"]:
            continue
        if not walk(m["ty"], x, y):
            return False
    return True


# ----------------------------------------------------------------------------------- strict walk of a Tars field sequence

class _Malformed(Exception):
    pass


def _head(b, p):
    if p >= len(b):
        raise _Malformed()
    ty, tag = b[p] & 15, b[p] >> 4
    if tag < 15:
        return ty, tag, p + 1
    if p + 1 >= len(b):
        raise _Malformed()
    return ty, b[p + 1], p + 2


def _count(b, p):
    ty, tag, p = _head(b, p)
    w = {12: 0, 0: 1, 1: 2, 2: 4}.get(ty)
    if tag != 0 or w is None or p + w > len(b):
        raise _Malformed()
    n = int.from_bytes(bytes(b[p:p + w]), "big", signed=True) if w else 0
    if n < 0:
        raise _Malformed()
    return n, p + w


def _skip(b, p, ty, depth=0):
    """end of the field body of wire type ty starting at p, as strict as the reference (spec/TarsSchema SkipField)"""
    if depth > 200:
        raise _Malformed()
    fixed = {0: 1, 1: 2, 2: 4, 3: 8, 4: 4, 5: 8, 12: 0}
    if ty in fixed:
        q = p + fixed[ty]
    elif ty == 6:
        if p >= len(b):
            raise _Malformed()
        q = p + 1 + b[p]
    elif ty == 7:
        if p + 4 > len(b):
            raise _Malformed()
        q = p + 4 + int.from_bytes(bytes(b[p:p + 4]), "big")
    elif ty in (8, 9):
        n, q = _count(b, p)
        for _ in range(n * (2 if ty == 8 else 1)):
            t2, _, q = _head(b, q)
            q = _skip(b, q, t2, depth + 1)
    elif ty == 13:
        t2, _, q = _head(b, p)
        if t2 != 0:
            raise _Malformed()
        n, q = _count(b, q)
        q += n
    elif ty == 10:
        q = p
        while True:
            t2, _, q = _head(b, q)
            if t2 == 11:
                break
            q = _skip(b, q, t2, depth + 1)
    else:
        raise _Malformed()
    if q > len(b):
        raise _Malformed()
    return q


def first_malformed_toplevel(b):
    """tag of the first top-level field of a struct body that is not a well-formed Tars field (None: all are, or the walk
    cannot tell)"""
    p = 0
    while p < len(b):
        try:
            ty, tag, q = _head(b, p)
        except _Malformed:
            return None
        if ty == 11:
            return None
        try:
            p = _skip(b, q, ty)
        except _Malformed:
            return tag
    return None


# ----------------------------------------------------------------------------------- generated interfaces: recording servants

GO_BUILTIN = set("bool int8 uint8 int16 uint16 int32 uint32 int64 uint64 float32 float64 string map error byte int uint interface struct".split())
IFACE_RE = re.compile(r"^type (\w+?)Servant(WithContext)? interface \{\n(.*?)^\}", re.M | re.S)
METHOD_RE = re.compile(r"^\s*(\w+)\((.*?)\)\s*(?:\((.*)\)|(\S.*))?\s*$")


def split_top(s):
    """split a Go parameter list on the commas outside brackets"""
    out, depth, cur = [], 0, ""
    for ch in s:
        if ch in "([{":
            depth += 1
        elif ch in ")]}":
            depth -= 1
        if ch == "," and depth == 0:
            out.append(cur)
            cur = ""
        else:
            cur += ch
    if cur.strip():
        out.append(cur)
    return [x.strip() for x in out]


def qualify(ty, pkg):
    """a type as written inside package pkg -> as written outside it"""
    def rep(m):
        w = m.group(0)
        st, en = m.span()
        if w in GO_BUILTIN or (st > 0 and ty[st - 1] == ".") or ty[en:en + 1] == ".":
            return w
        return pkg + "." + w
    return re.sub(r"[A-Za-z_]\w*", rep, ty)


def generated_interfaces(pkgdir):
    """The servant interfaces tars2go emitted into one package, read from the Go text:
    {(GoInterfaceName, with_context): [(method, [param types], [result types])]} with types qualified for use outside."""
    out = {}
    for path in sorted(glob.glob(os.path.join(pkgdir, "*.go"))):
        text = open(path).read()
        m = re.search(r"^package (\w+)", text, re.M)
        if not m:
            continue
        pkg = m.group(1)
        for im in IFACE_RE.finditer(text):
            meths = []
            for line in im.group(3).splitlines():
                if not line.strip() or line.strip().startswith("//"):
                    continue
                mm = METHOD_RE.match(line)
                if not mm:
                    raise Inconclusive("cannot read a method of the generated interface %s%s: %r" % (im.group(1), im.group(2) or "", line))
                ptypes = []
                for q in split_top(mm.group(2)):
                    parts = q.split(None, 1)
                    if len(parts) != 2:
                        raise Inconclusive("cannot read a parameter of the generated interface %s: %r" % (im.group(1), line))
                    ptypes.append(qualify(parts[1], pkg))
                res = mm.group(3) if mm.group(3) is not None else (mm.group(4) or "")
                rtypes = [qualify(q.split(None, 1)[-1], pkg) for q in split_top(res)]
                meths.append((mm.group(1), ptypes, rtypes))
            out[(im.group(1), bool(im.group(2)))] = meths
    return out


def servant_source(mod, ifaces, paths):
    """Go text of the recording servants of one module (package zzs<mod>, outside the generated package): one type per
    generated servant interface, its methods copied from that interface, every method handing what it receives to rec.Handler.
    paths: {qualifier: package directory relative to the harness} (scan_gen)."""
    body, used = [], {"context": False}
    for (name, withctx), meths in sorted(ifaces.items()):
        tn = "Impl%s_%s" % ("Ctx" if withctx else "Plain", name)
        body += ["type %s struct{ h rec.Handler }" % tn, "",
                 "func New%s(h rec.Handler) interface{} { return &%s{h} }" % (tn, tn), "",
                 "var _ %s.%sServant%s = (*%s)(nil)" % (mod, name, "WithContext" if withctx else "", tn), ""]
        for meth, ptypes, rtypes in meths:
            ps, names = [], []
            for i, t in enumerate(ptypes):
                if i == 0 and withctx and t == "context.Context":
                    ps.append("zzc context.Context")
                    continue
                ps.append("zzp%d %s" % (i, t))
                names.append("zzp%d" % i)
            if not rtypes or rtypes[-1] != "error" or len(rtypes) > 2:
                raise Inconclusive("generated servant method %s.%s has results %s" % (name, meth, rtypes))
            if len(rtypes) == 2:
                body += ["func (zz *%s) %s(%s) (zzr %s, zze error) {" % (tn, meth, ", ".join(ps), rtypes[0]),
                         "\tzze = zz.h.Serve(%s, &zzr, []interface{}{%s})" % (json.dumps(meth), ", ".join(names)), "\treturn", "}", ""]
            else:
                body += ["func (zz *%s) %s(%s) (zze error) {" % (tn, meth, ", ".join(ps)),
                         "\tzze = zz.h.Serve(%s, nil, []interface{}{%s})" % (json.dumps(meth), ", ".join(names)), "\treturn", "}", ""]
    text = "\n".join(body)
    pkgs = {mod}
    for meths in ifaces.values():
        for _, ptypes, rtypes in meths:
            for t in ptypes + rtypes:
                pkgs |= set(re.findall(r"\b([A-Za-z_]\w*)\.[A-Za-z_]", t))
    pkgs = sorted(pkgs - {"context"})
    head = ["// written by checks/c16.py: recording servants for the interfaces tars2go generated (not generator output)",
            "package zzs%s" % re.sub(r"\W", "", mod), "", "import ("]
    if "context.Context" in text:
        head.append('\t"context"')
    head.append('\t"verifharness/cmd/ifdrive/rec"')
    for q in pkgs:
        if q not in paths:
            raise Inconclusive("generated servant interface of %s refers to package %s, which no emitted file declares or imports" % (mod, q))
        head.append('\t%s "verifharness/%s"' % (q, paths[q]))
    head += [")", ""]
    return "\n".join(head) + text


def pos_class(idl, i):
    """(direction, what stands before it) of parameter i, as Oracle_Call's Before"""
    before = "first" if i == 0 else ("after-out" if any(a["out"] for a in idl[:i]) else "after-in")
    return ("out-" if idl[i]["out"] else "in-") + before


def type_class(shape):
    if shape.count("<") >= 2:
        return "nested-container"
    return shape.split("<")[0]


def fn_line(idl_text, fname):
    for l in idl_text.splitlines():
        if re.search(r"\b%s\s*\(" % re.escape(fname), l):
            return l.strip()
    return ""


class Batch:
    """One batch of programs through generator, compiler, driver and oracles."""

    def __init__(self, ctx, exe, bi, progs, switches, swdefault, seed):
        """switches[i]: the assignment of the tool's switches (IdlSwitches.tla) program i is generated under"""
        self.ctx, self.exe, self.bi, self.swdefault, self.seed = ctx, exe, bi, swdefault, seed
        b = self.b = copy.copy(ctx)
        b.work = ctx.sub("batch%d" % bi)
        os.makedirs(os.path.join(b.work, "bin"), exist_ok=True)
        shutil.copy(exe, os.path.join(b.work, "bin", "tars2go"))
        self.h = gobuild.stage_harness(b)
        self.progs = {bi * 1000 + i: idlgen.assign_uids(p) for i, p in enumerate(progs)}
        self.sw = {bi * 1000 + i: dict(switches[i]) for i in range(len(progs))}
        self.sw_run = [dict(x) for x in switches]
        self.ev = {"programs": len(progs), "programs_with_include_graph": sum(1 for p in progs if p.get("mods")),
                   "switch_assignments": len({json.dumps(x, sort_keys=True) for x in switches}),
                   "elements_removed_as_failing": 0, "programs_dropped": 0, "programs_reset_to_default_switches": 0}
        self.nscratch = 0
        self.moddir, self.quals = {}, {}

    def flags(self, k):
        return switch_flags(self.sw[k], self.swdefault)

    def incdir(self, k, lib):
        """value of -include for program k: the directory, with or without a trailing slash, before or after one that does
        not exist, separated the ways the tool documents"""
        rel = os.path.relpath(lib, self.h)
        return INCDIRS[(k + self.seed) % len(INCDIRS)].replace("%s", rel).replace("%d", str(k))

    def text(self, k, prog=None):
        return idlgen.ProgramText(prog if prog is not None else self.progs[k], k, self.seed)

    def scratch(self, name):
        self.nscratch += 1
        return "%s/%s_%d" % (name, name, self.nscratch)

    def generate_alone(self, items, sub):
        """items: [(label, k, prog[, switches])]: each program through the binary on its own (root file + extras file), under
        its own switches unless others are given.  Returns {label: (rc, out, secs, timed_out, outdir)}"""
        h = self.h
        jobs = []
        for it in items:
            label, k, prog = it[:3]
            d = os.path.join(h, self.scratch(sub + "-idl"))
            pt = self.text(k, prog)
            sw = it[3] if len(it) > 3 else self.sw[k]
            paths, lib = write_program(d, pt, sw["include"])
            od = self.scratch(sub)
            jobs.append((label, k, pt, d, od, switch_flags(sw, self.swdefault, self.incdir(k, lib)), paths))

        def one(j):
            label, k, pt, d, od, flags, paths = j
            rc, out, secs, to = run_tool(self.exe, ["-outdir=" + od + "/", "-module=verifharness"] + flags +
                                         [os.path.relpath(paths[pt.fileof[pt.root]], h), os.path.relpath(os.path.join(d, "P%dx.tars" % k), h)], h, 10)
            return label, (rc, out, secs, to, od)

        with ThreadPoolExecutor(max_workers=8) as ex:
            return dict(ex.map(one, jobs))

    def compile_fails(self, r, strict):
        """r: results of generate_alone into isolate/.  {label: class} of those whose output does not compile (not strict: or
        that the tool rejected)."""
        out = {}
        for lab, x in r.items():
            if x[0] != 0 or x[3]:
                if strict:
                    raise Inconclusive("an element of an accepted program is rejected on its own: %s" % x[1][-300:])
                out[lab] = "hang" if x[3] else "rejected:" + diag_class(x[1])
        bad2 = go_build_all(self.h, "isolate")
        for lab, x in r.items():
            for pkg, e in bad2.items():
                if pkg.startswith(x[4] + os.sep):
                    out.setdefault(lab, go_error_class(e))
        return out

    def switch_dependent(self, kind, failing, fails, detail_of):
        """failing: {k: class} under the programs' own switches.  A program that passes under the tool's default switches
        fails because of its switches: for one such program per class each switch is flipped on its own; the switches whose
        flip makes the failure disappear name the combination (value shown where it is not the default).  Every program of
        the class whose switches agree with that combination is filed under it and continues under the default switches.
        Returns the programs dealt with."""
        cand = {k: c for k, c in failing.items() if self.flags(k)}
        if not cand:
            return set()
        res = self.generate_alone([(k, k, None, self.swdefault) for k in sorted(cand)], "isolate")
        still = fails(res)
        shutil.rmtree(os.path.join(self.h, "isolate"), ignore_errors=True)
        dep = {k: c for k, c in cand.items() if k not in still}
        done = set()
        for cls in sorted(set(dep.values())):
            group = sorted((k for k, c in dep.items() if c == cls), key=lambda k: (len(self.text(k).module_text(self.text(k).root)), k))
            for _ in range(4):
                group = [k for k in group if k not in done]
                if not group:
                    break
                k = group[0]
                flips = {}
                for name in sorted(self.sw[k]):
                    v = dict(self.sw[k])
                    v[name] = not v[name]
                    flips[name] = v
                res = self.generate_alone([((k, name), k, None, v) for name, v in sorted(flips.items())], "isolate")
                bad = fails(res)
                shutil.rmtree(os.path.join(self.h, "isolate"), ignore_errors=True)
                needed = {name: self.sw[k][name] for name in flips if (k, name) not in bad}
                shown = switch_flags({n: needed.get(n, self.swdefault[n]) for n in self.swdefault}, self.swdefault)
                combo = ",".join(shown) if shown else "unminimised:" + ",".join(self.flags(k))
                members = [q for q in group if all(self.sw[q][n] == v for n, v in needed.items())] if needed else [k]
                pt = self.text(k)
                self.ctx.violate("C16:%s:%s:switches:%s" % (kind, cls.split(":", 1)[1] if cls.startswith("rejected:") else cls, combo),
                                 "%s (under the switches %s; with the default switches the same program passes; flipping any one of {%s} "
                                 "makes the failure disappear; %d program(s) of the batch fail this way)"
                                 % (detail_of(k), " ".join(self.flags(k)), ", ".join("-%s=%s" % (n, str(v).lower()) for n, v in sorted(needed.items())), len(members)),
                                 {"flags": self.flags(k), "needed": needed, "files": {pt.fname[m]: pt.file_text(m) for m in pt.files},
                                  "other_programs_switches": [self.flags(q) for q in members if q != k][:8]})
                for q in members:
                    done.add(q)
                    self.sw[q] = dict(self.swdefault)
                    self.ev["programs_reset_to_default_switches"] += 1
        return done

    def isolate(self, failing, fails):
        """failing: {k: failure class}.  Every removable element of each failing program is tried on its own (one generator
        run each; `fails(results) -> {label: class}` decides, possibly with one go build over all of them).  Returns {k: [uid]}."""
        items = []
        for k in failing:
            items.append(((k, 0), k, idlgen.only(self.progs[k], 0)))      # the bare skeleton: is the failure about an element at all?
            for uid in idlgen.element_uids(self.progs[k]):
                items.append(((k, uid), k, idlgen.only(self.progs[k], uid)))
        res = self.generate_alone(items, "isolate")
        cls = fails(res)
        out = {k: [] for k in failing}
        # an element is a culprit when the program reduced to it fails (with whatever message: alone, the same defect may
        # surface as a different first error); if the bare skeleton fails too, the failure is not about an element
        skeleton = {k for (k, uid), c in cls.items() if uid == 0}
        for (k, uid), c in sorted(cls.items()):
            if uid != 0 and k not in skeleton:
                out[k].append((uid, c))
        for k in skeleton:
            out[k] = None
        return out

    def report(self, kind, k, cls, culprits, detail, extra):
        """kind: valid-rejected | valid-does-not-compile | hang; cls: failure class of the whole program; culprits: [(uid, class
        of the program reduced to that element)], [] (no single element reproduces it) or None (the bare skeleton fails)."""
        prog = self.progs[k]
        pt = self.text(k)
        for m in pt.mods:
            pt.module_text(m)
        strip = lambda c: c.split(":", 1)[1] if c.startswith("rejected:") else c
        if culprits:
            todo = [(strip(c), pt.feature.get(u, "?"), idlgen.only(prog, u)) for u, c in culprits]
        elif culprits is None:
            todo = [(strip(cls), "any-program", idlgen.only(prog, 0))]
        else:
            todo = [(strip(cls), "whole-program", prog)]
        for c, feat, small in todo:
            spt = self.text(k, small)
            self.ctx.violate("C16:%s:%s:%s" % (kind, c, feat), detail,
                             dict(extra, minimal_files={spt.fname[m]: spt.file_text(m) for m in spt.files}, flags=self.flags(k)))
        if culprits:
            self.progs[k] = idlgen.without(prog, {u for u, _ in culprits})
            self.ev["elements_removed_as_failing"] += len(culprits)
        else:
            del self.progs[k]
            self.ev["programs_dropped"] += 1

    def stage_gen(self, rnd):
        """Every program of the batch through the binary under its own switches into gen/ (odd program numbers: the root file
        only, the others come in through its include lines; even: every file named on the command line), the schema of
        all of them from the independent extractor, where each module's package went (read from the emitted files' own
        headers and import lines: -module-cycle / -module-upper move and rename packages), and codecdrive's registry."""
        b, h = self.b, self.h
        shutil.rmtree(os.path.join(h, "gen"), ignore_errors=True)
        idl = os.path.join(h, "pidl%d" % rnd)
        jobs, files = [], []
        for k in sorted(self.progs):
            pt = self.text(k)
            paths, lib = write_program(idl, pt, self.sw[k]["include"])
            flat, _ = write_program(idl + "flat", pt) if self.sw[k]["include"] else (paths, lib)      # (the extractor follows include lines itself)
            mods = [pt.fileof[pt.root]] if (k % 2) else pt.files
            files += [flat[m] for m in mods]
            jobs.append((k, ["-outdir=gen/", "-module=verifharness"] + switch_flags(self.sw[k], self.swdefault, self.incdir(k, lib))
                         + [os.path.relpath(paths[m], h) for m in mods] + [os.path.relpath(os.path.join(idl, "P%dx.tars" % k), h)]))
        if not files:
            return None
        t0 = time.time()
        with ThreadPoolExecutor(max_workers=6) as ex:
            res = list(ex.map(lambda j: (j[0], run_tool(self.exe, j[1], h, 30)), jobs))
        self.ev["batch_generate_s"] = round(time.time() - t0, 2)
        slowest = max(r[2] for _, r in res)
        if slowest > 10:
            self.ctx.violate("C16:slow:batch", "tars2go needed %.1f s for one valid program of the batch" % slowest, {})
        for k, (rc, out, secs, to) in res:
            if rc != 0 or to:
                raise Inconclusive("tars2go failed on program %d in the batch run after passing it alone:\n%s" % (k, out[-1500:]))
        schema = idl2schema.load(files)
        schema = {"structs": schema["structs"], "enums": schema["enums"], "interfaces": schema["interfaces"], "order": schema["order"]}
        src, self.quals = scan_gen(h, "gen")
        self.moddir = {}
        for k in sorted(self.progs):
            pt = self.text(k)
            for m in pt.mods:
                # (-module-upper upper-cases the first letter of the package name; several modules of one file: several packages)
                for d in src.get(pt.fname[m], []):
                    if os.path.basename(d) in (pt.modname[m], pt.modname[m][:1].upper() + pt.modname[m][1:]):
                        self.moddir[pt.modname[m]] = d
        lines = ["// generated by checks/c16.py", "package main", "", "import ("]
        mods = sorted({q.split(".")[0] for q in schema["order"]})
        for mod in mods:
            if mod not in self.moddir:
                raise Inconclusive("no emitted package found for module %s (header line `This file was generated from` missing?)" % mod)
            lines.append('\t%s "verifharness/%s"' % (mod, self.moddir[mod]))
        lines += [")", "", "func init() {"]
        for q in schema["order"]:
            mod, name = q.split(".")
            lines.append('\treg("%s", func() tarsStruct { return new(%s.%s) })' % (q, mod, idl2schema.go_name(name)))
        lines += ["}", ""]
        open(os.path.join(h, "cmd", "codecdrive", "reg_gen.go"), "w").write("\n".join(lines))
        return schema

    def run(self):
        ctx, b, h, ev = self.ctx, self.b, self.h, self.ev
        schema = None
        ROUNDS = 8
        for rnd in range(ROUNDS):
            # ---- the generator terminates with exit 0 on every program of the batch
            res = self.generate_alone([(k, k, None) for k in sorted(self.progs)], "alone")
            failing = {}
            for k, (rc, out, secs, to, od) in res.items():
                if to:
                    failing[k] = "hang"
                elif rc != 0:
                    failing[k] = "rejected:" + diag_class(out)
            if failing:
                def fails(r):
                    return {lab: ("hang" if x[3] else "rejected:" + diag_class(x[1])) for lab, x in r.items() if x[3] or x[0] != 0}
                done = self.switch_dependent("valid-rejected", {k: c for k, c in failing.items() if c != "hang"}, fails,
                                             lambda k: "tars2go rejects a valid program: %s" % (res[k][1].strip().splitlines() or [""])[-1][:200])
                done |= self.switch_dependent("hang", {k: "valid-program" for k, c in failing.items() if c == "hang"}, fails,
                                              lambda k: "tars2go does not terminate within 10 s on a valid program")
                failing = {k: c for k, c in failing.items() if k not in done}
                culprits = self.isolate(failing, fails) if failing else {}
                for k, cls in sorted(failing.items()):
                    out = res[k][1]
                    if cls == "hang":
                        self.report("hang", k, "valid-program", culprits[k] and [(u, "valid-program") for u, _ in culprits[k]], "tars2go does not terminate within 10 s on a valid program", {})
                    else:
                        self.report("valid-rejected", k, cls.split(":", 1)[1], culprits[k],
                                    "tars2go rejects a valid program: %s" % (out.strip().splitlines() or [""])[-1][:200], {"output": out[-500:]})
                shutil.rmtree(os.path.join(h, "isolate"), ignore_errors=True)
                continue
            # ---- the whole batch into one tree and one go build
            schema = self.stage_gen(rnd)
            if schema is None:
                break
            t0 = time.time()
            ok, badpk = go_build(h, "./gen/...")
            ev["go_build_s"] = round(time.time() - t0, 2)
            if ok:
                break
            failing, errs = {}, {}
            for pkg, err in badpk.items():
                m = re.search(r"(\d+)$", os.path.basename(pkg))
                k = int(m.group(1)) if m else None
                if k not in self.progs:
                    raise Inconclusive("cannot attribute a compile error to a program: %s\n%s" % (pkg, err))
                failing.setdefault(k, go_error_class(err))
                errs[k] = errs.get(k, "") + err
            done = self.switch_dependent("valid-does-not-compile", failing, lambda r: self.compile_fails(r, False),
                                         lambda k: "the Go code tars2go emits for a valid program does not compile: %s" % errs[k].splitlines()[0][:240])
            failing = {k: c for k, c in failing.items() if k not in done}
            culprits = self.isolate(failing, lambda r: self.compile_fails(r, True)) if failing else {}
            for k, cls in sorted(failing.items()):
                self.report("valid-does-not-compile", k, cls, culprits[k],
                            "the Go code tars2go emits for a valid program does not compile: %s" % errs[k].splitlines()[0][:240], {"go_errors": errs[k][:1500]})
            shutil.rmtree(os.path.join(h, "isolate"), ignore_errors=True)
        else:
            raise Inconclusive("batch %d: still failing after removing the failing elements %d times" % (self.bi, ROUNDS))
        for dname in ("alone", "alone-idl", "isolate-idl"):
            shutil.rmtree(os.path.join(h, dname), ignore_errors=True)
        ev["programs_judged"] = len(self.progs)
        if not self.progs or schema is None:
            return ev, None
        ev.update({"struct_types": len(schema["order"]), "interfaces": len(schema["interfaces"]),
                   "functions_compiled": sum(len(v) for v in schema["interfaces"].values())})

        ev["switch_effects"] = self.switch_effects()
        ev["enum_constants"] = self.enum_check()

        # ---- the generated codecs against the IDL's meaning
        drv = gobuild.build(b, "codecdrive")
        nsh = ctx.pick(4, 6)
        d, last = codecfam.run_driver(b, drv, "structs", "enc", ["-shards", str(nsh), "-per", str(ctx.pick(6, 20))])
        n_enc = int(last.split()[0])
        shards = sorted(glob.glob(os.path.join(d, "enc_*.ndjson")))
        extra = {"schemas.json": codecgen.schemas_json(schema)}
        res = oracle.judge(b, "TarsSchema", "Oracle_Schema", "Oracle.cfg", shards, par=nsh, timeout=3000, extra_files=extra,
                           deps=codecfam.DEPS, name="schema%d" % self.bi)
        if res["total"] != n_enc:
            raise Inconclusive("schema oracle judged %d of %d records" % (res["total"], n_enc))
        for p, i, r in res["bad"]:
            kind = "panic" if r.get("panic") else ("write-error" if r["werr"] else ("decode-error" if not r["dec_ok"] else "mismatch"))
            ctx.violate("C16:generated-codec:%s:%s" % (kind, r["k"]),
                        "generated codec of %s: encoding is not the well-formed encoding of the value, or the generated decoder does not "
                        "return it (%s)" % (r["s"], kind), {"record": r, "struct": struct_shape(schema, r["s"]), "idl": self.idl_of(r["s"])})
        d2, last2 = codecfam.run_driver(b, drv, "mutants", "mut", ["-shards", str(nsh), "-per", str(ctx.pick(1, 2)),
                                                                    "-classes", "extra,absent,prefix,inflate,subst", "-cap", str(ctx.pick(3, 4))])
        mshards = sorted(glob.glob(os.path.join(d2, "mut_*.ndjson")))
        total, bad, states, gen = codecfam.judge_dec(b, schema, mshards, "dec%d" % self.bi, par=nsh)
        known_seen = {}
        # structs whose generated ENCODER is already known to be wrong (its output is the raw material of the mutants)
        enc_bad = {r["s"] for _, _, r in res["bad"]}
        for why, r in bad:
            if why == "reference-vs-expected" and r["cls"] == "valid":
                enc_bad.add(r["s"])
                ctx.violate("C16:generated-codec:encoding-not-the-value:valid",
                            "generated WriteTo of %s: the reference does not decode its output to the value written" % r["s"],
                            {"record": r, "struct": struct_shape(schema, r["s"]), "idl": self.idl_of(r["s"])})
        for why, r in bad:
            if why == "reference-vs-expected":
                if r["s"] in enc_bad or any(dep in enc_bad for dep in struct_deps(schema, r["s"])):
                    continue
                raise Inconclusive("reference decoder disagrees with the value the harness built (%s %s)" % (r["cls"], r["s"]))
            sigs = codec_signatures(why, r, schema)
            hit = [x for x in sigs if x in known_codec_open()]
            # a length field blown up to 2^31-1 makes the generated decoder allocate / loop for that many elements (the recorded
            # C05 allocation finding); on a loaded machine the driver's worker then times out instead of dying of memory
            slow_alloc = why == "panic" and r["cls"] == "inflate" and codecfam.panic_class(r["panic"]) in ("out-of-memory", "hang")
            if hit or why == "alloc" or slow_alloc or (why == "panic" and codecfam.panic_class(r["panic"]) == "out-of-memory"):
                key = hit[0] if hit else "C05:allocation"
                known_seen[key] = known_seen.get(key, 0) + 1
                continue
            if r["k"] == "decr" and not r.get("fok"):
                continue        # the fresh decode of the same bytes is judged by its own record
            if why == "wrong-value" and r["cls"] == "subst" and r.get("note", "").endswith("->FLOAT") and has_nan(r["dec"]):
                # a float32 NaN with a payload read into a double member: the runtime widens it as IEEE 754 says; the shared
                # reference (spec/TarsSchema) does not model NaN payloads under widening.  Not the generator's business.
                ev["observations_nan_widening"] = ev.get("observations_nan_widening", 0) + 1
                continue
            if why == "wrong-value" and r["cls"] == "inflate" and r["k"] == "dec" and r["ok"] and has_map(schema, r["s"]):
                # a shrunk element count leaves an element behind that is then read as a further map entry with a key already
                # seen: a Go map holds it once, the shared reference keeps both pairs.  Both decode the (malformed) input
                # without error; which value is "the" value is not the generator's business.
                ev["observations_duplicate_map_key"] = ev.get("observations_duplicate_map_key", 0) + 1
                continue
            if why == "accepts-invalid" and r["ok"] and r["panic"] == "":
                # the malformed part lies inside a field whose tag the struct does not declare: the generated decoder never
                # looks at it, the codec runtime skips it (SkipToNoCheck) and is more lenient about the content of what it skips
                # than the shared reference (negative element count, a struct end as container element, ...).  The decoded
                # value is the one "determined by the complete fields that are present"; what the runtime's skip tolerates is
                # C05/C06's subject, not the generator's: counted, with an example, not judged here.
                t = first_malformed_toplevel(r["bytes"])
                if t is not None and t not in {m["tag"] for m in schema["structs"][r["s"]]}:
                    ev["observations_malformed_content_of_skipped_undeclared_field"] = ev.get("observations_malformed_content_of_skipped_undeclared_field", 0) + 1
                    ev.setdefault("example_malformed_skipped_field", {"struct": r["s"], "undeclared_tag": t, "bytes": r["bytes"][:80], "class": r["cls"], "note": r.get("note", "")})
                    continue
            if why == "panic":
                why = "panic-" + codecfam.panic_class(r["panic"])
            ctx.violate("C16:generated-codec:%s:%s%s%s" % (why, r["cls"], (":" + r["note"]) if r.get("note") else "", ":reused" if r["k"] == "decr" else ""),
                        "%s input for generated struct %s (%s): real decoder %s, reference: %s"
                        % (r["cls"], r["s"], r.get("note", ""), "ok" if r["ok"] else "error/panic " + r["panic"][:80], why),
                        {"record": r, "candidate_signatures": sigs, "idl": self.idl_of(r["s"])})
        parts = last2.split(" ", 3)
        ev.update({"enc_records": res["total"], "dec_records": total, "oracle_states": res["states"] + states,
                   "oracle_transitions": res["generated"] + gen, "known_codec_findings_seen": known_seen,
                   "mutant_classes": parts[3] if len(parts) > 3 else ""})
        # ---- the generated proxies and dispatchers: call transparency
        ev["calls"] = self.call_check(schema)
        ev["oracle_states"] += ev["calls"].get("oracle_states", 0)
        ev["oracle_transitions"] += ev["calls"].get("oracle_transitions", 0)
        return ev, {"ctx": b, "schema": schema, "shards": shards, "extra": extra, "enc_bad": enc_bad,
                    "texts": [self.text(k).module_text(self.text(k).mods[0]) for k in sorted(self.progs)]}

    def call_check(self, schema):
        """Call transparency of the generated proxies and dispatchers: every operation of every interface of the batch is
        called through its generated proxy method (with context, without, one-way), looped back into the generated Dispatch
        with a recording servant behind it (cmd/ifdrive); TLC (Oracle_Call) judges each call against the directions the IDL
        text declares (read by lib/idl2schema.py)."""
        ctx, b, h = self.ctx, self.b, self.h
        funcs, mods = [], {}
        for q, fs in sorted(schema["interfaces"].items()):
            mod, name = q.split(".")
            mods.setdefault(mod, []).append(name)
            for f in fs:
                funcs.append({"iface": q, "fn": f["name"], "goname": idl2schema.go_name(f["name"]), "hasret": f["ret"] is not None,
                              "idl": [{"out": bool(a["out"]), "ty": tshape(a["ty"])} for a in f["args"]]})
        if not funcs:
            return {"operations": 0}
        reg = ["// generated by checks/c16.py", "package main", "", "import ("]
        body = []
        for mod, names in sorted(mods.items()):
            if mod not in self.moddir:
                raise Inconclusive("no emitted package found for module %s" % mod)
            gi = generated_interfaces(os.path.join(h, self.moddir[mod]))
            want = {}
            for name in names:
                gn = idl2schema.go_name(name)
                for wc in (True, False):
                    if (gn, wc) not in gi:
                        raise Inconclusive("no generated servant interface for %s.%s (%s)" % (mod, name, "with context" if wc else "plain"))
                    want[(gn, wc)] = gi[(gn, wc)]
                body.append('\tregIf(%s, func() dispatcher { return new(%s.%s) }, s_%s.NewImplCtx_%s, s_%s.NewImplPlain_%s)'
                            % (json.dumps("%s.%s" % (mod, name)), mod, gn, mod, gn, mod, gn))
            d = os.path.join(h, "zzservants", mod)
            os.makedirs(d, exist_ok=True)
            open(os.path.join(d, "servants.go"), "w").write(servant_source(mod, want, dict(self.quals, **{mod: self.moddir[mod]})))
            reg += ['\t%s "verifharness/%s"' % (mod, self.moddir[mod]), '\ts_%s "verifharness/zzservants/%s"' % (mod, mod)]
        reg += [")", "", "func init() {"] + body + ["}", ""]
        open(os.path.join(h, "cmd", "ifdrive", "reg_gen.go"), "w").write("\n".join(reg))
        t0 = time.time()
        drv = gobuild.build(b, "ifdrive")
        d = b.sub("calls")
        fpath, opath = os.path.join(d, "funcs.json"), os.path.join(d, "calls.ndjson")
        json.dump(funcs, open(fpath, "w"))
        per = ctx.pick(6, 12)
        rc, so, se = sh([drv, "-funcs", fpath, "-out", opath, "-per", str(per), "-seed", str(self.seed * 131 + self.bi)], timeout=900, check=False)
        if rc != 0:
            raise Inconclusive("ifdrive failed (%d): %s" % (rc, (so + se)[-1500:]))
        recs = [json.loads(l) for l in open(opath)]
        if len(recs) != per * len(funcs):
            raise Inconclusive("ifdrive wrote %d records for %d operations x %d calls" % (len(recs), len(funcs), per))
        drive_s = round(time.time() - t0, 2)
        bad, classes, states, gen = self.judge_calls(recs, "calls%d" % self.bi)
        # naming only (the verdicts are TLC's): a failure that hits (nearly) every parameter of a position class is named by
        # the position; one that hits few of them is about the parameter's type and is named by the type's shape
        inst, failed = {}, {}
        for idx, r in enumerate(recs):
            info = bad.get(idx)
            if r["missing"] or len(r["passed"]) != len(r["idl"]) or (info and not info["at"]):
                continue
            for i, a in enumerate(r["idl"]):
                if a["out"] and r["mode"] == "oneway":
                    continue
                pc = pos_class(r["idl"], i)
                inst[pc] = inst.get(pc, 0) + 1
                if info and (i + 1) in info["all"]:
                    failed[pc] = failed.get(pc, 0) + 1
        for idx, info in sorted(bad.items()):
            r = recs[idx]
            detail_class = info["pos"]
            if info["at"] and failed.get(info["pos"], 0) < 0.6 * inst.get(info["pos"], 1):
                detail_class = "type:" + type_class(r["idl"][info["at"] - 1]["ty"])
            if info["v"] == "call-fails":
                detail_class = "-".join(re.findall(r"[a-z]{2,}", r["err"].lower())[:6])
            sig = "C16:call-transparency:%s%s" % (info["v"], (":" + detail_class) if detail_class else "")
            at = info["at"]
            line = fn_line(self.idl_of(r["iface"]), r["fn"])
            if at:
                i = at - 1
                detail = ("parameter %d (%s, declared %s, generated as %s): the caller passed %s, the servant received %s and stored %s, the caller got %s"
                          % (at, r["idl"][i]["ty"], "out" if r["idl"][i]["out"] else "in", "pointer" if r["genptr"][i] else "value",
                             r["passed"][i][:60], r["received"][i][:60], r["produced"][i][:60], r["returned"][i][:60]))
            else:
                detail = "err=%r servant entered %s times, return value produced %s, handed back %s" % (r["err"][:120], r["implcalls"], r["retprod"][:60], r["retback"][:60])
            ctx.violate(sig, "%s call of `%s` through the generated proxy and dispatcher: %s" % (r["mode"], line or r["fn"], detail),
                        {"record": r, "oracle": info, "idl": self.idl_of(r["iface"]), "flags": self.flags_of_module(r["iface"].split(".")[0])})
        # the spelling of a direction in Go is not part of the statement: counted, not judged
        spell = {"in_param_generated_as_pointer": 0, "out_param_generated_as_value": 0}
        for r in recs:
            for a, gp in zip(r["idl"], r["genptr"]):
                if gp and not a["out"]:
                    spell["in_param_generated_as_pointer"] += 1
                if a["out"] and not gp:
                    spell["out_param_generated_as_value"] += 1
        # binding self-test: falsified observations must be rejected, exactly those
        good = [r for i, r in enumerate(recs) if i not in bad]
        pick = lambda cond: next((json.loads(json.dumps(r)) for r in good if cond(r)), None)
        other = lambda v: "[9]" if v != "[9]" else "[8]"
        sample, expect = [], []
        r = pick(lambda r: any(not a["out"] for a in r["idl"]))
        if r:
            i = next(i for i, a in enumerate(r["idl"]) if not a["out"])
            r["received"][i] = other(r["passed"][i])
            sample.append(r), expect.append("in-param-not-delivered")
        r = pick(lambda r: r["mode"] != "oneway" and any(a["out"] for a in r["idl"]))
        if r:
            i = max(i for i, a in enumerate(r["idl"]) if a["out"])
            r["returned"][i] = other(r["produced"][i])
            sample.append(r), expect.append("out-param-not-returned")
        r = pick(lambda r: r["mode"] != "oneway" and r["hasret"])
        if r:
            r["retback"] = other(r["retprod"])
            sample.append(r), expect.append("return-value-not-returned")
        r = pick(lambda r: r["mode"] == "oneway")
        if r:
            r["implcalls"] = 2
            sample.append(r), expect.append("servant-not-entered-exactly-once")
        if len(sample) == 4:
            sample += [json.loads(json.dumps(x)) for x in good[:2]]
            sb, _, _, _ = self.judge_calls(sample, "calls-selftest%d" % self.bi)
            if sorted(sb) != [0, 1, 2, 3] or [sb[k]["v"] for k in range(4)] != expect:
                raise Inconclusive("call oracle self-test failed: rejected %s, expected %s" % ({k: v["v"] for k, v in sb.items()}, expect))
            st = {"records": len(sample), "corrupted": 4, "rejected_exactly_those": True, "verdicts": expect}
        elif ctx.violations:
            st = {"skipped": "not enough accepted call records to falsify; violations are reported"}
        else:
            raise Inconclusive("call self-test: the batch has no accepted call with an input, an output, a return value and a one-way call")
        seqs = {"".join("o" if a["out"] else "i" for a in f["idl"]) for f in funcs}
        need = {d + "-" + w for d in ("in", "out") for w in ("first", "after-in", "after-out")}
        if not need <= set(classes) and not ctx.violations:
            raise Inconclusive("call run is vacuous: position classes %s not exercised" % sorted(need - set(classes)))
        modes = {}
        for r in recs:
            modes[r["mode"]] = modes.get(r["mode"], 0) + 1
        ex = next((r for r in good if any(a["out"] for a in r["idl"]) and any(not a["out"] for a in r["idl"])), recs[0])
        return {"operations": len(funcs), "interfaces": len(schema["interfaces"]), "calls": len(recs), "calls_by_mode": modes,
                "rejected_by_oracle": len(bad), "direction_sequences": len(seqs), "longest_parameter_list": max(len(f["idl"]) for f in funcs),
                "position_classes_exercised": sorted(classes), "observations_direction_spelling": spell,
                "oracle_states": states, "oracle_transitions": gen, "build_and_drive_s": drive_s, "selftest_falsified_calls": st,
                "sample": {"idl": fn_line(self.idl_of(ex["iface"]), ex["fn"]), "mode": ex["mode"], "passed": [x[:40] for x in ex["passed"]],
                           "received": [x[:40] for x in ex["received"]], "produced": [x[:40] for x in ex["produced"]],
                           "returned": [x[:40] for x in ex["returned"]]}}

    def judge_calls(self, recs, name):
        """Oracle_Call over call records.  Returns ({index0: info}, position classes, states, transitions)."""
        d = self.b.sub(name)
        bad, classes, states, gen = {}, set(), 0, 0
        chunk = 4000
        for ci in range(0, len(recs), chunk):
            path = os.path.join(d, "recs_%d.ndjson" % ci)
            with open(path, "w") as f:
                for r in recs[ci:ci + chunk]:
                    f.write(json.dumps(r) + "\n")
            total, b1, r = oracle.judge_file(self.b, SPEC, "Oracle_Call", "OracleEnum.cfg", path, "%s-%d" % (name, ci), timeout=1200)
            if total != len(recs[ci:ci + chunk]):
                raise Inconclusive("call oracle judged %d of %d records" % (total, len(recs[ci:ci + chunk])))
            js = [x for x in tlc_json_lines(r.out) if "classes" in x]
            if not js:
                raise Inconclusive("Oracle_Call printed no details")
            jb = js[0]["bad"]
            jb = {str(i + 1): v for i, v in enumerate(jb)} if isinstance(jb, list) else jb
            if sorted(int(k) for k in jb) != sorted(b1):
                raise Inconclusive("Oracle_Call: details do not match the rejected set")
            for k, v in jb.items():
                bad[ci + int(k) - 1] = v
            classes |= set(js[0]["classes"])
            states += max(r.distinct, 1)
            gen += max(r.generated, 1)
        return bad, classes, states, gen

    def enum_check(self):
        """The value of every generated enum constant, read from the emitted Go source, judged by Oracle_Enum."""
        up = lambda n: n[:1].upper() + n[1:]
        recs = []
        for k in sorted(self.progs):
            pt = self.text(k)
            consts = {}
            for mod in pt.mods:
                for path in glob.glob(os.path.join(self.h, self.moddir.get(pt.modname[mod], "gen/-"), "*.go")):
                    for m in re.finditer(r"^\s*(\w+)\s+\w+\s*=\s*(-?\d+)\s*$", open(path).read(), re.M):
                        consts[(mod, m.group(1))] = int(m.group(2))
            for i, e in enumerate(self.progs[k]["enums"]):
                decl = [{"k": "auto" if kind == "auto" else "num", "v": 0 if kind == "auto" else val} for kind, val in pt.enum_values[i]]
                got = [consts.get((e["mod"], "%s_%s" % (up(pt.enum_names[i]), up(nm))), 12345678) for nm in pt.enum_members[i]]
                recs.append({"enum": "%s.%s" % (pt.modname[e["mod"]], pt.enum_names[i]), "decl": decl, "got": got})
        if not recs:
            return {"enums": 0}
        d = self.b.sub("enum-oracle")
        path = os.path.join(d, "recs.ndjson")

        def judge(rs, name):
            with open(path, "w") as f:
                for r in rs:
                    f.write(json.dumps(r) + "\n")
            total, bad, _ = oracle.judge_file(self.b, SPEC, "Oracle_Enum", "OracleEnum.cfg", path, name)
            return bad

        bad = judge(recs, "enum%d" % self.bi)
        for i in bad:
            r = recs[i - 1]
            shape = ",".join(x["k"] for x in r["decl"])
            self.ctx.violate("C16:generated-enum-value:%s" % ("implicit-after-explicit" if "num,auto" in shape else "wrong-constant"),
                             "enum %s: generated constants %s for declaration %s" % (r["enum"], r["got"], r["decl"]), {"record": r})
        # self-test: a falsified constant must be rejected
        cor = json.loads(json.dumps([r for i, r in enumerate(recs, 1) if i not in bad][:3]))
        if not cor:
            return {"enums": len(recs), "rejected": len(bad), "selftest": "skipped: no accepted record to falsify"}
        cor[0]["got"][-1] += 1
        if judge(cor, "enum-selftest") != [1]:
            raise Inconclusive("enum oracle self-test failed")
        return {"enums": len(recs), "rejected": len(bad), "selftest_falsified_constant_rejected": True}

    def switch_effects(self):
        """Vacuity guard for the switch family: per switch, whether the emitted code of the root module of each program shows the
        effect the tool documents for the value the program was generated under (agree) or not (disagree)."""
        seen = {}
        for k in sorted(self.progs):
            pt = self.text(k)
            d = self.moddir.get(pt.modname[pt.root])
            if not d:
                continue
            texts = {os.path.basename(p): open(p, encoding="utf-8", errors="replace").read() for p in glob.glob(os.path.join(self.h, d, "*.go"))}
            itf = "\n".join(t for n, t in texts.items() if n.endswith(".tars.go"))
            st = "\n".join(t for n, t in texts.items() if not n.endswith(".tars.go"))
            if not itf or "tars:\"" not in st:
                continue
            marks = {"add-servant": "AddServantWithContext(" in itf, "without-trace": "tarstrace" not in itf,
                     "dispatch-reporter": "GetDispatchReporter" in itf, "json-omitempty": ",omitempty" in st,
                     "module-cycle": d.count(os.sep) >= 2, "E": re.search(r'^"fmt"$', st, re.M) is not None,
                     "module-upper": None if pt.modname[pt.root][:1].isupper() else os.path.basename(d)[:1].isupper()}
            for name, m in marks.items():
                if m is not None and name in self.sw[k]:
                    e = seen.setdefault(name, {"agree": 0, "disagree": 0})
                    e["agree" if m == self.sw[k][name] else "disagree"] += 1
        return seen

    def flags_of_module(self, mod):
        for k in self.progs:
            if mod in self.text(k).modname.values():
                return self.flags(k)
        return []

    def idl_of(self, q):
        mod = q.split(".")[0]
        for k in self.progs:
            pt = self.text(k)
            for m in pt.mods:
                if pt.modname[m] == mod:
                    return pt.module_text(m)
        return ""


def batch(ctx, exe, bi, progs, switches, swdefault, seed):
    return Batch(ctx, exe, bi, progs, switches, swdefault, seed).run()


def has_nan(v):
    """any 8-byte big-endian value in a canonical value tree that is a float64 NaN"""
    if isinstance(v, list):
        if len(v) == 8 and all(isinstance(x, int) for x in v):
            return (v[0] & 0x7f) == 0x7f and (v[1] & 0xf0) == 0xf0 and any(v[2:] + [v[1] & 0x0f])
        return any(has_nan(x) for x in v)
    return False


def has_map(schema, q):
    def walk(ty):
        return ty["k"] == "map" or any(walk(ty[f]) for f in ("el", "key", "val") if f in ty)
    return any(any(walk(m["ty"]) for m in schema["structs"].get(x, [])) for x in ({q} | struct_deps(schema, q)))


def struct_deps(schema, q, seen=None):
    """structs reachable from q through member types"""
    seen = seen if seen is not None else set()

    def walk(ty):
        if ty["k"] == "struct" and ty["name"] not in seen:
            seen.add(ty["name"])
            struct_deps(schema, ty["name"], seen)
        for f in ("el", "key", "val"):
            if f in ty:
                walk(ty[f])

    for m in schema["structs"].get(q, []):
        walk(m["ty"])
    return seen


def struct_shape(schema, q):
    return "+".join(sorted(set("%s:%s" % ("require" if m["req"] else "optional", tshape(m["ty"])) for m in schema["structs"].get(q, []))))[:100]


def tshape(ty):
    k = ty["k"]
    if k == "vec":
        return "vector<%s>" % tshape(ty["el"])
    if k == "arr":
        return "%s[n]" % tshape(ty["el"])
    if k == "map":
        return "map<%s,%s>" % (tshape(ty["key"]), tshape(ty["val"]))
    if k == "int":
        return ty["t"]
    return k


def schema_selftest(ctx, bres):
    """Flip optional -> require in the extracted schema of one generated struct: the oracle must then reject records of
    that struct (and only of structs that contain it), i.e. the generated code is judged against the IDL's meaning."""
    b, schema = bres["ctx"], bres["schema"]
    recs = codecfam.first_records(bres["shards"], 10 ** 9, lambda r: r["k"] == "enc")
    by = {}
    for r in recs:
        by.setdefault(r["s"], []).append(r)
    cands = sorted(((sum(1 for m in ms if not m["req"]), q) for q, ms in schema["structs"].items()
                    if q in by and q not in bres["enc_bad"] and not (struct_deps(schema, q) & bres["enc_bad"])), reverse=True)
    for nopt, q in cands[:10]:
        if nopt == 0:
            break
        cor = json.loads(json.dumps({"structs": schema["structs"]}))
        for m in cor["structs"][q]:
            m["req"] = True
        path = os.path.join(b.sub("schema-selftest"), "recs_%s.ndjson" % q.replace(".", "_"))
        with open(path, "w") as f:
            for r in by[q]:
                f.write(json.dumps(r) + "\n")
        total, bad0, _ = oracle.judge_file(b, "TarsSchema", "Oracle_Schema", "Oracle.cfg", path, "st-orig", extra_files=bres["extra"], deps=codecfam.DEPS)
        total, bad1, _ = oracle.judge_file(b, "TarsSchema", "Oracle_Schema", "Oracle.cfg", path, "st-corrupt",
                                           extra_files={"schemas.json": json.dumps(cor)}, deps=codecfam.DEPS)
        if not bad0 and bad1:
            return {"struct": q, "optional_members_flipped": nopt, "records": total, "rejected_with_corrupted_schema": len(bad1),
                    "rejected_with_extracted_schema": 0}
    if ctx.violations:
        # with a generator this broken there is no struct whose records are accepted to begin with
        return {"skipped": "no generated struct with optional members passes the oracle under the extracted schema; violations are reported"}
    raise Inconclusive("schema self-test: flipping optional to require in the extracted schema was not noticed by the oracle")


# =============================================================================================== run

def run(ctx):
    ctx.level = "model_checking"
    ctx.assumptions = [
        "IdlGrammar.tla defines the language at token level; constructs it leaves out (trailing comma / empty enum, unnamed parameters, include after a module, ...) are 'not in the language': accepted leniently by the tool = observation",
        "IdlPrograms.tla defines the valid program family; lexemes come from lib/idlgen.py pools that avoid Go keywords, predeclared names, generated method names and the generator's locals",
        "IdlIncludes.tla: a file refers only to types of files it includes directly (what is visible through an include of an include is left open by the statement); "
        "IdlSwitches.tla: the statement holds under every assignment of the tool's switches that change the emitted code; a failure that disappears under the default "
        "switches is named by the switches whose single flip removes it",
        "schemas of generated structs come from lib/idl2schema.py (independent of tars2go); the codec oracles are those of C03/C04/C06",
        "operational reading of 'terminates with a diagnostic': within 5 s (10 s for valid programs), and exit 0 only with output that compiles",
        "IdlIncludeGraphs.tla: an include graph is in the language iff no file below the root lies on a cycle and none names a missing file (diamonds and triangles are); "
        "for the others 'terminates with a diagnostic' is read as: ends within %d s (a run that does not is repeated with %d s before it counts; ending in the Go runtime's "
        "'stack overflow' after unbounded recursion counts as not terminating) with a non-zero exit and a message, or (lenient, observation) exit 0 with output that compiles" % (INCG_T1, INCG_T2),
        "call transparency of generated proxies/dispatchers is judged on an in-process loop (proxy -> model.Servant stub -> generated Dispatch, TARS version); the transport, filters, TUP/JSON requests are C01's / C10's; "
        "out parameters are handed in as fresh zero values (a re-used struct is C04's recorded finding); how a direction is spelled in Go (value / pointer) is an observation, not judged",
    ]
    exe = gobuild.build_tars2go(ctx)
    hstage = gobuild.stage_harness(ctx)          # staged before the threads start (they all use it)
    # the clauses run in threads: serialise the bookkeeping of violations
    import threading
    lock, plain_violate = threading.Lock(), ctx.violate

    def violate(*a, **k):
        with lock:
            plain_violate(*a, **k)

    ctx.violate = violate
    pool = ThreadPoolExecutor(max_workers=8)
    fmc = pool.submit(tlc.run, ctx, SPEC, "MC_IdlGrammar", cfg="MC_IdlGrammar.cfg", workers=1, timeout=600, name="mc-grammar")
    fmc2 = pool.submit(tlc.run, ctx, SPEC, "IdlPrograms", cfg="MC_IdlPrograms.cfg", workers=2, timeout=800, name="mc-programs")
    f3 = pool.submit(clause3, ctx, exe)
    fig = pool.submit(include_graphs, ctx, exe, hstage)

    # ---- clause 1: sample the program family
    nprog = ctx.pick(40, 600)
    nb = ctx.pick(2, 6)
    sigmax = ctx.pick(4, 5)
    fsig = [pool.submit(signature_program, ctx, sigmax, ctx.seed * 7 + bi * 11, "signatures%d" % bi) for bi in range(nb)]
    finc = pool.submit(include_programs, ctx, 4, "includes")
    fsw = pool.submit(switch_family, ctx, exe)
    progs, sim_states = sample_programs(ctx, nprog, ctx.seed, ctx.pick(2, 3))
    sigs = [f.result() for f in fsig]
    inc_all, rinc = finc.result()
    incs = pick_include_programs(ctx, inc_all)
    swdefault, combos, rsw, sw_ev = fsw.result()
    # the switches of the framework's own Makefile (+ json-omitempty) and the defaults lead the order of assignments
    mk = dict(swdefault)
    for fl in makefile_flags():
        m = re.match(r"^-+([\w-]+)=(true|false)$", fl)
        if m and m.group(1) in mk:
            mk[m.group(1)] = m.group(2) == "true"
    mk["json-omitempty"] = True
    sworder = order_switches(combos, [dict(swdefault), mk], ctx.seed)
    per = (nprog + nb - 1) // nb
    bpool = ThreadPoolExecutor(max_workers=2)        # at most two batches (builds, drivers, oracle JVMs) at a time
    # every batch: its share of the sampled programs + the program of all operation signatures (own type rotation) + its share
    # of the include-graph programs; every program of the run under its own assignment of the tool's switches
    fb, used, g = [], [], 0
    for bi in range(nb):
        mine = progs[bi * per:(bi + 1) * per] + [sigs[bi][0]] + [x["program"] for x in incs[bi::nb]]
        sws = [sworder[(g + i) % len(sworder)] for i in range(len(mine))]
        g += len(mine)
        used += sws
        fb.append(bpool.submit(batch, ctx, exe, bi + 1, mine, sws, swdefault, ctx.seed))
    f2 = pool.submit(clause2, ctx, exe)
    fraw1 = pool.submit(clause2_raw, ctx, exe, [], ["random-bytes", "token-soup"], ctx.pick(1000, 50000), "n")

    c3 = f3.result()
    cig = fig.result()
    bevs, bres = [], []
    for f in fb:
        ev, br = f.result()
        bevs.append(ev)
        if br:
            bres.append(br)
    c2, tok_texts = f2.result()
    if not bres and not ctx.violations:
        raise Inconclusive("no program of the family got as far as the codec oracles")
    # raw inputs: mutation corpus = programs that went through generator and compiler (module A files stand alone) and the
    # accepted token-level programs
    corpus = [t for br in bres for t in br["texts"]][:60] + tok_texts[:: max(1, len(tok_texts) // 150)]
    fraw = pool.submit(clause2_raw, ctx, exe, corpus, ["valid-cut", "valid-mutated"], ctx.pick(800, 50000), "m")
    st_schema = schema_selftest(ctx, bres[0]) if bres else {"skipped": "every sampled program was rejected or did not compile; violations are reported"}
    craw, craw1 = fraw.result(), fraw1.result()
    craw = {k: (craw[k] + craw1[k] if isinstance(craw[k], int) else dict(craw[k], **craw1[k]) if isinstance(craw[k], dict) else craw[k]) for k in craw}
    rmc = tlc.require_clean(fmc.result(), "MC_IdlGrammar")
    rmc2 = tlc.require_clean(fmc2.result(), "MC_IdlPrograms")
    judged = sum(e.get("programs_judged", 0) for e in bevs)
    enc = sum(e.get("enc_records", 0) for e in bevs)
    dec = sum(e.get("dec_records", 0) for e in bevs)
    known = {}
    for e in bevs:
        for k, v in e.get("known_codec_findings_seen", {}).items():
            known[k] = known.get(k, 0) + v
    cevs = [e["calls"] for e in bevs if e.get("calls", {}).get("calls")]
    calls = sum(c["calls"] for c in cevs)
    if not cevs and not ctx.violations:
        raise Inconclusive("no generated proxy / dispatcher was driven")
    sig_states = sum(r.distinct for _, r in sigs) + rinc.distinct + rsw.distinct
    sig_trans = sum(r.generated for _, r in sigs) + rinc.generated + rsw.generated
    inc_judged = sum(e.get("programs_with_include_graph", 0) for e in bevs)
    effects = {}
    for e in bevs:
        for name, v in e.get("switch_effects", {}).items():
            t = effects.setdefault(name, {"agree": 0, "disagree": 0})
            t["agree"] += v["agree"]
            t["disagree"] += v["disagree"]
    dead = sorted(n for n in swdefault if n != "include" and effects.get(n, {}).get("agree", 0) == 0)
    if dead and not ctx.violations:
        raise Inconclusive("switches without any visible effect on the emitted code: %s (are they still passed to the tool?)" % dead)
    multi = [x for x in incs if x["graph"]["maxinc"] >= 2]
    if (not multi or not any(x["graph"]["diamond"] for x in incs)) and not ctx.violations:
        raise Inconclusive("no include graph with several include lines / no diamond among the programs of this run")
    ctx.coverage = {
        "states": rmc.distinct + rmc2.distinct + sig_states + c2["gen_states"] + c2["oracle_states"] + craw["oracle_states"] + sum(e.get("oracle_states", 0) for e in bevs) + cig["gen_states"] + cig["oracle_states"],
        "transitions": rmc.generated + rmc2.generated + sig_trans + sim_states + c2["gen_transitions"] + c2["oracle_transitions"] + sum(e.get("oracle_transitions", 0) for e in bevs) + cig["gen_transitions"] + cig["oracle_transitions"],
        "traces_validated_against_impl": c2["runs"] + craw["raw_inputs"] + enc + dec + calls + c3["files_compared"] + cig["runs"],
        "samples": [c2["sample"]] + [c["sample"] for c in cevs[:1]] + [cig["sample"]],
        "evaluations": c2["runs"] + craw["raw_inputs"] + enc + dec + calls + c3["files_compared"] + cig["runs"],
        "distinct_nontrivial": c2["token_tests"] + judged + cig["graphs"],
        "rule": "clause 1: %d programs sampled by TLC's simulator from IdlPrograms (seed %d) + one program per batch with every operation signature "
                "enumerated by TLC from IdlSignatures + the programs of the include graphs enumerated by TLC from IdlIncludes, %d batches, every program "
                "under its own assignment of the tool's switches (IdlSwitches); per generated struct type random values "
                "-> real WriteTo/ReadFrom judged by Oracle_Schema, mutants (extra, absent, prefix, inflate, subst) judged by Oracle_Dec; per generated "
                "operation calls through the generated proxy looped back into the generated dispatcher with a recording servant, judged by Oracle_Call; "
                "clause 2: one run of the binary per (configuration, token) of the automaton (stack depth <= %d) + raw inputs + one run per include graph of "
                "IdlIncludeGraphs (cycles, missing files, diamonds; time limit, output cap, timeouts confirmed by a longer run); clause 3: file-by-file diff"
                % (nprog, ctx.seed, nb, c2["stack_depth"]),
        "mc_grammar": {"distinct": rmc.distinct, "generated": rmc.generated, "depth": rmc.depth},
        "mc_programs_tiny_instance": {"distinct": rmc2.distinct, "generated": rmc2.generated},
        "program_sampling_states": sim_states,
        "signature_family": {"max_params": sigmax, "operations_per_batch": len(sigs[0][0]["funcs"]), "batches": nb,
                             "states": sig_states, "what": "IdlSignatures.tla: every in/out direction sequence up to max_params, with and without return value, enumerated by TLC"},
        "clause1_calls": {"calls": calls, "operations": sum(c["operations"] for c in cevs), "rejected_by_oracle": sum(c["rejected_by_oracle"] for c in cevs),
                          "position_classes_exercised": sorted(set(x for c in cevs for x in c["position_classes_exercised"])),
                          "direction_sequences_max": max([c["direction_sequences"] for c in cevs] or [0]),
                          "selftest": [c["selftest_falsified_calls"] for c in cevs][:1]},
        "include_graph_family": {"max_files": 4, "states": rinc.distinct, "graphs_emitted": len(inc_all), "graphs_run": len(incs),
                                 "run_by_files": {str(n): sum(1 for x in incs if x["graph"]["files"] == n) for n in (2, 3, 4)},
                                 "run_with_several_include_lines": len(multi), "run_with_three_include_lines": sum(1 for x in incs if x["graph"]["maxinc"] >= 3),
                                 "run_diamonds": sum(1 for x in incs if x["graph"]["diamond"]), "run_triangles": sum(1 for x in incs if x["graph"]["triangle"]),
                                 "run_root_file_with_two_modules": sum(1 for x in incs if x["graph"]["two"]),
                                 "programs_in_batches": inc_judged, "example_graph": incs[-1]["graph"],
                                 "what": "IdlIncludes.tla: every acyclic include graph over <= 4 files (order of the include lines part of the graph), all files reachable "
                                         "from the root; each file uses struct, enum (default by member name), container and array types of EVERY file it includes, "
                                         "in members, parameters and return values"},
        "include_graphs_of_any_shape": {k: v for k, v in cig.items() if k != "sample"},
        "switch_family": dict(sw_ev, **dict(switch_coverage(used), programs=len(used), documented_effect_seen_in_emitted_code=effects,
                              what="IdlSwitches.tla: every assignment of the switches that change the emitted code; each program of a batch is generated "
                                   "under its own assignment and goes through compiler, codec oracles and call-transparency oracle with it")),
        "clause1_batches": bevs, "clause1_programs_judged": judged, "clause1_known_codec_findings_seen": known,
        "clause2": {k: v for k, v in c2.items() if k != "sample"}, "clause2_raw": craw,
        "clause3": c3,
        "selftest_corrupted_schema": st_schema,
        "selftest_corrupted_records": c2["selftest_falsified_observations"],
        "exhaustive": False,
    }
