"""C09 — every call terminates by its deadline and leaves nothing behind.

Spec: spec/ClientMux with the discrete clock (maximal progress: time advances only when no internal step is enabled):
DeadlineInv (every call is over by effective deadline + connection-establishment bound), the accounting invariants
AcctQueue / AcctMgr / AcctResp and NoResidue (pending-reply table, ServantProxy.queueLen, endpointManager.invokeNum are
held only by calls inside the corresponding section, on every exit path: reply, timeout, send error, queue full),
LateReplyHarmless, and TransportBack for connection.invokeNum.
MC: MC_c09_ideal (3 callers, deadlines shorter and longer than the dial bound, accept / refuse / black hole, connection
loss), MC_residue (2 callers, every interleaving, every exit path), MC_transport_polite; and two configurations that
model recorded deviations of the code and must violate the property (non-vacuity): MC_c09_kf_serialdial (F21: dials
serialised under the connection lock -> DeadlineInv), MC_transport_kf (invokeNum only decremented by received packets).
Binding B1 (shared with C08: checks/c08.py, harness/cmd/muxdrive): fault scripts of the peer (silent, late, duplicates,
closes after receiving, unparsable frame, undecodable packet, refusing, black-holed address, queue full), timeouts
50-300 ms with context deadlines shorter and longer than the configured timeout, 1..32 (quick) callers on one proxy.
TLC validates every run against Trace_ClientMux with the clock driven by the recorded times: TDeadline is DeadlineInv
with the dial timeout of the run + 500 ms slack + 5 %; the counters read through test-only exports after quiescence
are accepted as observed and judged by NoResidue.  A deadline overrun is re-run three times before it is reported.
"""
import json

from concurrent.futures import ThreadPoolExecutor

from checks import c08 as mux
from lib import gobuild
from lib.core import Inconclusive, sh

C09_INV = ["NoResidue", "TDeadline", "AcctQueue", "AcctMgr", "AcctResp"]
C09_CLASSES = ["never", "late", "mixed", "dup", "close", "badframe", "garbage", "refuse", "blackhole1", "blackholeK", "queuefull",
               "inorder", "giveup"]
# connection.invokeNum (transport) is one of "the in-flight counters": a value other than 0 after quiescence is reported.
TRANSPORT_INVOKENUM_IS_RESIDUE = True
F21 = "C09:deadline-overrun:concurrent-callers-dial-blackhole"


def shift_after(t, c, ms):
    """The same run with everything from caller c's UnregBegin on recorded `ms` later."""
    out, on = [], False
    for e in t:
        if e["e"] == "UnregBegin" and e["c"] == c:
            on = True
        if on and "t" in e:
            e = dict(e, t=e["t"] + ms)
            if e["e"] == "CallEnd" and e["c"] == c:
                e["ms"] = e["ms"] + ms
        out.append(e)
    return out


def selftests_c09(ctx, traces):
    base = None
    for t in traces:
        if t[0]["cls"] in ("inorder", "dup", "never", "late") and 2 <= t[0]["k"] <= 8 and t[-1]["e"] == "Quiesce":
            base = t
            break
    if base is None:
        raise Inconclusive("no trace suitable for the binding self-test")
    c = [e for e in base if e["e"] == "Unregistered"][0]["c"]
    return mux.require_all_rejected(ctx, C09_INV, {
        "unregistered-event-dropped": ([e for e in base if not (e["e"] == "Unregistered" and e["c"] == c)], None),
        "queueLen-1-at-quiescence": (base[:-1] + [dict(base[-1], ql=1)], "NoResidue"),
        "pending-entry-at-quiescence": (base[:-1] + [dict(base[-1], pend=1)], "NoResidue"),
        "manager-invokeNum-1-at-quiescence": (base[:-1] + [dict(base[-1], mgr=1)], "NoResidue"),
        "call-returns-3s-late": (shift_after(base, c, 3000), "TDeadline"),
    })


def run(ctx):
    ctx.level = "model_checking"
    ctx.assumptions = [
        "effective deadline = context deadline if the caller's context has one, else the per-call timeout, else the configured timeout",
        "bound judged on the real code: effective deadline + dial timeout of the run + 500 ms scheduling slack + 5 % (timer wheel); "
        "the send queue is never full (no write-timeout wait)",
        "model time: a successful or refused connection attempt takes no time, an attempt to a black-holed address takes DialBound",
        "quiescence = every call returned, the peer finished its script, every receiver goroutine finished (waited for, not assumed)",
    ]
    quick = ctx.quick
    clean = ["c09_ideal", "residue", "transport_polite"] if quick else ["c09_ideal_t", "residue_t", "residue", "transport_polite"]
    kf = {"c09_kf_serialdial": "DeadlineInv", "transport_kf": "TransportBack"}
    with ThreadPoolExecutor(max_workers=5) as mcex:
        futs = mux.start_mc(ctx, mcex, clean + list(kf), workers=ctx.pick(3, 4), timeout=ctx.pick(300, 840))
        exe = gobuild.build(ctx, "muxdrive")
        rc, so, se = sh([exe, "probe"], timeout=60)
        blackhole = "blackhole: ok" in so
        classes = [c for c in C09_CLASSES if blackhole or not c.startswith("blackhole")]
        per, maxk, shards = ctx.pick(5, 30), ctx.pick(32, 128), ctx.pick(8, 10)
        ctx.log("harness built; blackhole available: %s" % blackhole)
        traces, hits = mux.drive(ctx, exe, classes, per, maxk, shards, "c09")
        ctx.log("%d runs recorded" % len(traces))
        bh = [t for t in traces if t[0]["cls"] == "blackholeK"]
        rest = [t for t in traces if t[0]["cls"] != "blackholeK"]
        with ThreadPoolExecutor(max_workers=2) as ex:
            f1 = ex.submit(mux.validate, ctx, rest, C09_INV, "c09", ctx.pick(3, 6))
            f2 = ex.submit(mux.validate, ctx, bh, C09_INV, "c09bh", 1, 1500, True)
            failures, st, tinv = f1.result()
            fb, stb, tinvb = f2.result()
        failures += fb
        tinv.update(tinvb)
        ctx.log("traces validated: %d rejected" % len(failures))
        bad = {id(t) for t, _ in failures}
        selftest = selftests_c09(ctx, [t for t in traces if id(t) not in bad])
        ctx.log("self-tests done")
        mc = mux.collect_mc(futs, kf)
        ctx.log("model checking done")
    overruns = {}
    for t, f in failures:
        cfg = t[0]
        cls, inv = cfg["cls"], (f["invariant"][0] if f["invariant"] else None)
        if inv == "TDeadline":
            sig = F21 if (cls == "blackholeK" and cfg["k"] > 1) else "C09:deadline-overrun:%s" % cls
            if f["event"].get("e") == "Hung":
                sig = "C09:call-never-returned:%s" % cls
            overruns.setdefault(sig, []).append((t, f))
            continue
        q = t[-1]
        if inv == "NoResidue":
            which = "+".join(n for n, k in (("queueLen", "ql"), ("manager-invokeNum", "mgr"), ("pending-table", "pend")) if q.get(k, 0) != 0)
            sig = "C09:residue:%s:%s" % (which or "unknown", cls)
            what = "after quiescence of a '%s' run (%d callers): queueLen=%s endpointManager.invokeNum=%s pending entries=%s" % (
                cls, cfg["k"], q.get("ql"), q.get("mgr"), q.get("pend"))
        elif inv:
            sig = "C09:accounting:%s:%s" % (inv, cls)
            what = "run of class '%s' violates %s at event %s" % (cls, inv, json.dumps(f["event"]))
        else:
            ev = f["event"]
            sig = "C09:trace-rejected:%s:%s" % (cls, ev.get("e"))
            what = "run of class '%s' (%d callers) is not a behaviour of ClientMux at event %s" % (cls, cfg["k"], json.dumps(ev))
            if ev.get("e") == "UnregBegin" and ev.get("k") == "timeout":
                c = ev["c"]
                t0 = [e["t"] for e in t if e["e"] == "CallStart" and e["c"] == c][0]
                if ev["t"] < t0 + cfg["to"][c - 1]:
                    sig = "C09:timeout-before-effective-deadline:%s" % cfg["modes"][c - 1]
                    what = ("a call whose effective deadline is %d ms (%s; configured timeout %d ms) was ended with a timeout error after %d ms"
                            % (cfg["to"][c - 1], {"ctx": "context deadline", "call": "per-call timeout", "cfg": "configured timeout"}[cfg["modes"][c - 1]],
                               cfg["cfgto"], ev["t"] - t0))
        ctx.violate(sig, what, mux.describe(t, f))
    # a deadline overrun counts only if the same scenario overruns in three further runs
    rerun_log = {}
    for sig, lst in overruns.items():
        t, f = lst[0]
        idx = t[0]["sc"]
        with ThreadPoolExecutor(max_workers=3) as ex:
            again = list(ex.map(lambda i: mux.rerun(ctx, exe, classes, per, maxk, idx, "c09-%d" % i), range(3)))
        fa, _, _ = mux.validate(ctx, again, C09_INV, "c09rr", 1, 600, True)
        rej = sum(1 for _, f2 in fa if f2["invariant"] and f2["invariant"][0] == "TDeadline")
        worst = [max([e["ms"] for e in a if e["e"] == "CallEnd"] or [0]) for a in again]
        rerun_log[sig] = {"scenario": idx, "reproduced": rej, "of": 3, "slowest_call_ms": worst}
        if rej == 3:
            ends = sorted((e["ms"], e["c"], e["k"], e.get("err", "")) for e in t if e["e"] == "CallEnd")
            cfg = t[0]
            what = ("%d concurrent callers (effective deadlines %s ms, dial timeout %d ms, peer: %s) returned after %s ms; bound = deadline + "
                    "dial timeout + 500 ms + 5 %%" % (cfg["k"], sorted(set(cfg["to"])), cfg["dial"], cfg["listen"], [e[0] for e in ends]))
            hung = [e["c"] for e in t if e["e"] == "Hung"]
            if hung:
                what = "callers %s of %d (effective deadlines %s ms, peer class '%s') had not returned %d ms after the run began" % (
                    hung, cfg["k"], sorted(set(cfg["to"])), cfg["cls"], t[-1]["t"])
            d = mux.describe(t, f)
            d["runs_with_this_signature"] = len(lst)
            ctx.violate(sig, what, d)
        else:
            ctx.notes.append("deadline overrun in scenario %d (%s) did not reproduce 3 times (%d/3): not reported" % (idx, sig, rej))
    # connection.invokeNum
    tres = {"unanswered-request": [], "unsolicited-or-duplicate-reply": [], "differs-from-model": []}
    bysc = {t[0]["sc"]: t for t in traces}
    for sc, (obs, pred) in sorted(tinv.items()):
        if obs != pred:
            tres["differs-from-model"].append(sc)
        if obs > 0:
            tres["unanswered-request"].append(sc)
        elif obs < 0:
            tres["unsolicited-or-duplicate-reply"].append(sc)
    if TRANSPORT_INVOKENUM_IS_RESIDUE:
        for kind in ("unanswered-request", "unsolicited-or-duplicate-reply"):
            for sc in tres[kind][:1]:
                t = bysc[sc]
                nd = sum(1 for e in t if e["e"] == "Dequeued")
                nr = sum(1 for e in t if e["e"] == "NetRecv")
                ctx.violate("C09:residue:transport-invokeNum:%s" % kind,
                            "after quiescence of a '%s' run (%d callers, every call returned) connection.invokeNum = %d: %d requests written, "
                            "%d packets received (%d runs of this kind)" % (t[0]["cls"], t[0]["k"], tinv[sc][0], nd, nr, len(tres[kind])),
                            {"scenario": sc, "config": t[0], "quiesce": t[-1], "trace": t[:300]})
    if len(tres["differs-from-model"]) >= 2:
        # the two recorded deviations of this counter are exactly "requests written minus packets received"; a counter that is
        # something else after quiescence is a different residue (one run alone may be a packet still on its way)
        sc = tres["differs-from-model"][0]
        t = bysc[sc]
        nd = sum(1 for e in t if e["e"] == "Dequeued")
        nr = sum(1 for e in t if e["e"] == "NetRecv")
        ctx.violate("C09:residue:transport-invokeNum:not-requests-minus-packets",
                    "after quiescence of a '%s' run (%d callers, every call returned) connection.invokeNum = %d although %d requests were written "
                    "and %d packets received (expected %d); %d runs deviate like this" % (t[0]["cls"], t[0]["k"], tinv[sc][0], nd, nr, tinv[sc][1],
                                                                                         len(tres["differs-from-model"])),
                    {"scenario": sc, "config": t[0], "quiesce": t[-1], "trace": t[:300]})
    elif tres["differs-from-model"]:
        ctx.notes.append("connection.invokeNum differs from requests written - packets received in scenarios %s" % tres["differs-from-model"][:10])
    ncalls = sum(t[0]["k"] for t in traces)
    outcomes = {}
    slow = 0
    for t in traces:
        for e in t:
            if e["e"] == "CallEnd":
                key = e["k"] + (":" + e["err"] if e.get("err") else "")
                outcomes[key] = outcomes.get(key, 0) + 1
                slow = max(slow, e["ms"] - t[0]["to"][e["c"] - 1])
    sample = next((t for t in traces if t[0]["cls"] == "never" and t[0]["k"] <= 3), traces[0])
    ctx.coverage = {
        "states": sum(v.get("distinct", 0) for v in mc.values()) + st["states"] + stb["states"],
        "transitions": sum(v.get("generated", 0) for v in mc.values()) + st["transitions"] + stb["transitions"],
        "traces_validated_against_impl": len(traces),
        "samples": [sample[:60]],
        "evaluations": ncalls, "distinct_nontrivial": len({json.dumps([(e["e"], e.get("c"), e.get("q"), e.get("k")) for e in t]) for t in traces}),
        "rule": "runs: %d scenarios of classes %s, 1..%d callers on one proxy, timeouts 50-300 ms (configured / per call / context deadline "
                "shorter and longer); evaluations = calls judged against their deadline and for residue; distinct = distinct event orders"
                % (len(traces), classes, maxk),
        "model_checking": mc, "call_outcomes": outcomes, "largest_excess_over_deadline_ms": slow,
        "blackhole_available": blackhole, "deadline_overrun_reruns": rerun_log,
        "transport_invokeNum_nonzero_runs": {k: len(v) for k, v in tres.items()},
        "quiescence_counters_read": len(traces),
        "hook_hits": hits, "selftest_corrupted_traces": selftest, "exhaustive": False,
    }
