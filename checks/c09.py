"""C09 — every call terminates by its deadline and leaves nothing behind.

Spec: spec/ClientMux with the discrete clock (maximal progress: time advances only when no internal step is enabled):
DeadlineInv (every call is over by effective deadline + connection-establishment bound), the accounting invariants
AcctQueue / AcctMgr / AcctResp and NoResidue (pending-reply table, ServantProxy.queueLen, endpointManager.invokeNum are
held only by calls inside the corresponding section, on every exit path: reply, timeout, send error, queue full),
LateReplyHarmless, and TransportBack for connection.invokeNum.
MC: MC_c09_ideal (3 callers, deadlines shorter and longer than the dial bound, accept / refuse / black hole, connection
loss), MC_residue (2 callers, every interleaving, every exit path), MC_transport_polite; and two configurations that
model recorded deviations of the code and must violate the property (non-vacuity): MC_c09_kf_serialdial (F21: dials
serialised under the connection lock -> DeadlineInv), MC_transport_kf (invokeNum only decremented by received packets).
Binding B1 (shared with C08: checks/c08.py, harness/cmd/muxdrive): fault scripts of the peer (silent, late, duplicates,
closes after receiving, unparsable frame, undecodable packet, refusing, black-holed address, queue full), timeouts
50-300 ms with context deadlines shorter and longer than the configured timeout, 1..32 (quick) callers on one proxy.
TLC validates every run against Trace_ClientMux with the clock driven by the recorded times: TDeadline is DeadlineInv
with the dial timeout of the run + 500 ms slack + 5 %; the counters read through test-only exports after quiescence
are accepted as observed and judged by NoResidue.  A deadline overrun is re-run three times before it is reported.
Non-interference in time ("a reply that arrives later is discarded without affecting any other call"): ReplyInTime in the
model (MC_c09_ideal, MC_c09_dup; MC_c09_kf_inline -- the connection's reader running the receiver itself -- must violate
it), TimelyReply on the runs: no call may end with a timeout behind a stray packet (duplicate, late, foreign, push) although
the peer wrote its reply 250 ms before its deadline on a connection that stayed open (class 'hol': read timeout 600-800 ms,
duplicated replies, other callers' replies right behind); reproduced three times before it is reported.
Boundary configurations (own processes, a process stops at its first hung call): ClientReadTimeout = 0 (MC_c09_read0: the
code as it is offers nothing, every answered call ends by its deadline), ClientWriteTimeout = 0, dial timeout 1 ms,
ObjQueueMax 0 / 1, deadlines below 1 ms; in each the same goroutine calls again after its first call returned.
Transparent client filters (pre, post, legacy, middleware; one process each) over silent / late / closing / refusing peers.
Client filters that are NOT transparent (spec/ClientMux/ClientFilt.tla: the filter stage between preInvoke and postInvoke may end
the call without invoking, override the outcome, invoke once more; MC_filt, MC_filt_timed, and MC_filt_kf_leak -- a rejected call
that leaves before postInvoke -- which must violate NoResidue): every branch of the filter if-chain of TarsInvoke is driven
(harness/cmd/muxdrive/faultfilter.go; processes fpre, fpost, flegacy, fmw) with filters that, per call, return an error before the
call, return nil or an error without invoking at all, invoke and return an error of their own or nil whatever came of it, or
invoke once more with the same message (pre / post filters: through the invoke function they are handed), over silent / late /
closing / refusing / answering peers with 1..8 callers.  Every run is validated by TLC against Trace_ClientFilt (a call that
never reached doInvoke is placed through FilterReject and postInvoke as the model has them); the pending-reply table, queueLen,
endpointManager.invokeNum and connection.invokeNum read after the run are accepted as observed and judged by NoResidue.
Whether an error of a pre / post filter ends the call is the framework's choice (the statement is silent): both are accepted, and
what the code does is recorded as an observation.  A filter that panics cannot be driven: TarsInvoke's deferred CheckPanic turns
any panic below it into os.Exit(-1) -- no call returns after that, the statement does not apply.
"""
import json

from concurrent.futures import ThreadPoolExecutor

import os
import re

from checks import c08 as mux
from lib import gobuild, tlc, tracecheck
from lib.core import Inconclusive, VERIF, sh

C09_INV = ["NoResidue", "TDeadline", "AcctQueue", "AcctMgr", "AcctResp", "TimelyReply"]
C09_CLASSES = ["never", "late", "mixed", "dup", "close", "badframe", "garbage", "refuse", "blackhole1", "blackholeK", "queuefull",
               "inorder", "giveup", "hol"]
EDGE_CLASSES = ["edge-read0", "edge-write0", "edge-dial1", "edge-qmax0", "edge-qmax1", "edge-subms"]
FILTER_CLASSES = ["never", "late", "close", "refuse", "inorder"]
# client filters that are not transparent (one process per kind); what the stage does per call: harness/cmd/muxdrive/faultfilter.go
FAULT_FILTERS = {"fpre": ["pass", "err", "invoke"], "fpost": ["pass", "err", "invoke"],
                 "flegacy": ["pass", "err-before", "skip", "err-after", "again", "swallow"],
                 "fmw": ["pass", "err-before", "skip", "err-after", "again", "swallow"]}
FAULT_CLASSES = ["never", "late", "close", "refuse", "inorder"]
C09F_INV = ["NoResidue", "TDeadlineF", "AcctQueue", "AcctMgr", "AcctResp", "TimelyReply"]
TIMED = {"TDeadline", "TimelyReply"}      # verdicts that depend on recorded times: reported only if reproduced three times
# connection.invokeNum (transport) is one of "the in-flight counters": a value other than 0 after quiescence is reported.
TRANSPORT_INVOKENUM_IS_RESIDUE = True
F21 = "C09:deadline-overrun:concurrent-callers-dial-blackhole"


def shift_after(t, c, ms):
    """The same run with everything from caller c's UnregBegin on recorded `ms` later."""
    out, on = [], False
    for e in t:
        if e["e"] == "UnregBegin" and e["c"] == c:
            on = True
        if on and "t" in e:
            e = dict(e, t=e["t"] + ms)
            if e["e"] == "CallEnd" and e["c"] == c:
                e["ms"] = e["ms"] + ms
        out.append(e)
    return out


def timeout_behind_stray(traces):
    """A recorded run in which a caller that was answered at once (behind a duplicate of somebody else's reply) is made to end
    with a timeout at its deadline instead; None if no run lends itself to it."""
    for t in traces:
        cfg = t[0]
        if cfg["cls"] != "hol" or t[-1]["e"] != "Quiesce":
            continue
        sends = [e for e in t if e["e"] == "PeerSend"]
        first_dup = next((e["q"] for i, e in enumerate(sends) if any(x["id"] == e["id"] for x in sends[:i])), None)
        if first_dup is None:
            continue
        for end in [e for e in t if e["e"] == "CallEnd" and e["k"] == "reply" and e["p"] > first_dup]:
            c, q = end["c"], end["p"]
            ps = [e for e in sends if e["q"] == q][0]
            t0 = [e["t"] for e in t if e["e"] == "CallStart" and e["c"] == c][0]
            dl = t0 + cfg["to"][c - 1]
            if ps["t"] + 250 > dl or sum(1 for e in sends if e["id"] == ps["id"]) != 1:
                continue
            mine = lambda e: e.get("c") == c and e["e"] in ("UnregBegin", "Unregistered", "CallEnd")
            moved = []
            for e in t:
                if mine(e):
                    e = dict(e, t=max(e["t"], dl))
                    if e["e"] == "UnregBegin":
                        e.update(k="timeout", p=0)
                    if e["e"] == "CallEnd":
                        e.update(k="timeout", p=0, rid=0, tag=0, ms=max(e["ms"], cfg["to"][c - 1]))
                    moved.append(e)
            rest = [e for e in t[:-1] if not mine(e) and not (e["e"] == "RecvDelivered" and e["q"] == q)]
            out, k = [], 0
            for e in rest:
                while k < len(moved) and moved[k]["t"] < e.get("t", 0):
                    out.append(moved[k])
                    k += 1
                out.append(e)
            out += moved[k:]
            return out + [dict(t[-1], t=max(t[-1]["t"], dl))]
    return None


# ------------------------------------------------------------------ runs with client filters that are not transparent
def is_ff(t):
    return t[0].get("flt") in FAULT_FILTERS


def cfg_text_filt(nc, invariants):
    t = open(os.path.join(VERIF, "spec", mux.SPEC, "TraceFilt.cfg.tmpl")).read().replace("@NC@", str(nc))
    return re.sub(r"^INVARIANTS.*$", "INVARIANTS " + " ".join(invariants), t, flags=re.M)


def bucket_filt(ctx, traces, name, timeout, max_failures=8):
    """mux.bucket against Trace_ClientFilt."""
    idx = list(range(len(traces)))
    failures, states, trans, tinv, early = [], 0, 0, {}, {}
    cfg = cfg_text_filt(max(mux.nc_of(t) for t in traces), C09F_INV)
    while idx:
        ok, bad, r = tracecheck.run_once(ctx, mux.SPEC, "Trace_ClientFilt", cfg, [traces[i] for i in idx], name, {"e": "End"}, timeout, None, False)
        states += r.distinct
        trans += r.generated
        for m in re.finditer(r'<<"TINV", (-?\d+), (-?\d+), (-?\d+)>>', r.out):
            tinv[int(m.group(1))] = (int(m.group(2)), int(m.group(3)))
        for m in re.finditer(r'<<"EARLY", (-?\d+), (\d+), (\d+)>>', r.out):
            early[int(m.group(1))] = (int(m.group(2)), int(m.group(3)))
        if ok:
            break
        k, off, inv = bad
        t = traces[idx[k]]
        failures.append({"index": idx[k], "offset": off, "event": (t[off] if off < len(t) else {"e": "End"}),
                         "invariant": ["TDeadline" if i == "TDeadlineF" else i for i in inv], "prefix": t[max(0, off - 6):off + 1]})
        idx.pop(k)
        if len(failures) >= max_failures:
            break
    return failures, {"states": states, "transitions": trans, "early": early}, tinv


def validate_filt(ctx, traces, name, groups=3, timeout=1500):
    """Like mux.validate: (failures, stats, tinv) for runs with a client filter that is not transparent."""
    buckets = {}
    for i, t in enumerate(traces):
        buckets.setdefault(i % groups, []).append(t)
    failures, st, tinv = [], {"states": 0, "transitions": 0, "early": {}}, {}
    if not traces:
        return failures, st, tinv
    with ThreadPoolExecutor(max_workers=len(buckets)) as ex:
        for ts, (fails, s, tv) in ex.map(lambda it: (it[1], bucket_filt(ctx, it[1], "%s-%d" % (name, it[0]), timeout)), list(buckets.items())):
            st["states"] += s["states"]
            st["transitions"] += s["transitions"]
            st["early"].update(s["early"])
            tinv.update(tv)
            failures += [(ts[f["index"]], f) for f in fails]
    return failures, st, tinv


def stage_summary(traces):
    """Per filter kind and action of the stage: how the calls ended as their callers saw it; plus what the traces show of each path."""
    calls, paths = {}, {}
    for t in traces:
        flt = t[0]["flt"]
        regs = {}
        for e in t:
            if e["e"] == "RegBegin":
                regs[e["c"]] = regs.get(e["c"], 0) + 1
        for e in t:
            if e["e"] != "CallEnd":
                continue
            d = calls.setdefault(flt, {}).setdefault(e.get("fa", ""), {})
            d[e["k"]] = d.get(e["k"], 0) + 1
            n = regs.get(e["c"], 0)
            path = ("ended-by-the-stage-without-invoking" if e["k"] == "filtered" and n == 0 else
                    "outcome-overridden-after-invoking" if e["k"] == "filtered" else
                    "invoked-%d-times" % n if n != 1 else "passed-through")
            p = paths.setdefault(flt, {})
            p[path] = p.get(path, 0) + 1
    return calls, paths


def require_stage_coverage(calls, paths):
    """Vacuity guard: every action of every kind was taken, and the paths they are meant to reach were reached."""
    for flt, acts in FAULT_FILTERS.items():
        missing = [a for a in acts if not calls.get(flt, {}).get(a)]
        if missing:
            raise Inconclusive("client filter kind '%s': no call met the action(s) %s" % (flt, missing))
        need = ["invoked-2-times"] + (["ended-by-the-stage-without-invoking", "outcome-overridden-after-invoking"] if flt in ("flegacy", "fmw") else [])
        gone = [p for p in need if not paths.get(flt, {}).get(p)]
        if gone:
            raise Inconclusive("client filter kind '%s': no call took the path(s) %s" % (flt, gone))


def selftests_filt(ctx, traces):
    """Corrupted copies of an accepted run in which the stage ended a call without invoking must be rejected."""
    base = None
    for t in traces:
        regs = {e["c"] for e in t if e["e"] == "RegBegin"}
        ended = [e for e in t if e["e"] == "CallEnd" and e["k"] == "filtered" and e["c"] not in regs]
        if ended and t[-1]["e"] == "Quiesce" and t[-1]["mgr"] == 0:
            base, end = t, ended[0]
            break
    if base is None:
        raise Inconclusive("no run suitable for the binding self-test of the filter stage")
    cases = {
        "rejected-call-leaves-manager-invokeNum-1": (base[:-1] + [dict(base[-1], mgr=1)], "NoResidue"),
        "callend-of-the-rejected-call-dropped": ([e for e in base if e is not end], None),
    }

    def one(item):
        n, (t, want) = item
        fails, _, _ = bucket_filt(ctx, [t], "stf-" + re.sub(r"[^a-z0-9]+", "-", n)[:24], 300)
        if not fails:
            raise Inconclusive("binding self-test failed: corrupted trace '%s' was accepted" % n)
        inv = fails[0]["invariant"]
        if want and want not in inv:
            raise Inconclusive("binding self-test '%s': rejected, but by %s instead of %s" % (n, inv, want))
        return n, "rejected" + (":" + inv[0] if inv else ":no-step-for:" + str(fails[0]["event"].get("e")))

    with ThreadPoolExecutor(max_workers=len(cases)) as ex:
        return dict(ex.map(one, cases.items()))


def selftests_c09(ctx, traces):
    base = None
    for t in traces:
        if t[0]["cls"] in ("inorder", "dup", "never", "late") and 2 <= t[0]["k"] <= 8 and t[-1]["e"] == "Quiesce":
            base = t
            break
    if base is None:
        raise Inconclusive("no trace suitable for the binding self-test")
    c = [e for e in base if e["e"] == "Unregistered"][0]["c"]
    extra = {}
    held = timeout_behind_stray(traces)
    if held is not None:
        extra["answered-call-times-out-behind-a-duplicate"] = (held, "TimelyReply")
    elif any(t[0]["cls"] == "hol" for t in traces):
        raise Inconclusive("no 'hol' run lends itself to the TimelyReply self-test")
    return mux.require_all_rejected(ctx, C09_INV, {
        **extra,
        "unregistered-event-dropped": ([e for e in base if not (e["e"] == "Unregistered" and e["c"] == c)], None),
        "queueLen-1-at-quiescence": (base[:-1] + [dict(base[-1], ql=1)], "NoResidue"),
        "pending-entry-at-quiescence": (base[:-1] + [dict(base[-1], pend=1)], "NoResidue"),
        "manager-invokeNum-1-at-quiescence": (base[:-1] + [dict(base[-1], mgr=1)], "NoResidue"),
        "call-returns-3s-late": (shift_after(base, c, 3000), "TDeadline"),
    })


def run(ctx):
    ctx.level = "model_checking"
    ctx.assumptions = [
        "effective deadline = context deadline if the caller's context has one, else the per-call timeout, else the configured timeout",
        "bound judged on the real code: effective deadline + dial timeout of the run + 500 ms scheduling slack + 5 % (timer wheel); "
        "the send queue is never full (no write-timeout wait)",
        "model time: a successful or refused connection attempt takes no time, an attempt to a black-holed address takes DialBound",
        "quiescence = every call returned, the peer finished its script, every receiver goroutine finished (waited for, not assumed)",
    ]
    quick = ctx.quick
    # the timing wheel behind the read / write timeouts (spec/TimeWheel, checks/timewheel.py) runs alongside
    from checks import timewheel
    twex = ThreadPoolExecutor(max_workers=1)
    twf = twex.submit(timewheel.run, ctx, "C09")
    clean = (["c09_ideal", "residue", "transport_polite", "c09_read0", "c09_dup"] if quick else
             ["c09_ideal_t", "residue_t", "residue", "transport_polite", "c09_read0", "c09_read0_t", "c09_dup", "c09_dup_t"])
    kf = {"c09_kf_serialdial": "DeadlineInv", "transport_kf": "TransportBack", "c09_kf_inline": "ReplyInTime"}
    fclean = ["filt", "filt_timed"] if quick else ["filt_t", "filt_timed_t"]
    with ThreadPoolExecutor(max_workers=4) as mcex:
        futs = mux.start_mc(ctx, mcex, clean + list(kf), workers=ctx.pick(2, 4), timeout=ctx.pick(900, 3000))
        kf["filt_kf_leak"] = "NoResidue"
        for c in fclean + ["filt_kf_leak"]:     # the filter stage (ClientFilt)
            futs[c] = mcex.submit(tlc.run, ctx, mux.SPEC, "MC_ClientFilt", cfg="MC_%s.cfg" % c, workers=ctx.pick(2, 4),
                                  timeout=ctx.pick(900, 3000), name="mc-" + c)
        exe = gobuild.build(ctx, "muxdrive")
        rc, so, se = sh([exe, "probe"], timeout=60)
        blackhole = "blackhole: ok" in so
        classes = [c for c in C09_CLASSES if blackhole or not c.startswith("blackhole")]
        per, maxk, shards = ctx.pick(5, 30), ctx.pick(32, 128), ctx.pick(8, 10)
        ctx.log("harness built; blackhole available: %s" % blackhole)
        with ThreadPoolExecutor(max_workers=4) as dex:
            fx = dex.submit(mux.drive, ctx, exe, FAULT_CLASSES, ctx.pick(3, 8), 8, 1, "c09ff", False, list(FAULT_FILTERS), False, 300000)
            fe = dex.submit(mux.drive, ctx, exe, EDGE_CLASSES, ctx.pick(2, 10), 8, ctx.pick(3, 6), "c09edge", False, None, True, 200000)
            ff = dex.submit(mux.drive, ctx, exe, FILTER_CLASSES, ctx.pick(1, 4), 8, 1, "c09flt", False, mux.FILTERS, False, 100000)
            traces, hits = mux.drive(ctx, exe, classes, per, maxk, shards, "c09")
            etraces, _ = fe.result()
            ftraces, fhits = ff.result()
            xtraces, xhits = fx.result()
        traces += etraces + ftraces
        hits.update({k: v for k, v in list(fhits.items()) + list(xhits.items()) if k.startswith("filter:")})
        ctx.log("%d runs recorded (%d in boundary configurations, %d with a transparent client filter, %d with one that is not)"
                % (len(traces) + len(xtraces), len(etraces), len(ftraces), len(xtraces)))
        stage_calls, stage_paths = stage_summary(xtraces)
        bh = [t for t in traces if t[0]["cls"] == "blackholeK"]
        rest = [t for t in traces if t[0]["cls"] != "blackholeK"]
        with ThreadPoolExecutor(max_workers=3) as ex:
            f1 = ex.submit(mux.validate, ctx, rest, C09_INV, "c09", ctx.pick(3, 6))
            f2 = ex.submit(mux.validate, ctx, bh, C09_INV, "c09bh", 1, 1500, True)
            f3 = ex.submit(validate_filt, ctx, xtraces, "c09ff", ctx.pick(3, 6))
            failures, st, tinv = f1.result()
            fb, stb, tinvb = f2.result()
            fx_, stx, tinvx = f3.result()
        failures += fb + fx_
        tinv.update(tinvb)
        tinv.update(tinvx)
        early = dict(st["early"], **stb["early"])
        early.update(stx["early"])
        ctx.log("traces validated: %d rejected" % len(failures))
        bad = {id(t) for t, _ in failures}
        selftest = selftests_c09(ctx, [t for t in traces if id(t) not in bad])
        try:
            selftest.update(selftests_filt(ctx, [t for t in xtraces if id(t) not in bad]))
            require_stage_coverage(stage_calls, stage_paths)
        except Inconclusive as e:
            # a tree that breaks the property on these paths can also upset the self-test's base run: the verdict on the real runs comes first
            if not fx_:
                raise
            selftest["filter-stage"] = "skipped: " + str(e)[:200]
        traces += xtraces
        ctx.log("self-tests done")
        mc = mux.collect_mc(futs, kf)
        ctx.log("model checking done")
    overruns = {}
    for t, f in failures:
        cfg = t[0]
        cls, inv = mux.cls_of(t), (f["invariant"][0] if f["invariant"] else None)
        if inv == "TDeadline":
            sig = F21 if (cls == "blackholeK" and cfg["k"] > 1) else "C09:deadline-overrun:%s" % cls
            if f["event"].get("e") == "Hung":
                sig = "C09:call-never-returned:%s" % cls
            overruns.setdefault(sig, []).append((t, f))
            continue
        if inv == "TimelyReply":
            overruns.setdefault("C09:stray-reply-holds-up-other-calls:%s" % cls, []).append((t, f))
            continue
        q = t[-1]
        if inv == "NoResidue":
            which = "+".join(n for n, k in (("queueLen", "ql"), ("manager-invokeNum", "mgr"), ("pending-table", "pend")) if q.get(k, 0) != 0)
            sig = "C09:residue:%s:%s" % (which or "unknown", cls)
            what = "after quiescence of a '%s' run (%d callers): queueLen=%s endpointManager.invokeNum=%s pending entries=%s" % (
                cls, cfg["k"], q.get("ql"), q.get("mgr"), q.get("pend"))
            ended = [e for e in t if e["e"] == "CallEnd" and e["k"] == "filtered"]
            if is_ff(t) and not ended:
                what += "; what the client filter stage (%s) did per call and how the call ended for its caller: %s" % (
                    cfg["flt"], sorted((e["c"], e["fa"], e["k"]) for e in t if e["e"] == "CallEnd"))
            if is_ff(t) and ended:
                # calls that the filter stage ended: the peer's behaviour is beside the point, the branch of the filter if-chain is not
                regs = {e["c"] for e in t if e["e"] == "RegBegin"}
                by = {}
                for e in ended:
                    key = "%s (%s)" % (e["fa"], "never invoked" if e["c"] not in regs else "after invoking")
                    by[key] = by.get(key, 0) + 1
                sig = "C09:residue:%s:call-ended-by-%s-filter" % (which or "unknown", cfg["flt"])
                what += "; %d of the %d calls were ended by the client filter stage (%s; actions of the stage: %s), the others: %s" % (
                    len(ended), cfg["k"], {"fpre": "RegisterPreClientFilter", "fpost": "RegisterPostClientFilter", "flegacy": "RegisterClientFilter",
                                           "fmw": "UseClientFilterMiddleware"}[cfg["flt"]], by,
                    sorted((e["fa"], e["k"]) for e in t if e["e"] == "CallEnd" and e["k"] != "filtered"))
        elif inv:
            sig = "C09:accounting:%s:%s" % (inv, cls)
            what = "run of class '%s' violates %s at event %s" % (cls, inv, json.dumps(f["event"]))
        else:
            ev = f["event"]
            sig = "C09:trace-rejected:%s:%s" % (cls, ev.get("e"))
            what = "run of class '%s' (%d callers) is not a behaviour of ClientMux at event %s" % (cls, cfg["k"], json.dumps(ev))
            if ev.get("e") == "UnregBegin" and ev.get("k") == "timeout":
                c = ev["c"]
                t0 = [e["t"] for e in t if e["e"] == "CallStart" and e["c"] == c][0]
                if ev["t"] < t0 + cfg["to"][c - 1]:
                    sig = "C09:timeout-before-effective-deadline:%s" % cfg["modes"][c - 1]
                    what = ("a call whose effective deadline is %d ms (%s; configured timeout %d ms) was ended with a timeout error after %d ms"
                            % (cfg["to"][c - 1], {"ctx": "context deadline", "call": "per-call timeout", "cfg": "configured timeout"}[cfg["modes"][c - 1]],
                               cfg["cfgto"], ev["t"] - t0))
        ctx.violate(sig, what, mux.describe(t, f))
    # a deadline overrun counts only if the same scenario overruns in three further runs
    rerun_log = {}
    for sig, lst in overruns.items():
        t, f = lst[0]
        idx = t[0]["sc"]
        inv = f["invariant"][0]
        with ThreadPoolExecutor(max_workers=3) as ex:
            again = list(ex.map(lambda i: mux.rerun_trace(ctx, exe, t, "c09-%d" % i), range(3)))
        fa, _, _ = validate_filt(ctx, again, "c09rr", 3, 600) if is_ff(t) else mux.validate(ctx, again, C09_INV, "c09rr", 1, 600, True)
        rej = sum(1 for _, f2 in fa if f2["invariant"] and f2["invariant"][0] == inv)
        worst = [max([e["ms"] for e in a if e["e"] == "CallEnd"] or [0]) for a in again]
        rerun_log[sig] = {"scenario": idx, "reproduced": rej, "of": 3, "slowest_call_ms": worst}
        if rej == 3:
            ends = sorted((e["ms"], e["c"], e["k"], e.get("err", "")) for e in t if e["e"] == "CallEnd")
            cfg = t[0]
            what = ("%d concurrent callers (effective deadlines %s ms, dial timeout %d ms, peer: %s) returned after %s ms; bound = deadline + "
                    "dial timeout + 500 ms + 5 %%" % (cfg["k"], sorted(set(cfg["to"])), cfg["dial"], cfg["listen"], [e[0] for e in ends]))
            hung = [e["c"] for e in t if e["e"] == "Hung"]
            if hung:
                what = ("callers %s of %d (effective deadlines %s ms, peer class '%s', ClientReadTimeout %d ms, ClientWriteTimeout %d ms, dial "
                        "timeout %d ms, ObjQueueMax %d) had not returned %d ms after the run began" % (
                            hung, cfg["k"], sorted(set(cfg["to"])), mux.cls_of(t), cfg["rt"], cfg.get("wt", 3000), cfg["dial"], cfg["qmax"],
                            t[-1]["t"]))
            if inv == "TimelyReply":
                # the state that violates the invariant follows the UnregBegin{timeout} before the reported position
                uev = next(e for e in reversed(t[:f["offset"] + 1]) if e["e"] == "UnregBegin" and e["k"] == "timeout")
                c = uev["c"]
                t0 = [e["t"] for e in t if e["e"] == "CallStart" and e["c"] == c][0]
                rid = uev["id"]
                sent = [e for e in t if e["e"] == "PeerSend" and e["id"] == rid and e["tag"] == c]
                got = [e["t"] for e in t if e["e"] == "NetRecv" and sent and e["q"] == sent[0]["q"]]
                nto = sum(1 for e in t if e["e"] == "CallEnd" and e["k"] == "timeout")
                what = ("caller %d of %d (deadline %d ms after its start at %d ms; ClientReadTimeout %d ms) ended with a timeout at %d ms although "
                        "the peer wrote the reply carrying its id at %d ms on a connection that stayed open; the client's read loop handed that "
                        "packet over at %s ms, behind a duplicate / late / foreign packet written earlier; %d calls of the run timed out" % (
                            c, cfg["k"], cfg["to"][c - 1], t0, cfg["rt"], uev["t"], sent[0]["t"] if sent else -1,
                            got[0] if got else "no time before the end of the run:", nto))
            d = mux.describe(t, f)
            d["runs_with_this_signature"] = len(lst)
            ctx.violate(sig, what, d)
        else:
            ctx.notes.append("deadline overrun in scenario %d (%s) did not reproduce 3 times (%d/3): not reported" % (idx, sig, rej))
    # connection.invokeNum
    tres = {"unanswered-request": [], "unsolicited-or-duplicate-reply": [], "differs-from-model": []}
    bysc = {t[0]["sc"]: t for t in traces}
    for sc, (obs, pred) in sorted(tinv.items()):
        if obs != pred:
            tres["differs-from-model"].append(sc)
        if obs > 0:
            tres["unanswered-request"].append(sc)
        elif obs < 0:
            tres["unsolicited-or-duplicate-reply"].append(sc)
    if TRANSPORT_INVOKENUM_IS_RESIDUE:
        for kind in ("unanswered-request", "unsolicited-or-duplicate-reply"):
            for sc in tres[kind][:1]:
                t = bysc[sc]
                nd = sum(1 for e in t if e["e"] == "Dequeued")
                nr = sum(1 for e in t if e["e"] == "NetRecv")
                ctx.violate("C09:residue:transport-invokeNum:%s" % kind,
                            "after quiescence of a '%s' run (%d callers, every call returned) connection.invokeNum = %d: %d requests written, "
                            "%d packets received (%d runs of this kind)" % (t[0]["cls"], t[0]["k"], tinv[sc][0], nd, nr, len(tres[kind])),
                            {"scenario": sc, "config": t[0], "quiesce": t[-1], "trace": t[:300]})
    if len(tres["differs-from-model"]) >= 2:
        # the two recorded deviations of this counter are exactly "requests written minus packets received"; a counter that is
        # something else after quiescence is a different residue (one run alone may be a packet still on its way)
        sc = tres["differs-from-model"][0]
        t = bysc[sc]
        nd = sum(1 for e in t if e["e"] == "Dequeued")
        nr = sum(1 for e in t if e["e"] == "NetRecv")
        ctx.violate("C09:residue:transport-invokeNum:not-requests-minus-packets",
                    "after quiescence of a '%s' run (%d callers, every call returned) connection.invokeNum = %d although %d requests were written "
                    "and %d packets received (expected %d); %d runs deviate like this" % (t[0]["cls"], t[0]["k"], tinv[sc][0], nd, nr, tinv[sc][1],
                                                                                         len(tres["differs-from-model"])),
                    {"scenario": sc, "config": t[0], "quiesce": t[-1], "trace": t[:300]})
    elif tres["differs-from-model"]:
        ctx.notes.append("connection.invokeNum differs from requests written - packets received in scenarios %s" % tres["differs-from-model"][:10])
    ncalls = sum(t[0]["k"] for t in traces)
    outcomes = {}
    slow = 0
    for t in traces:
        for e in t:
            if e["e"] == "CallEnd":
                key = e["k"] + (":" + e["err"] if e.get("err") else "")
                outcomes[key] = outcomes.get(key, 0) + 1
                slow = max(slow, e["ms"] - t[0]["to"][e["c"] - 1])
    sample = next((t for t in traces if t[0]["cls"] == "never" and t[0]["k"] <= 3), traces[0])
    if early:
        ctx.notes.append("calls that ended with a timeout although the peer had written their reply 250 ms before the deadline -- on a "
                         "connection that was closed meanwhile, or with ClientReadTimeout = 0 (the code as it is offers nothing then), or with no "
                         "stray packet ahead of the reply (statement silent): %d calls in scenarios %s"
                         % (sum(n - h for n, h in early.values()), sorted(early)[:10]))
    # what the framework makes of an error returned by a pre / post client filter is its own choice (the statement is silent)
    went_on = {flt: sum(n for k, n in stage_calls.get(flt, {}).get("err", {}).items() if k != "filtered") for flt in ("fpre", "fpost")}
    stopped = {flt: stage_calls.get(flt, {}).get("err", {}).get("filtered", 0) for flt in ("fpre", "fpost")}
    ctx.notes.append("an error returned by a pre / post client filter: the call went on to doInvoke and its caller got the outcome of the "
                     "call in %s calls, the call was ended with the filter's error in %s calls (statement silent on which: both accepted)"
                     % (went_on, stopped))
    # ---- one-way calls: the same path up to the send, no wait; judged at quiescence like every other call (Oracle_OneWay)
    from lib import oracle
    owf = os.path.join(ctx.sub("oneway"), "oneway.ndjson")
    sh([exe, "oneway", "-out", owf, "-n", str(ctx.pick(12, 48))], timeout=600)
    owres = oracle.judge(ctx, mux.SPEC, "Oracle_OneWay", "OracleOneWay.cfg", [owf], par=1, timeout=300, name="oneway-oracle")
    owrecs = [json.loads(l) for l in open(owf)]
    if owres["total"] != 9:
        raise Inconclusive("one-way stage: %d records instead of 9" % owres["total"])
    names = ["queueLen", "manager-invokeNum", "pending-table"]
    for _, _, rec in owres["bad"]:
        if rec["calls"] == 0 or rec["oneway"] == 0:
            raise Inconclusive("one-way stage: no calls made against the %s peer" % rec["peer"])
        if rec["maxms"] > rec["boundms"]:
            ctx.violate("C09:deadline-overrun:one-way-call:%s" % rec["peer"],
                        "a call of the %s run against the peer that %s returned after %d ms (bound %d ms)"
                        % (rec["mode"], rec["peer"], rec["maxms"], rec["boundms"]), {"kind": "oneway", "record": rec})
        if rec["after"] != rec["before"]:
            which = "+".join(n for n, a, b in zip(names, rec["after"], rec["before"]) if a != b)
            ctx.violate("C09:residue:%s:one-way-call:%s" % (which, rec["peer"]),
                        "after %d calls (%d one-way, %d ended with an error; %s) against the peer that %s, with every call returned: "
                        "queueLen / manager invokeNum / pending-reply entries = %s, before the run %s"
                        % (rec["calls"], rec["oneway"], rec["errs"], rec["mode"], rec["peer"], rec["after"], rec["before"]),
                        {"kind": "oneway", "record": rec})
    ow_st = oracle.selftest(ctx, mux.SPEC, "Oracle_OneWay", "OracleOneWay.cfg", owrecs,
                            lambda i, rec: dict(rec, after=[rec["after"][0] + 1] + rec["after"][1:]) if i % 4 == 0 else None,
                            name="oneway-selftest")
    tw = twf.result()
    twex.shutdown()
    ctx.assumptions.append("timing wheel: After and the tick are recorded under tw.lock, the close after the unlock is the only "
                           "unlogged step; a rejected run counts only when a second recording is rejected at the same kind of event")
    ctx.coverage = {
        "timing_wheel": tw,
        "one_way_calls": {"runs": owrecs, "selftest": ow_st,
                          "rule": "12 / 48 calls per run, one-way only (serial, concurrent) or mixed with two-way calls, against peers that "
                                  "read and never answer, close at once, refuse; every call in time, counters back at quiescence"},
        "states": sum(v.get("distinct", 0) for v in mc.values()) + st["states"] + stb["states"],
        "transitions": sum(v.get("generated", 0) for v in mc.values()) + st["transitions"] + stb["transitions"],
        "traces_validated_against_impl": len(traces),
        "samples": [sample[:60]],
        "evaluations": ncalls, "distinct_nontrivial": len({json.dumps([(e["e"], e.get("c"), e.get("q"), e.get("k")) for e in t]) for t in traces}),
        "rule": "runs: %d scenarios of classes %s, 1..%d callers on one proxy, timeouts 50-300 ms (configured / per call / context deadline "
                "shorter and longer); %d runs in boundary configurations %s (ClientReadTimeout 0, ClientWriteTimeout 0, dial timeout 1 ms, "
                "ObjQueueMax 0/1, deadlines of 0.3 and 1 ms; the same goroutine calls again afterwards); %d runs with a transparent client "
                "filter (%s) over %s; %d runs with a client filter that is not transparent (%s: per call an error before the call, nil / an "
                "error without invoking, an error or nil of its own after invoking, invoking once more) over %s with 1..8 callers, validated "
                "against Trace_ClientFilt; evaluations = calls judged against their deadline, for residue and for replies held up by stray "
                "packets; distinct = distinct event orders"
                % (len(traces), classes, maxk, len(etraces), EDGE_CLASSES, len(ftraces), mux.FILTERS, FILTER_CLASSES, len(xtraces),
                   sorted(FAULT_FILTERS), FAULT_CLASSES),
        "filter_stage": {"runs": {f: sum(1 for t in xtraces if t[0]["flt"] == f) for f in FAULT_FILTERS},
                         "calls_by_action_and_outcome": stage_calls, "paths_taken": stage_paths,
                         "pre_post_filter_error": {"call_went_on": went_on, "call_ended_with_the_filters_error": stopped},
                         "panicking_filter": "not driven: TarsInvoke's deferred CheckPanic exits the process"},
        "observations": {"timeouts_although_answered_250ms_early": {str(k): {"calls": v[0], "behind_a_stray_packet": v[1]} for k, v in
                                                                     sorted(early.items())[:20]},
                         "read_timeout_0_runs": sum(1 for t in etraces if t[0]["rt"] == 0)},
        "stray_packets_ahead_of_a_timely_reply_runs": sum(1 for t in traces if t[0]["cls"] == "hol"),
        "model_checking": mc, "call_outcomes": outcomes, "largest_excess_over_deadline_ms": slow,
        "blackhole_available": blackhole, "deadline_overrun_reruns": rerun_log,
        "transport_invokeNum_nonzero_runs": {k: len(v) for k, v in tres.items()},
        "quiescence_counters_read": len(traces),
        "hook_hits": hits, "selftest_corrupted_traces": selftest, "exhaustive": False,
    }
