"""C01 — end-to-end call transparency through generated proxy and dispatcher.

Spec: spec/CallPipeline (per call a client-side and a server-side program counter, filter events in
registration order per mode, opaque transported values; invariants ImplSeesCaller, CallerSeesImpl, ExactlyOnce,
FilterOrder; MC over filter modes with 2 concurrent calls, two-way/one-way, success/failure).
Binding B1: a real server started through the public API with the dispatcher that the tars2go built from the
working tree generates for idl/Call.tars (10 functions over every IDL type: scalars incl. unsigned, strings,
byte vectors, nested vectors, maps, structs, enums, fixed arrays inside structs, cross-module types) and a
recording implementation; a real generated proxy shared by 8 concurrent callers; recording pass-through
filters of every kind.  Arguments are random values built by reflection; what the caller passed / the
implementation received / produced / the caller got back are canonical strings that TLC compares (so equality
is decided by the specification's invariants); one-way calls, failures with tars.Error codes and plain errors,
random request/response context and status maps.  One child process per filter configuration.
Every child process makes three kinds of runs: a *staged* run (no filter registered, calls, a group of registrations,
calls, ... until the configuration is complete: Reg events; the model's FilterOrder is about the filters registered when
the call was made), a *serial* run (one call at a time through every generated entry point -- Fn, FnWithContext,
FnOneWayWithContext -- with 0, 1 or 2 option maps), a short *large* run (8 concurrent calls whose requests and/or
replies carry a string or byte vector of 4-64 KiB: longer than the transports' read buffers) and the concurrent runs
with everything registered.  Events are
attributed to calls through the key vcall looked for in the context *and* in the status map (a call whose maps arrive
exchanged must show up as that call's ImplSeesCaller violation); an event that cannot be attributed is rejected by TLC.
"""
import json
import os
from concurrent.futures import ThreadPoolExecutor

from lib import codecgen, gobuild, tlc, tracecheck
from lib.core import Inconclusive, VERIF, sh

SPEC = "CallPipeline"
# (client mode, server mode, nc, ns)
CONFIGS = [("none", "none", 0, 0), ("legacy", "legacy", 1, 1), ("mw", "mw", 2, 2), ("prepost", "prepost", 2, 2),
           ("mw", "prepost", 3, 1), ("prepost", "mw", 1, 3), ("none", "prepost", 0, 2), ("legacy", "none", 1, 0),
           ("none", "none", 0, 0)]   # the last one is the many-callers run: 32 callers, many short rounds


def split(path, kinds=None):
    traces, cur = [], []
    for line in open(path):
        e = json.loads(line)
        if e["e"] == "Reset":
            traces.append(cur)
            if kinds is not None:
                kinds.append(e.get("kind", ""))
            cur = []
        else:
            cur.append(e)
    return traces


def _in_order(seq):
    """filter events of one call on one side so far: 1..a on the way in, then a'..1 (exit) or 1..b (post)"""
    ins = [i for ph, i in seq if ph in ("enter", "pre")]
    outs = [(ph, i) for ph, i in seq if ph in ("exit", "post")]
    if ins != list(range(1, len(ins) + 1)) or [x for x in seq if x[0] in ("exit", "post")] != seq[len(ins):]:
        return False
    o = [i for _, i in outs]
    if outs and outs[0][0] == "post":
        return o == list(range(1, len(o) + 1))
    return all(o[k] - 1 == o[k + 1] for k in range(len(o) - 1))


def culprit(t, f):
    """Which event names the failure (for the signature only; the verdict is TLC's).  A rejected trace stops in front of
    the event that is not a step.  A violated invariant holds in the state *after* the last consumed event (the one before
    the stop) or after a silent step taken for the call of the event at the stop (a call that moved on past filters it
    should have shown: FilterOrder)."""
    off = f["offset"]
    cur = f["event"]
    inv = (f["invariant"] or [None])[0]
    prev = t[off - 1] if 0 < off <= len(t) else None
    if inv is None or prev is None:
        return cur
    want = {"ImplSeesCaller": ("Impl",), "CallerSeesImpl": ("CallEnd",), "ExactlyOnce": ("Impl",), "WrittenOK": ("Written",),
            "TypeOK": ("CF", "SF")}.get(inv)
    if want:
        return prev if prev["e"] in want else cur
    if inv == "FilterOrder" and prev["e"] in ("CF", "SF"):
        seq = [(e["ph"], e["i"]) for e in t[:off] if e["e"] == prev["e"] and e.get("c") == prev.get("c")]
        if not _in_order(seq) or prev.get("c") == cur.get("c"):
            return prev
    return cur


def run(ctx):
    ctx.level = "model_checking"
    ctx.assumptions = [
        "values cross the harness/TLC boundary as canonical JSON strings (byte-level scalars, sorted maps); nil and empty containers are identified; out parameters are fresh variables",
        "a call is attributed to its events through the key vcall in the request context (looked for in the status map as well; calls without option maps are made one at a time); filters are registered only while no call is under way; pass-through = a legacy filter/middleware calls next exactly once and returns its result, a pre/post filter returns nil",
        "the reply-written hook may be recorded after the caller already has the reply: it is counted, not ordered",
    ]
    tm = open(os.path.join(VERIF, "spec", SPEC, "MC.cfg.tmpl")).read()
    ex = ThreadPoolExecutor(max_workers=4)
    # SpecFull: everything registered before the first call (two values); Spec: registrations between the calls (one value)
    full = [(cm, sm, 2, 2, "SpecFull", '{"a", "b"}') for cm, sm in
            ctx.pick([("mw", "prepost"), ("legacy", "mw")], [("mw", "prepost"), ("legacy", "mw"), ("prepost", "legacy"), ("none", "none")])]
    stagedmc = [(cm, sm, nc, ns, "Spec", '{"a"}') for cm, sm, nc, ns in
                ctx.pick([("mw", "prepost", 1, 1), ("mw", "none", 2, 1)],
                         [("mw", "prepost", 1, 1), ("legacy", "mw", 1, 2), ("prepost", "mw", 1, 2), ("mw", "none", 2, 1), ("prepost", "legacy", 2, 1)])]

    def mccfg(cm, sm, nc, ns, spec, vals):
        return (tm.replace("@CM@", cm).replace("@SM@", sm).replace("@NC@", str(nc)).replace("@NS@", str(ns))
                .replace("@SPEC@", spec).replace("@VALS@", vals))
    mcf = {"%s/%s %d/%d %s" % k[:5]: ex.submit(tlc.run, ctx, SPEC, "CallPipeline", cfg="mc.cfg", workers=2, timeout=900,
                                                name="mc-%s-%s-%s" % (k[0], k[1], k[4]), extra_files={"mc.cfg": mccfg(*k)})
           for k in full + stagedmc}
    h, schema = codecgen.stage(ctx, idl_files=[os.path.join(VERIF, "idl", "Call.tars")], with_res=False)
    exe = gobuild.build(ctx, "calldrive")
    rounds = ctx.pick(4, 40)
    pools = [0, 0, 4, 0, 2, 0, 0, 8, 0]

    def drive(i):
        cm, sm, nc, ns = CONFIGS[i]
        out = os.path.join(ctx.work, "call%d.ndjson" % i)
        stress = i == len(CONFIGS) - 1
        rc, so, se = sh([exe, "-cmode", cm, "-smode", sm, "-nc", str(max(nc, 1)), "-ns", str(max(ns, 1)), "-seed", str(ctx.seed * 100 + i),
                         "-rounds", str(rounds * 6 if stress else rounds), "-per", "48" if stress else "44",
                         "-conc", "32" if stress else str(ctx.pick(8, 24)), "-pool", str(pools[i]), "-out", out], timeout=1200)
        calls, written = [int(x) for x in so.split()[-2:]]
        return i, out, calls, written

    with ThreadPoolExecutor(max_workers=len(CONFIGS)) as exd:
        outs = list(exd.map(drive, range(len(CONFIGS))))
    if any(w == 0 for _, _, _, w in outs):
        raise Inconclusive("hook self-test: tcp.handler.written never fired in some configuration")
    tcfg = open(os.path.join(VERIF, "spec", SPEC, "Trace.cfg.tmpl")).read()

    def cfg_for(i):
        cm, sm, nc, ns = CONFIGS[i]
        return tcfg.replace("@CM@", cm).replace("@SM@", sm).replace("@NC@", str(max(nc, 1))).replace("@NS@", str(max(ns, 1)))

    tkinds = {}

    def val(item):
        i, out, calls, written = item
        tkinds[i] = []
        traces = split(out, tkinds[i])
        return i, traces, tracecheck.validate(ctx, SPEC, "Trace_CallPipeline", cfg_for(i), traces, name="trace-%d" % i, timeout=900)

    states = trans = ntr = ncalls = nreg = 0
    kinds = {}
    bykind = {}
    with ThreadPoolExecutor(max_workers=8) as exv:
        for i, traces, (acc, fails, st) in exv.map(val, outs):
            cm, sm, nc, ns = CONFIGS[i]
            states += st["states"]
            trans += st["transitions"]
            ntr += len(traces)
            for t, tk in zip(traces, tkinds[i]):
                bykind[tk or "concurrent"] = bykind.get(tk or "concurrent", 0) + 1
                if tk == "staged":
                    nreg += sum(1 for e in t if e["e"] == "Reg")
                for e in t:
                    if e["e"] == "CallStart":
                        ncalls += 1
                        k = e["fn"] + ("/oneway" if e["oneway"] else "")
                        kinds[k] = kinds.get(k, 0) + 1
            for f in fails:
                t = traces[f["index"]]
                ev = culprit(t, f)
                fn = next((e["fn"] + ("/oneway" if e["oneway"] else "") for e in t if e["e"] == "CallStart" and e["c"] == ev.get("c")), "?")
                tk = tkinds[i][f["index"]]
                run = {"staged": "registered-in-stages:", "serial": "serial-entry-points:", "large": "large-values:"}.get(tk, "")
                if f["invariant"]:
                    sig = "C01:%s:%s/%s:%s%s" % (f["invariant"][0], cm, sm, run, fn)
                    what = "%s violated for a call of %s with client filters %s, server filters %s%s" % (
                        f["invariant"][0], fn, cm, sm, {"staged": " (filters registered in stages, between the calls)",
                                                        "serial": " (serial calls through every generated entry point with 0-2 option maps)",
                                                        "large": " (strings / byte vectors of 4-64 KiB in requests and replies)"}.get(tk, ""))
                elif "c" in ev and not (isinstance(ev["c"], int) and 1 <= ev["c"] <= 48):
                    sig = "C01:unattributed:%s:%s/%s" % (ev.get("e"), cm, sm)
                    what = "an event %s carries no call id: neither the request context nor the request status holds the caller's key (filters %s/%s): %s" % (
                        ev.get("e"), cm, sm, json.dumps(ev)[:300])
                else:
                    sig = "C01:trace-rejected:%s:%s%s/%s" % (ev.get("e"), run, cm, sm)
                    what = "run is not a behaviour of CallPipeline at event %s (filters %s/%s)" % (json.dumps(ev)[:200], cm, sm)
                calls_ev = [e for e in t if e.get("c") == ev.get("c")]
                ctx.violate(sig, what, {"config": CONFIGS[i], "events_of_call": calls_ev, "offset": f["offset"]})
    # binding self-test: corrupted observations are rejected
    i0, out0, _, _ = outs[2]   # the middleware/middleware configuration
    k0 = []
    tr0 = split(out0, k0)
    base = tr0[k0.index("")]              # a concurrent run, everything registered
    stagedt = tr0[k0.index("staged")]
    selftest = {}

    def variant(name, f, src=None, want=None):
        t = [dict(e) for e in (src or base)]
        if not f(t):
            selftest[name] = "no candidate"
            return
        acc, fails, _ = tracecheck.validate(ctx, SPEC, "Trace_CallPipeline", cfg_for(i0), [t], name="selftest-" + name)
        selftest[name] = "rejected" if fails else "ACCEPTED"
        if not fails:
            raise Inconclusive("binding self-test failed: %s accepted" % name)
        if want and fails[0]["invariant"][:1] != [want]:
            raise Inconclusive("binding self-test failed: %s rejected, but not by %s (%r)" % (name, want, fails[0]["invariant"]))

    def m_ret(t):
        for e in t:
            if e["e"] == "CallEnd" and e["ok"] and e["v"] != "oneway":
                e["v"] = e["v"].replace("]", ",7]", 1)
                return True

    def m_got(t):
        for e in t:
            if e["e"] == "Impl":
                e["got"] = e["got"].replace('"vcall"', '"vcalL"', 1)
                return True

    def m_twice(t):
        for k, e in enumerate(t):
            if e["e"] == "Impl":
                t.insert(k + 1, dict(e))
                return True

    def m_order(t):
        idx = [k for k, e in enumerate(t) if e["e"] == "SF" and e["ph"] == "enter"]
        for a in idx:
            for b in idx:
                if t[a]["c"] == t[b]["c"] and t[a]["i"] == 1 and t[b]["i"] == 2 and a < b:
                    t[a]["i"], t[b]["i"] = 2, 1
                    return True

    def m_oneway_reply(t):
        for k, e in enumerate(t):
            if e["e"] == "CallStart" and e["oneway"]:
                t.insert(len(t), {"e": "Written", "c": e["c"]})
                return True

    def later_skipped(side):
        # what a chain frozen at its first use looks like: the filter registered last never sees the calls made afterwards
        def f(t):
            regs = [k for k, e in enumerate(t) if e["e"] == "Reg" and e["side"] == side[0].lower()]
            if len(regs) < 2:
                return False
            top = t[regs[-1]]["nin"]
            n0 = len(t)
            t[:] = [e for k, e in enumerate(t) if not (k > regs[-1] and e["e"] == side and e["i"] == top)]
            return len(t) < n0
        return f

    def m_swapped(t):
        # context and status exchanged on the way to the implementation
        for e in t:
            if e["e"] == "Impl":
                g = json.loads(e["got"])
                if g["ctx"] != g["status"]:
                    g["ctx"], g["status"] = g["status"], g["ctx"]
                    e["got"] = json.dumps(g, sort_keys=True, separators=(",", ":"))
                    return True

    def m_unattributed(t):
        for e in t:
            if e["e"] == "Impl":
                e["c"] = 0
                return True

    variants = [("client-filter-registered-later-sees-nothing", later_skipped("CF"), stagedt, "FilterOrder"),
                ("server-filter-registered-later-sees-nothing", later_skipped("SF"), stagedt, "FilterOrder"),
                ("context-and-status-exchanged", m_swapped, None, "ImplSeesCaller"),
                ("event-without-call-id", m_unattributed, None, None),
                ("return-value-altered", m_ret, None, "CallerSeesImpl"), ("received-args-altered", m_got, None, "ImplSeesCaller"),
                ("implementation-invoked-twice", m_twice, None, None), ("server-filters-out-of-order", m_order, None, "FilterOrder"),
                ("reply-to-oneway", m_oneway_reply, None, "WrittenOK")]
    with ThreadPoolExecutor(max_workers=5) as exs:
        for fu in [exs.submit(variant, *v) for v in variants]:
            fu.result()
    mc = {}
    for k, f in mcf.items():
        r = tlc.require_clean(f.result(), "CallPipeline MC %s" % k)
        mc[k] = {"distinct": r.distinct, "generated": r.generated}
    ex.shutdown()
    ctx.coverage = {
        "states": sum(v["distinct"] for v in mc.values()) + states,
        "transitions": sum(v["generated"] for v in mc.values()) + trans,
        "traces_validated_against_impl": ntr,
        "samples": [[{k: (v if not isinstance(v, str) or len(v) < 300 else v[:300] + "...") for k, v in e.items()} for e in base[:12]]],
        "evaluations": ncalls, "distinct_nontrivial": ncalls,
        "rule": "each call has random arguments (reflection over the generated parameter types), random context/status maps and a "
                "unique id; distinct = calls (argument values differ with overwhelming probability); %d filter configurations x (%d concurrent rounds "
                "+ 1 staged-registration round + 1 serial round) x <= 44 calls + 1 round of 8 calls with large values" % (len(CONFIGS), rounds),
        "runs_by_kind": bykind, "registration_events_in_staged_runs": nreg,
        "calls_by_function": kinds, "filter_configurations": ["%s/%s nc=%d ns=%d" % c for c in CONFIGS],
        "model_checking": mc, "selftest_corrupted_traces": selftest, "exhaustive": False,
    }
