"""C01 — end-to-end call transparency through generated proxy and dispatcher.

Spec: spec/CallPipeline (per call a client-side and a server-side program counter, filter events in
registration order per mode, opaque transported values; invariants ImplSeesCaller, CallerSeesImpl, ExactlyOnce,
FilterOrder; MC over filter modes with 2 concurrent calls, two-way/one-way, success/failure).
Binding B1: a real server started through the public API with the dispatcher that the tars2go built from the
working tree generates for idl/Call.tars (10 functions over every IDL type: scalars incl. unsigned, strings,
byte vectors, nested vectors, maps, structs, enums, fixed arrays inside structs, cross-module types) and a
recording implementation; a real generated proxy shared by 8 concurrent callers; recording pass-through
filters of every kind.  Arguments are random values built by reflection; what the caller passed / the
implementation received / produced / the caller got back are canonical strings that TLC compares (so equality
is decided by the specification's invariants); one-way calls, failures with tars.Error codes and plain errors,
random request/response context and status maps.  One child process per filter configuration.
"""
import json
import os
from concurrent.futures import ThreadPoolExecutor

from lib import codecgen, gobuild, tlc, tracecheck
from lib.core import Inconclusive, VERIF, sh

SPEC = "CallPipeline"
# (client mode, server mode, nc, ns)
CONFIGS = [("none", "none", 0, 0), ("legacy", "legacy", 1, 1), ("mw", "mw", 2, 2), ("prepost", "prepost", 2, 2),
           ("mw", "prepost", 3, 1), ("prepost", "mw", 1, 3), ("none", "prepost", 0, 2), ("legacy", "none", 1, 0),
           ("none", "none", 0, 0)]   # the last one is the many-callers run: 32 callers, many short rounds


def split(path):
    traces, cur = [], []
    for line in open(path):
        e = json.loads(line)
        if e["e"] == "Reset":
            traces.append(cur)
            cur = []
        else:
            cur.append(e)
    return traces


def run(ctx):
    ctx.level = "model_checking"
    ctx.assumptions = [
        "values cross the harness/TLC boundary as canonical JSON strings (byte-level scalars, sorted maps); nil and empty containers are identified; out parameters are fresh variables",
        "a call is attributed to its events through the key vcall in the request context; pass-through = a legacy filter/middleware calls next exactly once and returns its result, a pre/post filter returns nil",
        "the reply-written hook may be recorded after the caller already has the reply: it is counted, not ordered",
    ]
    tm = open(os.path.join(VERIF, "spec", SPEC, "MC.cfg.tmpl")).read()
    ex = ThreadPoolExecutor(max_workers=4)
    mcf = {(cm, sm): ex.submit(tlc.run, ctx, SPEC, "CallPipeline", cfg="mc.cfg", workers=2, timeout=900, name="mc-%s-%s" % (cm, sm),
                               extra_files={"mc.cfg": tm.replace("@CM@", cm).replace("@SM@", sm)})
           for cm, sm in ctx.pick([("mw", "prepost"), ("legacy", "mw")], [("mw", "prepost"), ("legacy", "mw"), ("prepost", "legacy"), ("none", "none")])}
    h, schema = codecgen.stage(ctx, idl_files=[os.path.join(VERIF, "idl", "Call.tars")], with_res=False)
    exe = gobuild.build(ctx, "calldrive")
    rounds = ctx.pick(4, 40)
    pools = [0, 0, 4, 0, 2, 0, 0, 8, 0]

    def drive(i):
        cm, sm, nc, ns = CONFIGS[i]
        out = os.path.join(ctx.work, "call%d.ndjson" % i)
        stress = i == len(CONFIGS) - 1
        rc, so, se = sh([exe, "-cmode", cm, "-smode", sm, "-nc", str(max(nc, 1)), "-ns", str(max(ns, 1)), "-seed", str(ctx.seed * 100 + i),
                         "-rounds", str(rounds * 6 if stress else rounds), "-per", "48" if stress else "44",
                         "-conc", "32" if stress else str(ctx.pick(8, 24)), "-pool", str(pools[i]), "-out", out], timeout=1200)
        calls, written = [int(x) for x in so.split()[-2:]]
        return i, out, calls, written

    with ThreadPoolExecutor(max_workers=len(CONFIGS)) as exd:
        outs = list(exd.map(drive, range(len(CONFIGS))))
    if any(w == 0 for _, _, _, w in outs):
        raise Inconclusive("hook self-test: tcp.handler.written never fired in some configuration")
    tcfg = open(os.path.join(VERIF, "spec", SPEC, "Trace.cfg.tmpl")).read()

    def cfg_for(i):
        cm, sm, nc, ns = CONFIGS[i]
        return tcfg.replace("@CM@", cm).replace("@SM@", sm).replace("@NC@", str(max(nc, 1))).replace("@NS@", str(max(ns, 1)))

    def val(item):
        i, out, calls, written = item
        traces = split(out)
        return i, traces, tracecheck.validate(ctx, SPEC, "Trace_CallPipeline", cfg_for(i), traces, name="trace-%d" % i, timeout=900)

    states = trans = ntr = ncalls = 0
    kinds = {}
    with ThreadPoolExecutor(max_workers=8) as exv:
        for i, traces, (acc, fails, st) in exv.map(val, outs):
            cm, sm, nc, ns = CONFIGS[i]
            states += st["states"]
            trans += st["transitions"]
            ntr += len(traces)
            for t in traces:
                for e in t:
                    if e["e"] == "CallStart":
                        ncalls += 1
                        k = e["fn"] + ("/oneway" if e["oneway"] else "")
                        kinds[k] = kinds.get(k, 0) + 1
            for f in fails:
                t = traces[f["index"]]
                ev = f["event"]
                fn = next((e["fn"] for e in t if e["e"] == "CallStart" and e["c"] == ev.get("c")), "?")
                if f["invariant"]:
                    sig = "C01:%s:%s/%s:%s" % (f["invariant"][0], cm, sm, fn)
                    what = "%s violated for a call of %s with client filters %s, server filters %s" % (f["invariant"][0], fn, cm, sm)
                else:
                    sig = "C01:trace-rejected:%s:%s/%s" % (ev.get("e"), cm, sm)
                    what = "run is not a behaviour of CallPipeline at event %s (filters %s/%s)" % (json.dumps(ev)[:200], cm, sm)
                calls_ev = [e for e in t if e.get("c") == ev.get("c")]
                ctx.violate(sig, what, {"config": CONFIGS[i], "events_of_call": calls_ev, "offset": f["offset"]})
    # binding self-test: corrupted observations are rejected
    i0, out0, _, _ = outs[2]   # the middleware/middleware configuration
    base = split(out0)[0]
    selftest = {}

    def variant(name, f):
        t = [dict(e) for e in base]
        if not f(t):
            selftest[name] = "no candidate"
            return
        acc, fails, _ = tracecheck.validate(ctx, SPEC, "Trace_CallPipeline", cfg_for(i0), [t], name="selftest-" + name)
        selftest[name] = "rejected" if fails else "ACCEPTED"
        if not fails:
            raise Inconclusive("binding self-test failed: %s accepted" % name)

    def m_ret(t):
        for e in t:
            if e["e"] == "CallEnd" and e["ok"] and e["v"] != "oneway":
                e["v"] = e["v"].replace("]", ",7]", 1)
                return True

    def m_got(t):
        for e in t:
            if e["e"] == "Impl":
                e["got"] = e["got"].replace('"vcall"', '"vcalL"', 1)
                return True

    def m_twice(t):
        for k, e in enumerate(t):
            if e["e"] == "Impl":
                t.insert(k + 1, dict(e))
                return True

    def m_order(t):
        idx = [k for k, e in enumerate(t) if e["e"] == "SF" and e["ph"] == "enter"]
        for a in idx:
            for b in idx:
                if t[a]["c"] == t[b]["c"] and t[a]["i"] == 1 and t[b]["i"] == 2 and a < b:
                    t[a]["i"], t[b]["i"] = 2, 1
                    return True

    def m_oneway_reply(t):
        for k, e in enumerate(t):
            if e["e"] == "CallStart" and e["oneway"]:
                t.insert(len(t), {"e": "Written", "c": e["c"]})
                return True

    for name, f in (("return-value-altered", m_ret), ("received-args-altered", m_got), ("implementation-invoked-twice", m_twice),
                    ("server-filters-out-of-order", m_order), ("reply-to-oneway", m_oneway_reply)):
        variant(name, f)
    mc = {}
    for k, f in mcf.items():
        r = tlc.require_clean(f.result(), "CallPipeline MC %s/%s" % k)
        mc["%s/%s" % k] = {"distinct": r.distinct, "generated": r.generated}
    ex.shutdown()
    ctx.coverage = {
        "states": sum(v["distinct"] for v in mc.values()) + states,
        "transitions": sum(v["generated"] for v in mc.values()) + trans,
        "traces_validated_against_impl": ntr,
        "samples": [[{k: (v if not isinstance(v, str) or len(v) < 300 else v[:300] + "...") for k, v in e.items()} for e in base[:12]]],
        "evaluations": ncalls, "distinct_nontrivial": ncalls,
        "rule": "each call has random arguments (reflection over the generated parameter types), random context/status maps and a "
                "unique id; distinct = calls (argument values differ with overwhelming probability); %d filter configurations x %d rounds x 44 calls"
                % (len(CONFIGS), rounds),
        "calls_by_function": kinds, "filter_configurations": ["%s/%s nc=%d ns=%d" % c for c in CONFIGS],
        "model_checking": mc, "selftest_corrupted_traces": selftest, "exhaustive": False,
    }
