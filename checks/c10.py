"""C10 — the server answers each well-formed request exactly once with matching identity.

Spec: spec/ServerInvoke/ServerInvoke.tla — (1) the relation Resp(request, configuration): number of replies,
echoed id / version / packet type, conveyed result (ping, success, implementation error with its code and
message, queue timeout, handle timeout), whether the implementation may run; (2) the server as a state machine
shaped like the code (receive loop, goroutine per request or FIFO queue + workers, Protocol.Invoke step by step,
TarsServer.invoke with the invoker goroutine / timer / shared rsp variable / InvokeTimeout, the handler reading
the packet type from the Current and writing).  MC: every request shape alone, all pairs and (thorough) triples
under pool 0/1/2 x handle timeout off/on: AtMostOnce, NoStrayReply, SafeSoFar, AtQuiescence (= Resp for every
request once everything has come to rest), termination; the three deviations of the pinned tree (F8-F10) and the
residual timer-before-decode race are switchable and must each break the clause they are named after.
Binding B1/B3: the real server, started through the public API (config file, AddServantWithContext, tars.Run) in
a child process per configuration, is driven by a scripted raw client (TCP pipelined over several connections,
UDP datagrams); a recording servant counts implementation entries; gates inside the servant make the timing
classes (queued past its own timeout, far beyond the handle timeout) deterministic.  Every frame that comes back
is decoded inside TLC by the strict reference decoder (TarsSchema with the schemas of requestf.ResponsePacket /
RequestPacket from lib/idl2schema.py) and judged by ServerInvoke!Faults (Oracle_ServerInvoke.tla).
Process-wide registrations are part of the configuration: besides pool / handle timeout / transport the corpus is sent to
servers with observer (pass-through) server filters registered - the legacy tars.RegisterServerFilter, pre and post
filters, filter middlewares, all of them together - and to a servant registered without context (AddServant); every
request kind (ping, unknown function, one-way, TARS/TUP/JSON, queue and handle timeouts) must occur under each of them.
The relation owes the same replies whatever is registered (MC_vg_pingfilter: a model in which a registered legacy
filter sends the ping to the dispatcher must break ResultConveyed).
"""
import json
import os
import re
import struct
from concurrent.futures import ThreadPoolExecutor

from lib import gobuild, idl2schema, oracle, tlc
from lib.core import REPO, VERIF, Inconclusive, sh

SPEC = "ServerInvoke"
DEPS = ["TarsWire", "TarsSchema"]
HT_MS = 150


# ------------------------------------------------------------------ staging / driving
def stage(ctx):
    h = gobuild.stage_harness(ctx)
    rc, so, se = gobuild.tars2go(ctx, [os.path.join(VERIF, "idl", "Srv.tars")], "gen", "verifharness", cwd=h)
    if rc != 0 or not os.path.exists(os.path.join(h, "gen", "Srv", "Svc.tars.go")):
        raise Inconclusive("tars2go failed on idl/Srv.tars:\n%s%s" % (so[-2000:], se[-2000:]))
    return gobuild.build(ctx, "srvdrive")


STAGES = {"none": 0, "legacy": 1, "prepost": 4, "mw": 2, "all": 1}     # filter stages a dispatched call passes


def full(conf):
    """(proto, pool, ht, rounds, per, conns[, filters, servant]) -> the 8-tuple (replays recorded before filters existed have 6)."""
    conf = tuple(conf)
    return conf + ("none", "ctx")[len(conf) - 6:] if len(conf) < 8 else conf


def variant(conf):
    """The process-wide registrations of a configuration, as a label; '' = nothing registered, servant with context."""
    filt, servant = conf[6], conf[7]
    lab = [] if filt == "none" else [filt + "-filter" if filt in ("legacy", "all") else {"prepost": "pre-post-filters", "mw": "filter-middlewares"}[filt]]
    if servant != "ctx":
        lab.append("servant-without-context")
    return "+".join(lab)


def cfgname(conf):
    return "%s/pool%d/ht%d" % conf[:3] + ("/" + variant(conf) if variant(conf) else "")


def drive(ctx, exe, conf, seed, tag):
    proto, pool, ht, rounds, per, conns, filt, servant = conf
    d = ctx.sub("drv-%s" % tag)
    out = os.path.join(d, "recs.ndjson")
    rc, so, se = sh([exe, "run", "-proto", proto, "-pool", str(pool), "-ht", str(ht), "-filters", filt, "-servant", servant, "-seed", str(seed),
                     "-rounds", str(rounds), "-per", str(per), "-conns", str(conns), "-out", out], timeout=900, check=False, cwd=d)
    if rc != 0:
        dumps = sorted(f for f in os.listdir(d) if f.startswith("panic."))
        if dumps:      # tars.CheckPanic: the framework dumped the stack and exited while serving well-formed requests
            msg = open(os.path.join(d, dumps[0]), errors="replace").read(4000)
            raise ServerExit(conf, seed, msg)
        raise Inconclusive("srvdrive %s failed (rc %d): %s %s" % (tag, rc, so[-1500:], se[-1500:]))
    summ = json.loads(so.strip().splitlines()[-1])
    if summ["maxroutine"] != pool or summ["handletimeout_ms"] != ht:
        raise Inconclusive("server configuration was not taken by the framework: %s" % summ)
    if summ["filters"] != filt or summ["servant"] != servant or summ["filter_stages_per_call"] != STAGES[filt]:
        raise Inconclusive("driver did not take the filter / servant configuration: %s" % summ)
    if proto == "tcp" and (summ["hook_handleConn"] != summ["sent"] or summ["hook_invoked"] != summ["sent"]):
        raise Inconclusive("hook self-test: tcp.handleConn / tcp.handler.invoked did not fire once per request: %s" % summ)
    return out, summ


class ServerExit(Exception):
    def __init__(self, conf, seed, msg):
        Exception.__init__(self, msg)
        self.conf, self.seed, self.msg = conf, seed, msg


WHY_RE = re.compile(r'<<\s*(\d+),\s*(-?\d+),\s*"([\w-]+)",\s*"([\w-]+)",\s*"([\w-]+)"\s*>>')


def judge(ctx, path, extra, name):
    total, bad, r = oracle.judge_file(ctx, SPEC, "Oracle_ServerInvoke", "Oracle.cfg", path, name, timeout=1500, extra_files=extra, deps=DEPS)
    m = re.search(r'<<\s*"WHY"\s*,(.*?)>>\s*<<\s*"FRAMES"\s*,\s*(\d+)\s*>>', r.out, re.S)
    if not m:
        raise Inconclusive("oracle output not understood:\n%s" % "\n".join(r.out.splitlines()[-20:]))
    why = [(int(a), int(k), cl, sit, ver) for a, k, cl, sit, ver in WHY_RE.findall(m.group(1))]
    if sorted({w[0] for w in why}) != sorted(bad):
        raise Inconclusive("oracle WHY/Bad mismatch")
    return total, why, int(m.group(2)), r


def signature(cl, sit, ver):
    # a racy request that lost against the timer was answered by the same timeout path as an over-long one
    s = "C10:%s:%s" % (cl, sit.replace("near-handle-timeout", "handle-timeout"))
    if ver == "tup" and cl == "wrong-result":
        s += ":tup"          # a TUP reply has no result member: its own input class
    return s


def timing_free(cl, sit, conf):
    """Can harness timing (a stalled process, a late packet) explain this fault?  If not it is reported at once."""
    if cl in ("duplicate-reply", "undecodable-reply"):
        return True
    if cl in ("no-reply", "stray-reply") or "timeout" in sit:
        return False
    return conf[2] == 0      # without a handle timeout nothing else depends on time


def load(path):
    return [json.loads(l) for l in open(path)]


def situation(q, conf):
    ht = conf[2] > 0
    if q["tmo"] == "elapsed":
        return "ping-queue-timeout" if q["fn"] == "tars_ping" else "queue-timeout"
    if q["fn"] == "tars_ping":
        return "ping"
    if ht and q["fn"] == "slow" and q["cls"] in ("over", "block"):
        return "handle-timeout"
    if ht and q["fn"] == "slow" and q["cls"] == "near":
        return "near-handle-timeout"
    return {"fail": "impl-error", "nosuch": "unknown-func"}.get(q["fn"], "success")


# ------------------------------------------------------------------ a tiny encoder, only for the corrupted self-test replies
def _head(ty, tag):
    return bytes([tag * 16 + ty]) if tag < 15 else bytes([240 + ty, tag])


def _int(tag, v):
    if v == 0:
        return _head(12, tag)
    if -128 <= v <= 127:
        return _head(0, tag) + struct.pack(">b", v)
    if -32768 <= v <= 32767:
        return _head(1, tag) + struct.pack(">h", v)
    return _head(2, tag) + struct.pack(">i", v)


def enc_response(ver, pt, rid, ret, desc=b""):
    body = _int(1, ver) + _int(2, pt) + _int(3, rid) + _int(4, 0) + _int(5, ret) + _head(13, 6) + _head(0, 0) + _int(0, 0) \
        + _head(8, 7) + _int(0, 0)
    if desc:
        body += _head(6, 8) + bytes([len(desc)]) + desc
    return list(struct.pack(">I", len(body) + 4) + body)


def s32(b):
    return struct.unpack(">i", bytes(b))[0]


# ------------------------------------------------------------------ the check
def _run(ctx):
    ctx.level = "model_checking"
    ctx.assumptions = [
        "timing classes are made by gates inside the recording servant, not by sleeping: 'elapsed' = own timeout 1-3 ms, queued behind gated "
        "blockers that occupy every pool worker for >= 60 ms after the server took the request; 'over' = the implementation returns only after "
        "the server has given up on it; 'near' = about the handle timeout, either outcome accepted",
        "a fast handler (ok/fail/ping/unknown) finishes within the handle timeout of %d ms; faults that harness timing could explain are "
        "reported only when the same configuration and seed reproduces them three times out of three" % HT_MS,
        "model: the handle timeout is longer than it takes the invoker goroutine to decode the request (TimerAfterDecode); without that "
        "assumption a one-way request can still be answered by the timeout path (MC_kf_early_timer shows it)",
        "a TUP reply (a RequestPacket) conveys its result in the status map (STATUS_RESULT_CODE / STATUS_RESULT_DESC); absent = success",
        "replies are attributed to requests by connection and request id (ids are unique per run)",
        "the server filters registered in the filter configurations are observers: the legacy filter and the middlewares pass the call on and "
        "return its error, pre and post filters return nil; with such filters (or a servant registered without context) the same replies are "
        "owed as without them; which requests a filter gets to see (pings, queue timeouts) is recorded as an observation, not judged",
    ]
    replay = json.load(open(ctx.replay)).get("replay", {}) if ctx.replay else None
    ex = ThreadPoolExecutor(max_workers=4)
    mc_cfgs = ctx.pick(["single", "pair_safety"], ["single", "pair", "triple"])
    kf_cfgs = {"kf_blank": "IdentityEchoed", "kf_late": "OnewaySilent", "kf_tup": "ResultConveyed", "kf_early_timer": "OnewaySilent",
               "vg_pingfilter": "ResultConveyed"}
    if replay is not None:
        mc_cfgs, kf_cfgs = [], {}
    futs = {c: ex.submit(tlc.run, ctx, SPEC, "MC_ServerInvoke", cfg="MC_%s.cfg" % c, workers=ctx.pick(3, 6) if c in ("pair", "pair_safety", "triple") else 1,
                         timeout=ctx.pick(300, 1500), name="mc-" + c, heap="4g" if c == "triple" else "2g") for c in mc_cfgs + list(kf_cfgs)}

    exe = stage(ctx)
    ht = HT_MS
    # process-wide registrations under which the whole corpus is repeated: (filters, servant)
    variants = [("legacy", "ctx"), ("prepost", "ctx"), ("mw", "ctx"), ("all", "ctx"), ("none", "plain")]
    if ctx.quick:
        confs = [("tcp", 0, 0, 7, 28, 3), ("tcp", 1, 0, 7, 28, 2), ("tcp", 2, ht, 6, 28, 4), ("tcp", 0, ht, 7, 28, 1),
                 ("tcp", 1, ht, 5, 28, 3), ("udp", 0, 0, 7, 28, 2), ("udp", 1, ht, 5, 28, 2), ("udp", 2, 0, 6, 28, 3)]
        confs = [c + ("none", "ctx") for c in confs]
        # each registration with a pool and a handle timeout (so that queue and handle timeouts occur under it), transports and pool sizes
        # rotating with the seed; the legacy filter also without pool and handle timeout
        shapes = [("tcp", 1, ht, 5, 28, 2), ("tcp", 2, ht, 5, 28, 3), ("udp", 1, ht, 5, 28, 2), ("tcp", 1, ht, 5, 28, 3), ("udp", 2, ht, 5, 28, 2)]
        for j, v in enumerate(variants):
            confs.append(shapes[(j + ctx.seed) % len(shapes)] + v)
        confs.append((("tcp", 0, 0, 5, 28, 3), ("udp", 0, 0, 5, 28, 2))[ctx.seed % 2] + ("legacy", "ctx"))
    else:
        confs = []
        for proto in ("tcp", "udp"):
            for pool in (0, 1, 2, 4):
                for h in (0, ht):
                    rounds = 25
                    confs.append((proto, pool, h, rounds, 25, {0: 16, 1: 1, 2: 4, 4: 9}[pool] if proto == "tcp" else 3, "none", "ctx"))
        for v in variants:
            for (proto, pool, h, conns) in (("tcp", 0, 0, 8), ("tcp", 2, 0, 4), ("tcp", 0, ht, 8), ("tcp", 2, ht, 4), ("udp", 1, ht, 3), ("udp", 0, 0, 3)):
                confs.append((proto, pool, h, 16, 25, conns) + v)
    seeds = [ctx.seed * 100 + i for i in range(len(confs))]
    if replay is not None:       # one recorded configuration, with the seed it was recorded under
        confs, seeds = [full(replay["conf"])], [replay["seed"]]
    schema = idl2schema.load([os.path.join(REPO, "tars", "protocol", "res", "RequestF.tars")])
    extra = {"schemas.json": json.dumps({"structs": schema["structs"]})}
    for need in ("requestf.ResponsePacket", "requestf.RequestPacket"):
        if need not in schema["structs"]:
            raise Inconclusive("schema of %s not found in RequestF.tars" % need)

    def one(i, attempt=0):
        conf = confs[i]
        out, summ = drive(ctx, exe, conf, seeds[i], "%d-%d" % (i, attempt))
        total, why, frames, r = judge(ctx, out, extra, "oracle-%d-%d" % (i, attempt))
        return {"conf": conf, "out": out, "summ": summ, "total": total, "why": why, "frames": frames, "tlc": r}

    def guarded(i):
        try:
            return one(i)
        except ServerExit as e:
            return e

    with ThreadPoolExecutor(max_workers=8) as dx:
        runs = list(dx.map(guarded, range(len(confs))))
    exits = [r for r in runs if isinstance(r, ServerExit)]
    if exits:
        from lib.codecfam import panic_class
        for e in exits:
            first = e.msg.strip().splitlines()[0] if e.msg.strip() else "?"
            ctx.violate("C10:server-exit:%s" % panic_class(first), "the server process panicked and exited while serving well-formed requests (%s) "
                        "under %s/pool%d/ht%d: every request in flight stays unanswered" % (first, e.conf[0], e.conf[1], e.conf[2]),
                        {"conf": e.conf, "seed": e.seed, "panic": e.msg})
        ctx.coverage = {"states": 0, "transitions": 0, "traces_validated_against_impl": 0, "samples": [exits[0].msg[:500]],
                        "evaluations": 0, "distinct_nontrivial": 0, "rule": "aborted: the server exited", "server_exits": len(exits)}
        ex.shutdown(wait=True)
        return

    # ---- faults -> signatures.  A fault that harness timing cannot explain is reported at once; the others must reproduce on the
    # same configuration and seed, three out of three.  Of the configurations that showed a timing-dependent fault only a covering
    # subset is re-run (fewest configurations that between them showed every such signature, earlier = plainer ones first); a
    # signature that does not reproduce there is tried on the other configurations that showed it before it is dropped.
    confirmed, unreproduced = {}, {}
    observed, pending = {}, {}
    for i, rn in enumerate(runs):
        sigs = {}
        for (ri, k, cl, sit, ver) in rn["why"]:
            sigs.setdefault((signature(cl, sit, ver), cl, sit), []).append((ri, k, ver))
        rn["sigs"] = sigs
        for (sig, cl, sit), where in sigs.items():
            observed.setdefault(sig, []).append((i, rn, where))
            if timing_free(cl, sit, rn["conf"]):
                confirmed.setdefault(sig, (i, 1))
    for i, rn in enumerate(runs):
        for (sig, cl, sit) in rn["sigs"]:
            if sig not in confirmed:
                pending.setdefault(sig, []).append(i)
    tried = set()
    while True:
        todo = {sig: [i for i in lst if i not in tried] for sig, lst in pending.items() if sig not in confirmed}
        todo = {sig: lst for sig, lst in todo.items() if lst}
        if not todo:
            break
        chosen, uncovered = [], set(todo)
        while uncovered:
            cand = sorted({i for sig in uncovered for i in todo[sig]})
            best = max(cand, key=lambda i: (sum(1 for sig in uncovered if i in todo[sig]), -i))
            chosen.append(best)
            uncovered -= {sig for sig in uncovered if best in todo[sig]}
        ctx.log("re-running %d configuration(s) twice to reproduce timing-dependent faults: %s" % (len(chosen), ", ".join(cfgname(confs[i]) for i in chosen)))
        with ThreadPoolExecutor(max_workers=8) as dx:
            again = list(dx.map(lambda ia: (ia[0], one(ia[0], ia[1])), [(i, a) for i in chosen for a in (1, 2)]))
        tried |= set(chosen)
        for i in chosen:
            others = [{signature(cl, sit, ver) for (_, _, cl, sit, ver) in r2["why"]} for j, r2 in again if j == i]
            for sig, lst in todo.items():
                if i in lst and sig not in confirmed and all(sig in o for o in others):
                    confirmed[sig] = (i, 3)
    for sig, lst in pending.items():
        if sig not in confirmed:
            unreproduced[sig] = [{"conf": runs[i]["conf"], "requests": sum(len(w) for (s2, _, _), w in runs[i]["sigs"].items() if s2 == sig)} for i in lst]
    reported = {}
    vername = {1: "tars", 3: "tup", 5: "json"}
    plain_kinds = {(situation(q, rn["conf"]), vername[q["ver"]]) for rn in runs if not variant(rn["conf"]) for rec in load(rn["out"]) for q in rec["sends"]} \
        if confirmed else set()
    recorded_sig = json.load(open(ctx.replay)).get("signature", "") if ctx.replay else ""
    for sig, (ci, times) in sorted(confirmed.items()):
        lst = sorted(observed[sig], key=lambda t: (t[0] != ci, t[0]))      # the confirming configuration first
        i, rn, where = lst[0]
        recs = load(rn["out"])
        ri, k, ver = where[0]
        rec = recs[ri - 1]
        q = next((s for s in rec["sends"] if s["k"] == k), None)
        vers = sorted({w[2] for l in lst for w in l[2]})
        cfgs = sorted({cfgname(l[1]["conf"]) for l in lst})
        # a fault that only shows under process-wide registrations (filters, servant without context) is its own input class
        # (said only when the configurations with nothing registered exercised the same kind of request and showed no such fault;
        # a replay of one recorded configuration has no such comparison and keeps the suffix of the signature it was recorded under)
        labels = sorted({variant(l[1]["conf"]) for l in lst})
        kinds = {(sit2, w[2]) for l in lst for (s2, _, sit2), ws in l[1]["sigs"].items() if s2 == sig for w in ws}
        only_registered = "" not in labels and bool(kinds & plain_kinds or (kinds == {("-", "-")} and plain_kinds))
        fsig = sig + ":" + "+".join(labels) if only_registered else sig
        if replay is not None and recorded_sig.startswith(sig + ":") and set(labels) <= set(recorded_sig[len(sig) + 1:].split("+")):
            fsig, only_registered = recorded_sig, True
        reported[fsig] = sum(len(l[2]) for l in lst)
        what = "%s — e.g. request %s under %s; versions %s; configurations %s; %d request(s); %s" % (
            DESCR.get(sig.split(":")[1], sig), json.dumps(q) if q else "(none)", rec["cfg"], vers, cfgs,
            reported[fsig], "reproduced 3/3 with the same seed" if times == 3 else "not timing dependent")
        if only_registered:
            what += "; only with these registered in the server process: %s (not in the configurations without)" % ", ".join(labels)
        ctx.violate(fsig, what, {"conf": rn["conf"], "seed": seeds[i], "record": rec, "request": q,
                                 "cmd": "srvdrive run -proto %s -pool %d -ht %d -filters %s -servant %s -seed %d -rounds %d -per %d -conns %d" % (
                                     rn["conf"][0], rn["conf"][1], rn["conf"][2], rn["conf"][6], rn["conf"][7], seeds[i], rn["conf"][3], rn["conf"][4], rn["conf"][5])})

    # ---- coverage accounting (classes actually exercised) and the binding self-test
    classes, nreq, nframes, nrec = {}, 0, 0, 0
    clean = []
    byvar = {}        # registration -> {situation[/oneway]: requests}
    filt_obs = {}     # registration -> what the filters saw (observations; the statement does not say which requests a filter sees)
    for i, rn in enumerate(runs):
        badrecs = {w[0] for w in rn["why"]}
        var = variant(rn["conf"]) or "nothing-registered"
        bv = byvar.setdefault(var, {})
        fo = filt_obs.setdefault(var, {"stage_entries": 0, "dispatched_calls": 0, "dispatched_calls_seen_by_every_stage": 0, "pings": 0, "pings_seen_by_a_filter": 0,
                                       "queue_timeouts_seen_by_a_filter": 0})
        fo["stage_entries"] += sum(rn["summ"]["filter_stage_entries"].values())
        nclean = 0
        for ri, rec in enumerate(load(rn["out"]), 1):
            nrec += 1
            nframes += len(rec["recvs"])
            for q in rec["sends"]:
                nreq += 1
                sit = situation(q, rn["conf"])
                key = "%s/%s/%s" % (sit, {1: "tars", 3: "tup", 5: "json"}[q["ver"]], "oneway" if q["pt"] else "twoway")
                classes[key] = classes.get(key, 0) + 1
                bv[sit] = bv.get(sit, 0) + 1
                if q["pt"]:
                    bv["oneway"] = bv.get("oneway", 0) + 1
                elif sit == "ping":
                    bv["ping/twoway"] = bv.get("ping/twoway", 0) + 1
                bv["version-%d" % q["ver"]] = bv.get("version-%d" % q["ver"], 0) + 1
                if sit in ("ping", "ping-queue-timeout"):
                    fo["pings"] += 1
                    fo["pings_seen_by_a_filter"] += 1 if q.get("filt", 0) else 0
                elif sit == "queue-timeout":
                    fo["queue_timeouts_seen_by_a_filter"] += 1 if q.get("filt", 0) else 0
                else:
                    fo["dispatched_calls"] += 1
                    fo["dispatched_calls_seen_by_every_stage"] += 1 if q.get("filt", 0) == STAGES[rn["conf"][6]] else 0
            if ri not in badrecs and nclean < 60:
                nclean += 1
                clean.append(rec)
    sits = {k.split("/")[0] for k in classes}
    if replay is not None:
        ctx.coverage = {"states": sum(max(rn["tlc"].distinct, 1) for rn in runs), "transitions": sum(max(rn["tlc"].generated, 1) for rn in runs),
                        "traces_validated_against_impl": nrec, "samples": clean[:1], "evaluations": nreq, "distinct_nontrivial": len(classes),
                        "rule": "replay of one recorded configuration and seed", "faults_confirmed": reported,
                        "faults_not_reproduced": unreproduced}
        ex.shutdown()
        return
    for need in ("ping", "success", "impl-error", "unknown-func", "queue-timeout", "handle-timeout"):
        if need not in sits:
            raise Inconclusive("vacuous run: no request in situation %s" % need)
    # every request kind under every registration (queue / handle timeouts where a configuration of it has a pool / a handle timeout)
    for var, bv in byvar.items():
        mine = [rn["conf"] for rn in runs if (variant(rn["conf"]) or "nothing-registered") == var]
        needs = ["ping/twoway", "success", "impl-error", "unknown-func", "oneway", "version-1", "version-3", "version-5"]
        needs += ["queue-timeout"] if any(c[1] > 0 for c in mine) else []
        needs += ["handle-timeout"] if any(c[2] > 0 for c in mine) else []
        for need in needs:
            if not bv.get(need):
                raise Inconclusive("vacuous run: no %s request under registration '%s'" % (need, var))
    for var, fo in filt_obs.items():
        if var not in ("nothing-registered", "servant-without-context") and fo["dispatched_calls_seen_by_every_stage"] == 0:
            raise Inconclusive("vacuous run: the filters registered as '%s' never saw a dispatched call (%s)" % (var, fo))
    st = selftest(ctx, clean, extra, lenient=bool(ctx.violations))

    # ---- model checking results
    mc = {}
    for c in mc_cfgs:
        r = tlc.require_clean(futs[c].result(), "MC_ServerInvoke/" + c)
        mc[c] = {"distinct": r.distinct, "generated": r.generated, "depth": r.depth}
    for c, inv in kf_cfgs.items():
        r = futs[c].result()
        if inv not in r.inv_violated:
            raise Inconclusive("deviation model %s does not violate %s (vacuity guard):\n%s" % (c, inv, "\n".join(r.out.splitlines()[-15:])))
        mc[c] = {"violates": inv, "distinct": r.distinct}
    ex.shutdown()

    sample = None
    for rec in clean:
        if 2 <= len(rec["sends"]) <= 4 and rec["recvs"]:
            sample = rec
            break
    ctx.coverage = {
        "states": sum(v.get("distinct", 0) for v in mc.values()) + sum(max(rn["tlc"].distinct, 1) for rn in runs),
        "transitions": sum(v.get("generated", 0) for v in mc.values()) + sum(max(rn["tlc"].generated, 1) for rn in runs),
        "traces_validated_against_impl": nrec,
        "samples": [sample or (clean[0] if clean else None)],
        "evaluations": nreq,
        "distinct_nontrivial": len(classes),
        "rule": "requests: version TARS/TUP/JSON x normal/one-way x {tars_ping, ok, note, fail(code,msg incl. plain error, codes at the integer width "
                "boundaries, messages around 255 bytes), slow(short/over/near/block), unknown function} x own timeout {0, ample, elapsed while "
                "queued}, ids incl. 0, -1, width boundaries; pipelined in random chunks over the connections; one record per (round, connection); "
                "the whole corpus repeated under process-wide registrations (observer filters: legacy / pre+post / middlewares / all; servant "
                "without context); distinct = (situation, version, one-way?) classes exercised",
        "requests": nreq, "reply_frames_decoded_by_reference": nframes, "records": nrec,
        "configurations": [{"proto": c[0], "pool": c[1], "handle_timeout_ms": c[2], "rounds": c[3], "per_round": c[4], "connections": c[5],
                            "filters": c[6], "servant": c[7]} for c in confs],
        "classes": dict(sorted(classes.items())),
        "request_kinds_by_registration": {v: dict(sorted(bv.items())) for v, bv in sorted(byvar.items())},
        "filter_observations": filt_obs,
        "model_checking": mc,
        "hook_hits": {"tcp.handleConn": sum(rn["summ"]["hook_handleConn"] for rn in runs), "tcp.handler.invoked": sum(rn["summ"]["hook_invoked"] for rn in runs),
                      "tcp.handler.written": sum(rn["summ"]["hook_written"] for rn in runs)},
        "discarded_rounds": sum(rn["summ"]["discarded_rounds"] for rn in runs),
        "rounds_not_quiet": sum(rn["summ"]["rounds_not_quiet"] for rn in runs),
        "faults_confirmed": reported,
        "faults_not_reproduced": unreproduced,
        "selftest_corrupted_records": st,
        "exhaustive": False,
    }


DESCR = {
    "no-reply": "a two-way request was never answered",
    "duplicate-reply": "a two-way request was answered more than once",
    "oneway-answered": "a one-way request was answered",
    "version-not-echoed": "the reply does not carry the request's protocol version",
    "packet-type-not-echoed": "the reply does not carry the request's packet type",
    "wrong-result": "the reply does not convey the result the statement prescribes (return code / message)",
    "executed-but-must-not": "the implementation ran although the request had to be answered without it",
    "stray-reply": "a reply that answers no request of its connection (wrong id)",
    "undecodable-reply": "a frame that the reference decoder cannot read as a ResponsePacket / RequestPacket",
}


def selftest(ctx, clean, extra, lenient=False):
    """Corrupt recorded observations; TLC must reject exactly the corrupted records, each for the expected clause.
    lenient (violations were already observed on this run, so accepted records may be scarce): parts for which no accepted
    record exists are skipped instead of making the run inconclusive."""
    def two_way_ok(rec):   # a clean record: every two-way request has exactly one reply
        return [q for q in rec["sends"] if q["pt"] == 0]

    base = [r for r in clean if len(two_way_ok(r)) >= 2 and len(r["recvs"]) == len(two_way_ok(r))]
    onew = [r for r in clean if any(q["pt"] == 1 for q in r["sends"])]
    if len(base) < 3 or not onew:
        if not lenient:
            raise Inconclusive("self-test: not enough clean records (%d / %d)" % (len(base), len(onew)))
        if len(base) < 3:
            return {"skipped": "the run left fewer than 3 accepted records with two-way requests; the rejections above are the demonstration"}
    recs, expect = [], {}
    skipped = []

    def add(rec, clause=None):
        recs.append(json.loads(json.dumps(rec)))
        if clause:
            expect[len(recs)] = clause
        return recs[-1]

    for r in base[:6]:
        add(r)                                           # untouched: must stay accepted
    # (a) wrong id: the reply of one request re-issued under an id nobody used
    r = add(base[0], {"no-reply", "stray-reply"})
    q = two_way_ok(r)[0]
    keep = [f for f in r["recvs"] if not _has_id(f, q["id"])]
    if len(keep) != len(r["recvs"]) - 1:
        raise Inconclusive("self-test: cannot locate the reply of request %s" % q["k"])
    r["recvs"] = keep + [enc_response(q["ver"] if q["ver"] != 3 else 1, 0, 0x5A5A5A5A, 0)]
    # (b) duplicated reply
    r = add(base[1], {"duplicate-reply"})
    r["recvs"].append(list(r["recvs"][0]))
    # (c) reply to a one-way request
    if onew:
        r = add(onew[0], {"oneway-answered"})
        q = next(q for q in r["sends"] if q["pt"] == 1)
        r["recvs"].append(enc_response(1, 1, s32(q["id"]), 0))
    else:
        skipped.append("reply-to-oneway")
    # (d) reply dropped
    r = add(base[2], {"no-reply"})
    r["recvs"] = r["recvs"][1:]
    # (e) wrong version / wrong result / truncated frame, on re-encoded replies of a TARS two-way success
    for clause, mk in (("version-not-echoed", lambda q: enc_response(5 if q["ver"] == 1 else 1, 0, s32(q["id"]), 0)),
                       ("packet-type-not-echoed", lambda q: enc_response(q["ver"], 1, s32(q["id"]), 0)),
                       ("wrong-result", lambda q: enc_response(q["ver"], 0, s32(q["id"]), -6)),
                       ("undecodable-reply", lambda q: enc_response(q["ver"], 0, s32(q["id"]), 0)[:-1])):
        src = next((r for r in base if any(q["ver"] != 3 and q["fn"] in ("ok", "note", "tars_ping") and q["tmo"] != "elapsed" for q in two_way_ok(r))), None)
        if src is None:
            if lenient:
                skipped.append(clause)
                continue
            raise Inconclusive("self-test: no successful TARS/JSON two-way request among the clean records")
        want = {clause} | ({"no-reply"} if clause == "undecodable-reply" else set())
        r = add(src, want)
        q = next(q for q in two_way_ok(r) if q["ver"] != 3 and q["fn"] in ("ok", "note", "tars_ping") and q["tmo"] != "elapsed")
        kept = [f for f in r["recvs"] if not _has_id(f, q["id"])]
        if len(kept) != len(r["recvs"]) - 1:
            raise Inconclusive("self-test: cannot locate the reply of request %s" % q["k"])
        r["recvs"] = kept + [mk(q)]
    # (f) the implementation ran for a ping
    src = next((r for r in clean if any(q["fn"] == "tars_ping" for q in r["sends"])), None)
    if src is not None:
        r = add(src, {"executed-but-must-not"})
        next(q for q in r["sends"] if q["fn"] == "tars_ping")["impl"] = 1
    # (g) under a registered filter the ping came back from the dispatcher ('func mismatch', return code 1)
    def filtered_ping(q):
        return q["ver"] != 3 and q["fn"] == "tars_ping" and q["tmo"] != "elapsed"
    src = next((r for r in base if r["cfg"].get("filt", "none") != "none" and any(filtered_ping(q) for q in two_way_ok(r))), None)
    if src is None:
        if not lenient:
            raise Inconclusive("self-test: no answered two-way ping under a registered filter among the clean records")
        skipped.append("ping-through-filter")
    else:
        r = add(src, {"wrong-result"})
        q = next(q for q in two_way_ok(r) if filtered_ping(q))
        kept = [f for f in r["recvs"] if not _has_id(f, q["id"])]
        if len(kept) != len(r["recvs"]) - 1:
            raise Inconclusive("self-test: cannot locate the reply of request %s" % q["k"])
        r["recvs"] = kept + [enc_response(q["ver"], 0, s32(q["id"]), 1, b"func mismatch")]
    path = os.path.join(ctx.sub("selftest"), "selftest.ndjson")
    with open(path, "w") as f:
        for r in recs:
            f.write(json.dumps(r) + "\n")
    total, why, frames, _ = judge(ctx, path, extra, "oracle-selftest")
    got = {}
    for (ri, k, cl, sit, ver) in why:
        got.setdefault(ri, set()).add(cl)
    if got != expect:
        raise Inconclusive("binding self-test failed: expected rejections %s, got %s" % (expect, got))
    return {"records": total, "corrupted": len(expect), "rejected_exactly_those_for_the_expected_clause": True,
            "clauses": sorted({c for v in expect.values() for c in v}), "skipped_parts": skipped}


def _has_id(frame, id4):
    """Does this reply frame carry the request id?  Only used to pick the frame the self-test corrupts: a plain walk over the
    leading integer members (ResponsePacket: id under tag 3; RequestPacket, recognised by the string under tag 5: id under tag 4)."""
    b = bytes(frame)
    p, ints_by_tag, kind = 4, {}, "rsp"
    width = {0: 1, 1: 2, 2: 4, 3: 8, 12: 0}
    while p < len(b):
        ty, tag = b[p] & 15, b[p] >> 4
        p += 1
        if tag == 15 or tag > 5:
            break
        if ty in width:
            w = width[ty]
            ints_by_tag[tag] = int.from_bytes(b[p:p + w], "big", signed=True) if w else 0
            p += w
        else:
            if tag == 5 and ty in (6, 7):
                kind = "req"
            break
    return ints_by_tag.get(4 if kind == "req" else 3) == s32(id4)


def run(ctx):
    """C10 proper, with the observation stage on the aggregation of call statistics (checks/statagg.py, spec/StatAgg) alongside:
    Protocol.Invoke files one report per call; the stage never produces a verdict and cannot change the exit code."""
    from checks import statagg
    sx = ThreadPoolExecutor(max_workers=1)
    sf = sx.submit(statagg.run, ctx) if getattr(ctx, "replay", None) is None else None
    try:
        return _run(ctx)
    finally:
        try:
            st = sf.result() if sf is not None else None
        except BaseException as e:      # noqa: the stage is an observer
            st = {"stage_failed": str(e)[:300]}
        sx.shutdown()
        if st is not None and isinstance(getattr(ctx, "coverage", None), dict):
            ctx.coverage["stat_aggregation"] = st
