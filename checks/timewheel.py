"""The timing wheel behind the client's read / write timeouts (tars/util/rtimer) — an extension of C09's subject
("every call returns ... no later than its effective deadline"): TarsClient.Send gives a full send queue up after
rtimer.After(WriteTimeout), AdapterProxy.Recv gives a reply nobody takes up after rtimer.After(ReadTimeout).

Spec: spec/TimeWheel (TimeWheel.tla; MC_s*.cfg exhaustive; Trace_TimeWheel trace validation; Oracle_TimeWheel for the
package-level arithmetic).  Binding: runs of the real wheel recorded through two hooks under tw.lock (rtimer.after,
rtimer.tick) plus the waiters' receives, validated by TLC: a waiter is handed the channel of the slot the model
computes, shares it with exactly the model's waiters, fires never before the swap it is due at, and has fired by the end
of the run; After panics exactly when the quotient does not fit.
"""
import json
import os
import re
from concurrent.futures import ThreadPoolExecutor

from lib import gobuild, tlc, tracecheck, oracle
from lib.core import Inconclusive, sh, VERIF

SPEC = "TimeWheel"
SIZES = (1, 2, 3, 5, 8, 21)


def tmpl(name, **kw):
    s = open(os.path.join(VERIF, "spec", SPEC, name)).read()
    for k, v in kw.items():
        s = s.replace("@%s@" % k, str(v))
    return s


def split_traces(path):
    traces, cur = [], []
    for line in open(path):
        e = json.loads(line)
        if e["e"] == "Reset":
            traces.append(cur)
            cur = []
        else:
            cur.append(e)
    return traces


def corrupt(trace, kind):
    t = [dict(e) for e in trace]
    if kind == "early-fire":      # a receive that returns before the swap the waiter is due at
        for k, e in enumerate(t):
            if e["e"] == "Fired":
                a = [i for i, x in enumerate(t) if x["e"] == "After" and x["w"] == e["w"]]
                if a and any(x["e"] == "Tick" for x in t[a[0]:k]):
                    ev = t.pop(k)
                    t.insert(a[0] + 1, ev)
                    return t
        return None
    if kind == "wrong-slot":
        for e in t:
            if e["e"] == "After" and e["q"] >= 2:
                e["slot"] = (e["slot"] + 1) % max(2, e["slot"] + 2)
                return t
        return None
    if kind == "never-fires":
        for k, e in enumerate(t):
            if e["e"] == "Fired":
                return t[:k] + t[k + 1:]
        return None
    if kind == "guard-off":       # a quotient that does not fit served as if it did
        for e in t:
            if e["e"] == "AfterPanic":
                e["e"] = "After"
                e.update(slot=0, cur=0, same=[])
                return t
        return None
    return None


def run(ctx, pid="C09"):
    """Returns a dict for the evidence; violations are recorded on ctx under the signature prefix `pid:timewheel`."""
    # ---- 1. exhaustive model checking
    cfgs = ctx.pick(["s1", "s2", "s3"], ["s1", "s2", "s3", "s4"])
    mc = {}
    with ThreadPoolExecutor(max_workers=2) as ex:
        futs = {c: ex.submit(tlc.run, ctx, SPEC, "MC_TimeWheel", cfg="MC_%s.cfg" % c, workers=4, timeout=900,
                             name="tw-mc-" + c) for c in cfgs}
        for c, f in futs.items():
            r = tlc.require_clean(f.result(), "MC_TimeWheel/" + c)
            mc[c] = {"distinct": r.distinct, "generated": r.generated, "depth": r.depth}
    # ---- 2. runs of the real wheel
    exe = gobuild.build(ctx, "twdrive")
    n = ctx.pick(12, 120)

    def record_and_validate(seed, tag):
        tdir = ctx.sub("tw-traces-" + tag)
        cmd = [exe, "trace", "-seed", str(seed), "-n", str(n), "-out", tdir]
        rc, so, se = sh(cmd, timeout=1500, check=False)
        if rc != 0:
            # a Go panic raised inside the wheel's own goroutine ends the process, the driver's as well as a client's
            m = re.search(r"^(panic: .*|fatal error: .*)$", se, re.M)
            fn = re.search(r"TarsGo/tars/util/rtimer\.((?:\(\*?\w+\)\.)?\w+)", se)
            if m and fn:
                rc2, _, se2 = sh([exe, "trace", "-seed", str(seed + 7), "-n", str(n), "-out", ctx.sub("tw-traces-" + tag + "2")],
                                 timeout=1500, check=False)
                if rc2 != 0 and m.group(1) in se2:
                    ctx.violate("%s:timewheel:%s:%s" % (pid, re.sub(r"[^A-Za-z0-9]+", "-", m.group(1)).strip("-"), fn.group(1)),
                                "the process running the real timing wheel ended with '%s' raised in rtimer.%s (twice in a row): "
                                "every client of the wheel dies with it" % (m.group(1), fn.group(1)),
                                {"kind": "driver-exit", "cmd": cmd, "stderr": se[-3000:]})
                    return tdir, None
            raise Inconclusive("command failed (%d): %s\n%s" % (rc, " ".join(cmd), se[-3000:]))

        def val(size):
            traces = split_traces(os.path.join(tdir, "trace_s%d.ndjson" % size))
            acc, fails, st = tracecheck.validate(ctx, SPEC, "Trace_TimeWheel", tmpl("Trace.cfg.tmpl", S=size), traces,
                                                 name="tw-trace-%s-s%d" % (tag, size), timeout=900)
            return size, traces, acc, fails, st

        with ThreadPoolExecutor(max_workers=6) as ex:
            return tdir, list(ex.map(val, SIZES))

    tdir, results = record_and_validate(ctx.seed, "a")
    if results is None:
        return {"model_checking": mc, "runs_validated": 0, "driver": "ended by a panic inside rtimer"}
    pkgf = os.path.join(tdir, "pkg.ndjson")
    sh([exe, "pkg", "-out", pkgf, "-max", str(ctx.pick(400, 2000))], timeout=600)
    def bound_rejects(size, trace, tag):
        """Second judgement of a trace the exact specification rejected: does it break what C09 needs of the wheel?"""
        acc, fails, _ = tracecheck.validate(ctx, SPEC, "Trace_TimeWheelBound", tmpl("TraceBound.cfg.tmpl", S=size), [trace],
                                            name="tw-bound-" + tag, timeout=300)
        return fails[0] if fails else None

    def judge(results_, tag):
        """[(size, trace, exact failure, bound failure or None)] for the traces the exact specification rejects."""
        out = []
        for size, traces, acc, fails, st in results_:
            for k, f in enumerate(fails):
                t = traces[f["index"]]
                out.append((size, t, f, bound_rejects(size, t, "%s-%d-%d" % (tag, size, k))))
        return out

    judged = judge(results, "a")
    again = set()
    if any(b for _, _, _, b in judged):
        # the runs are real-time: a rejection counts only when a second recording is rejected at the same kind of event
        _, r2 = record_and_validate(ctx.seed + 1000, "b")
        again = {b["event"].get("e") for _, _, _, b in judge(r2 or [], "b") if b}
        ctx.log("timing wheel: bound broken at", sorted({b["event"].get("e") for _, _, _, b in judged if b}),
                "second recording:", sorted(again))
    validated = events = tstates = 0
    kinds = {}
    unreproduced = []
    deviations = {}
    for size, traces, acc, fails, st in results:
        validated += len(traces)
        tstates += st["states"]
        for t in traces:
            events += len(t)
            for e in t:
                kinds[e["e"]] = kinds.get(e["e"], 0) + 1
    for size, t, f, b in judged:
        ev = f["event"]
        if b is None:
            # the wheel does not follow TimeWheel.tla's arithmetic but keeps the bound: nothing C09 says is broken
            d = deviations.setdefault("%s:%s" % (ev.get("e"), ",".join(f["invariant"]) or "no-step"), {"count": 0, "example": {"size": size, "event": ev}})
            d["count"] += 1
            continue
        bev = b["event"]
        if bev.get("e") not in again:
            unreproduced.append({"size": size, "event": bev})
            continue
        what = ("after-panics-for-a-timeout-that-fits" if bev.get("e") == "AfterPanic"
                else "waiter-not-released-by-its-timeout-plus-a-tick")
        ctx.violate("%s:timewheel:%s" % (pid, what),
                    "recorded run of the real timing wheel (%d slots): %s -- a wait asked for with quotient q is not over by the "
                    "(q+2)-th tick after the one before the call, or a timeout that fits into the wheel is answered with a panic; "
                    "rejected by TimeWheel (at %s) and by the bound C09 needs (at %s), in two recordings"
                    % (size, what, json.dumps(ev), json.dumps(bev)),
                    {"kind": "trace", "size": size, "trace": t, "offset": b["offset"]})
    if deviations:
        ctx.notes.append("timing wheel: %d recorded run(s) do not follow TimeWheel.tla's slot arithmetic but keep the bound C09 needs "
                         "(observation, not a verdict): %s" % (sum(d["count"] for d in deviations.values()), sorted(deviations)))
    for need in ("After", "AfterPanic", "Tick", "Fired"):
        if not kinds.get(need):
            raise Inconclusive("timing wheel runs contain no %s event" % need)
    # ---- 3. the package-level arithmetic, judged by TLC
    res = oracle.judge(ctx, SPEC, "Oracle_TimeWheel", "Oracle.cfg", [pkgf], par=1, timeout=600, name="tw-oracle")
    pkg_dev = 0
    for p, k, rec in res["bad"]:
        if rec["panic"] and rec["a"] > 0 and rec["t"] > 0 and rec["t"] % rec["a"] == 0:
            # every whole number of milliseconds is a multiple of the accuracy: a panic there ends a client's process
            ctx.violate("%s:timewheel:after-panics-for-a-multiple-of-the-accuracy" % pid,
                        "NewTimeWheel(t/a, a+1).After(t) with t=%d ns, accuracy a=%d panics; the reference (PkgLemma) says every "
                        "multiple of the accuracy is served" % (rec["t"], rec["a"]), {"kind": "pkg", "record": rec})
        else:
            pkg_dev += 1
    if pkg_dev:
        ctx.notes.append("timing wheel: %d (duration, accuracy) pairs outside the multiples of the accuracy are treated differently from "
                         "TimeWheel.tla's PkgPanics / Pos (observation)" % pkg_dev)
    # ---- 4. binding self-test: corrupted traces must be rejected
    selftest = {}
    base = [t for size, traces, _, _, _ in results if size == 3 for t in traces]
    for kind in ("early-fire", "wrong-slot", "never-fires", "guard-off"):
        bad = None
        for t in base:
            bad = corrupt(t, kind)
            if bad is not None:
                break
        if bad is None:
            selftest[kind] = "no candidate trace"
            continue
        acc, fails, _ = tracecheck.validate(ctx, SPEC, "Trace_TimeWheel", tmpl("Trace.cfg.tmpl", S=3), [bad],
                                            name="tw-selftest-" + kind, timeout=300)
        selftest[kind] = "rejected" if fails else "ACCEPTED"
        if not fails:
            raise Inconclusive("timing wheel binding self-test failed: corrupted trace (%s) was accepted" % kind)
    # the bound specification rejects what it must: a due waiter that never fires, a fitting timeout answered with a panic
    def bound_candidates(kind):
        for size, traces, _, _, _ in results:
            for t in traces:
                if kind == "never-fires":
                    nt = sum(1 for e in t if e["e"] == "Tick")
                    seen = 0
                    for k, e in enumerate(t):
                        if e["e"] == "Tick":
                            seen += 1
                        if e["e"] == "After" and seen + e["q"] + 2 <= nt and any(x["e"] == "Fired" and x["w"] == e["w"] for x in t):
                            yield size, [x for x in t if not (x["e"] == "Fired" and x["w"] == e["w"])]
                            break
                else:
                    for k, e in enumerate(t):
                        if e["e"] == "After" and e["q"] < size:
                            bad = [dict(x) for x in t if not (x["e"] == "Fired" and x["w"] == e["w"])]
                            bad[k] = {"e": "AfterPanic", "w": e["w"], "q": e["q"]}
                            yield size, bad
                            break
    for kind in ("never-fires", "panic-for-a-timeout-that-fits"):
        cand = next(bound_candidates(kind), None)
        if cand is None:
            raise Inconclusive("timing wheel: no run suitable for the bound self-test (%s)" % kind)
        if bound_rejects(cand[0], cand[1], "selftest-" + kind[:5]) is None:
            raise Inconclusive("timing wheel bound self-test failed: corrupted trace (%s) was accepted" % kind)
        selftest["bound:" + kind] = "rejected"
    return {"model_checking": mc, "runs_validated": validated, "events": events, "event_kinds": kinds,
            "trace_states": tstates, "pkg_records": res["total"], "selftest": selftest,
            "rejections_not_reproduced": unreproduced, "deviations_that_keep_the_bound": deviations,
            "pkg_deviations": pkg_dev,
            "verdict_rule": "a run rejected by Trace_TimeWheel is judged again by Trace_TimeWheelBound (the wait is over by the "
                            "(q+2)-th tick, a fitting timeout is not answered with a panic); only what both reject, in two recordings, "
                            "is a violation; a panic raised inside rtimer that ends the driver twice is one as well"}
