"""The timing wheel behind the client's read / write timeouts (tars/util/rtimer) — an extension of C09's subject
("every call returns ... no later than its effective deadline"): TarsClient.Send gives a full send queue up after
rtimer.After(WriteTimeout), AdapterProxy.Recv gives a reply nobody takes up after rtimer.After(ReadTimeout).

Spec: spec/TimeWheel (TimeWheel.tla; MC_s*.cfg exhaustive; Trace_TimeWheel trace validation; Oracle_TimeWheel for the
package-level arithmetic).  Binding: runs of the real wheel recorded through two hooks under tw.lock (rtimer.after,
rtimer.tick) plus the waiters' receives, validated by TLC: a waiter is handed the channel of the slot the model
computes, shares it with exactly the model's waiters, fires never before the swap it is due at, and has fired by the end
of the run; After panics exactly when the quotient does not fit.
"""
import json
import os
import re
from concurrent.futures import ThreadPoolExecutor

from lib import gobuild, tlc, tracecheck, oracle
from lib.core import Inconclusive, sh, VERIF

SPEC = "TimeWheel"
SIZES = (1, 2, 3, 5, 8, 21)


def tmpl(name, **kw):
    s = open(os.path.join(VERIF, "spec", SPEC, name)).read()
    for k, v in kw.items():
        s = s.replace("@%s@" % k, str(v))
    return s


def split_traces(path):
    traces, cur = [], []
    for line in open(path):
        e = json.loads(line)
        if e["e"] == "Reset":
            traces.append(cur)
            cur = []
        else:
            cur.append(e)
    return traces


def corrupt(trace, kind):
    t = [dict(e) for e in trace]
    if kind == "early-fire":      # a receive that returns before the swap the waiter is due at
        for k, e in enumerate(t):
            if e["e"] == "Fired":
                a = [i for i, x in enumerate(t) if x["e"] == "After" and x["w"] == e["w"]]
                if a and any(x["e"] == "Tick" for x in t[a[0]:k]):
                    ev = t.pop(k)
                    t.insert(a[0] + 1, ev)
                    return t
        return None
    if kind == "wrong-slot":
        for e in t:
            if e["e"] == "After" and e["q"] >= 2:
                e["slot"] = (e["slot"] + 1) % max(2, e["slot"] + 2)
                return t
        return None
    if kind == "never-fires":
        for k, e in enumerate(t):
            if e["e"] == "Fired":
                return t[:k] + t[k + 1:]
        return None
    if kind == "guard-off":       # a quotient that does not fit served as if it did
        for e in t:
            if e["e"] == "AfterPanic":
                e["e"] = "After"
                e.update(slot=0, cur=0, same=[])
                return t
        return None
    return None


def run(ctx, pid="C09"):
    """Returns a dict for the evidence; violations are recorded on ctx under the signature prefix `pid:timewheel`."""
    # ---- 1. exhaustive model checking
    cfgs = ctx.pick(["s1", "s2", "s3"], ["s1", "s2", "s3", "s4"])
    mc = {}
    with ThreadPoolExecutor(max_workers=2) as ex:
        futs = {c: ex.submit(tlc.run, ctx, SPEC, "MC_TimeWheel", cfg="MC_%s.cfg" % c, workers=4, timeout=900,
                             name="tw-mc-" + c) for c in cfgs}
        for c, f in futs.items():
            r = tlc.require_clean(f.result(), "MC_TimeWheel/" + c)
            mc[c] = {"distinct": r.distinct, "generated": r.generated, "depth": r.depth}
    # ---- 2. runs of the real wheel
    exe = gobuild.build(ctx, "twdrive")
    n = ctx.pick(12, 120)

    def record_and_validate(seed, tag):
        tdir = ctx.sub("tw-traces-" + tag)
        cmd = [exe, "trace", "-seed", str(seed), "-n", str(n), "-out", tdir]
        rc, so, se = sh(cmd, timeout=1500, check=False)
        if rc != 0:
            # a Go panic raised inside the wheel's own goroutine ends the process, the driver's as well as a client's
            m = re.search(r"^(panic: .*|fatal error: .*)$", se, re.M)
            fn = re.search(r"TarsGo/tars/util/rtimer\.((?:\(\*?\w+\)\.)?\w+)", se)
            if m and fn:
                rc2, _, se2 = sh([exe, "trace", "-seed", str(seed + 7), "-n", str(n), "-out", ctx.sub("tw-traces-" + tag + "2")],
                                 timeout=1500, check=False)
                if rc2 != 0 and m.group(1) in se2:
                    ctx.violate("%s:timewheel:%s:%s" % (pid, re.sub(r"[^A-Za-z0-9]+", "-", m.group(1)).strip("-"), fn.group(1)),
                                "the process running the real timing wheel ended with '%s' raised in rtimer.%s (twice in a row): "
                                "every client of the wheel dies with it" % (m.group(1), fn.group(1)),
                                {"kind": "driver-exit", "cmd": cmd, "stderr": se[-3000:]})
                    return tdir, None
            raise Inconclusive("command failed (%d): %s\n%s" % (rc, " ".join(cmd), se[-3000:]))

        def val(size):
            traces = split_traces(os.path.join(tdir, "trace_s%d.ndjson" % size))
            acc, fails, st = tracecheck.validate(ctx, SPEC, "Trace_TimeWheel", tmpl("Trace.cfg.tmpl", S=size), traces,
                                                 name="tw-trace-%s-s%d" % (tag, size), timeout=900)
            return size, traces, acc, fails, st

        with ThreadPoolExecutor(max_workers=6) as ex:
            return tdir, list(ex.map(val, SIZES))

    tdir, results = record_and_validate(ctx.seed, "a")
    if results is None:
        return {"model_checking": mc, "runs_validated": 0, "driver": "ended by a panic inside rtimer"}
    pkgf = os.path.join(tdir, "pkg.ndjson")
    sh([exe, "pkg", "-out", pkgf, "-max", str(ctx.pick(400, 2000))], timeout=600)
    failing = {(size, f["event"].get("e")) for size, _, _, fails, _ in results for f in fails}
    again = set()
    if failing:
        # the runs are real-time: a rejection counts only when a second recording is rejected at the same kind of event
        _, r2 = record_and_validate(ctx.seed + 1000, "b")
        again = {f["event"].get("e") for _, _, _, fails, _ in (r2 or []) for f in fails}
        ctx.log("timing wheel: rejected", sorted(failing), "second recording rejected at", sorted(again))
    validated = events = tstates = 0
    kinds = {}
    unreproduced = []
    for size, traces, acc, fails, st in results:
        validated += len(traces)
        tstates += st["states"]
        for t in traces:
            events += len(t)
            for e in t:
                kinds[e["e"]] = kinds.get(e["e"], 0) + 1
        for f in fails:
            ev = f["event"]
            if ev.get("e") not in again:
                unreproduced.append({"size": size, "event": ev})
                continue
            ctx.violate("%s:timewheel:trace-rejected:%s" % (pid, ev.get("e")),
                        "recorded run of the real timing wheel (%d slots) is not a behaviour of TimeWheel: event %s cannot "
                        "happen there (invariant: %s); a second recording is rejected at the same kind of event"
                        % (size, json.dumps(ev), f["invariant"]),
                        {"kind": "trace", "size": size, "trace": traces[f["index"]], "offset": f["offset"],
                         "invariant": f["invariant"]})
    for need in ("After", "AfterPanic", "Tick", "Fired"):
        if not kinds.get(need):
            raise Inconclusive("timing wheel runs contain no %s event" % need)
    # ---- 3. the package-level arithmetic, judged by TLC
    res = oracle.judge(ctx, SPEC, "Oracle_TimeWheel", "Oracle.cfg", [pkgf], par=1, timeout=600, name="tw-oracle")
    for p, k, rec in res["bad"][:5]:
        ctx.violate("%s:timewheel:after:%s" % (pid, "panic" if rec["panic"] else "slot"),
                    "NewTimeWheel(t/a, a+1).After(t) with t=%d ns, accuracy a=%d: panic=%s, %s slots ahead; the reference says otherwise"
                    % (rec["t"], rec["a"], rec["panic"], rec["ahead"]), {"kind": "pkg", "record": rec})
    # ---- 4. binding self-test: corrupted traces must be rejected
    selftest = {}
    base = [t for size, traces, _, _, _ in results if size == 3 for t in traces]
    for kind in ("early-fire", "wrong-slot", "never-fires", "guard-off"):
        bad = None
        for t in base:
            bad = corrupt(t, kind)
            if bad is not None:
                break
        if bad is None:
            selftest[kind] = "no candidate trace"
            continue
        acc, fails, _ = tracecheck.validate(ctx, SPEC, "Trace_TimeWheel", tmpl("Trace.cfg.tmpl", S=3), [bad],
                                            name="tw-selftest-" + kind, timeout=300)
        selftest[kind] = "rejected" if fails else "ACCEPTED"
        if not fails:
            raise Inconclusive("timing wheel binding self-test failed: corrupted trace (%s) was accepted" % kind)
    return {"model_checking": mc, "runs_validated": validated, "events": events, "event_kinds": kinds,
            "trace_states": tstates, "pkg_records": res["total"], "selftest": selftest,
            "rejections_not_reproduced": unreproduced}
