"""C05 — decoder totality: arbitrary bytes never crash, hang or exhaust the process.

Spec: spec/TarsSchema — the reference decoder is total on byte sequences and rejects a length that exceeds
the remaining input before allocating (the design rule the implementation is measured against); Oracle_Dec
judges class agreement (ok/err, value) on every input small enough for TLC and the allocation bound
alloc <= 1024*len + 64 KiB.  Physical outcomes (panic, fatal error, hang, allocation) are observed by a
crash-isolated worker process running the real decoders under an address-space limit.
Corpora: every byte string up to length 3 over a reduced alphabet (heads of all wire types at tags 0/1/15,
length bytes) x 4 struct types; random strings over that alphabet; mutants of valid encodings of every
struct type (lengths set to -1, 2^31-1, remaining+1, ...; fields replaced by other wire types; prefixes);
random bytes; scaled nesting patterns up to the maximum packet size; entry points: ReadFrom of every
generated struct incl. RequestPacket/ResponsePacket, tup.UniAttribute.Decode, and (net part) the TCP/UDP
server receive paths and the client receive path.
"""
import glob
import json
import os
import re

from lib import codecfam, codecgen, gobuild, oracle, tlc
from lib.core import Inconclusive, VERIF, sh

ALLOC_K, ALLOC_C = 1024, 65536


def run(ctx):
    ctx.level = "model_checking"
    ctx.assumptions = [
        "allocation bound judged: TotalAlloc delta of one ReadFrom <= 1024 * len(input) + 64 KiB",
        "the worker runs under RLIMIT_AS = 6 GiB: an allocation that cannot be satisfied there kills it and is recorded as out-of-memory",
        "inputs larger than 64 KiB are judged on the physical outcome only (no reference prediction)",
    ]
    exe, schema = codecfam.prepare(ctx, idl_files=[os.path.join(VERIF, "idl", "Call.tars")])   # Call.tars includes Vt.tars
    callexe = gobuild.build(ctx, "calldrive")
    nsh = 14
    from concurrent.futures import ThreadPoolExecutor
    ex = ThreadPoolExecutor(max_workers=2)
    f1 = ex.submit(codecfam.run_driver, ctx, exe, "mutants", "mut",
                   ["-shards", str(nsh), "-per", str(ctx.pick(2, 20)), "-classes", "inflate,subst,garbage,prefix,extra", "-cap", str(ctx.pick(4, 10))])
    f2 = ex.submit(codecfam.run_driver, ctx, exe, "hostile", "host",
                   ["-shards", str(nsh), "-alen", str(ctx.pick(2, 3)), "-rand", str(ctx.pick(1500, 20000)),
                    "-nest", str(ctx.pick(200000, 10 * 1024 * 1024)), "-deep", str(ctx.pick(5000000, 0))], 3400)
    # network receive paths: hostile frames / datagrams against real server children (tcp and udp), liveness probed
    netout = os.path.join(ctx.work, "net.ndjson")
    f3 = ex.submit(sh, [callexe, "-mode", "hostile", "-seed", str(ctx.seed), "-hostile", str(ctx.pick(300, 6000)), "-out", netout], None, None, 3400)
    d1, last1 = f1.result()
    d2, last2 = f2.result()
    shards = sorted(glob.glob(os.path.join(d1, "mut_*.ndjson"))) + sorted(glob.glob(os.path.join(d2, "mut_*.ndjson")))
    total, bad, states, gen = codecfam.judge_dec(ctx, schema, shards, "c05", par=nsh)
    class_disagree = {}
    for why, r in bad:
        if why == "panic":
            pc = codecfam.panic_class(r["panic"])
            ctx.violate("C05:%s:%s:%s" % ("fatal" if r["panic"].startswith(("fatal", "hang")) else "panic", pc, site(r)),
                        "decoding %d bytes as %s (%s %s): %s" % (len(r["bytes"]), r["s"], r["cls"], r.get("note", ""), r["panic"][:160]),
                        {"record": r})
        elif why == "alloc":
            ctx.violate("C05:alloc:%s" % site(r),
                        "decoding %d bytes as %s allocated %d bytes (bound %d)" % (len(r["bytes"]), r["s"], r["alloc"],
                                                                                  ALLOC_K * len(r["bytes"]) + ALLOC_C), {"record": r})
        elif why == "reference-vs-expected":
            raise Inconclusive("reference disagrees with harness-built value: %s" % json.dumps(r)[:300])
        else:
            # value/acceptance disagreements are C04/C06 matters; counted here as observations
            class_disagree[why] = class_disagree.get(why, 0) + 1
    # outcomes not judged by the reference
    nbig = 0
    big_samples = []
    for line in open(os.path.join(d2, "big.ndjson")):
        r = json.loads(line)
        nbig += 1
        if r["k"] == "big" and len(big_samples) < 2 and r["blen"] >= 100000:
            big_samples.append(r)
        if r["panic"]:
            pc = codecfam.panic_class(r["panic"])
            ctx.violate("C05:%s:%s:%s" % ("fatal" if r["panic"].startswith(("fatal", "hang")) else "panic", pc, site(r)),
                        "%s: %s on %s (%d bytes)" % (r["s"], r["panic"][:160], r["desc"][:80], r["blen"]), {"record": r})
        elif r["k"] == "big" and r["alloc"] > ALLOC_K * r["blen"] + ALLOC_C:
            ctx.violate("C05:alloc:%s:%s" % (r["s"], r["cls"]), "%s allocated %d bytes on %s" % (r["s"], r["alloc"], r["desc"]), {"record": r})
    rc3, so3, se3 = f3.result()
    net_total, net_deaths = [int(x) for x in so3.split()[-2:]]
    net_by_entry = {}
    for line in open(netout):
        r = json.loads(line)
        if r["k"] == "net-summary":
            net_by_entry[r["entry"]] = r["blen"]
        elif r["died"]:
            cls = "hostile-arguments-for-a-function" if r["desc"].startswith("hostile arguments") else r["desc"].split(" (")[0].replace(" ", "-")
            cls = re.sub(r"\d+", "N", cls)
            ctx.violate("C05:process-exit:%s:%s" % (r["entry"], cls),
                        "one packet ended the %s process: %s (%d bytes)" % (r["entry"], r["desc"], r["blen"]), {"record": r})
    recs = [r for r in codecfam.first_records(shards[:2], 300) if r["k"] == "dec" and r["panic"] == ""][:100]

    def mutate(i, r):
        if i == 4:
            r["panic"] = "runtime error: index out of range"
            return r
        if i == 40:
            r["alloc"] = 1024 * len(r["bytes"]) + 65536 + 1
            return r
        return None

    st = oracle.selftest(ctx, "TarsSchema", "Oracle_Dec", "Oracle.cfg", recs, mutate, name="dec-selftest",
                         extra_files={"schemas.json": codecgen.schemas_json(schema)}, deps=codecfam.DEPS)
    n1, nd1, deaths1, cnt1 = last1.split(" ", 3)
    n2, nd2, deaths2, nb2, cnt2 = last2.split(" ", 4)
    ctx.coverage = {
        "states": states, "transitions": gen,
        "traces_validated_against_impl": total + nbig + net_total,
        "network_inputs": net_by_entry, "network_process_exits": net_deaths,
        "samples": codecfam.first_records(shards[-2:], 1, lambda r: r["cls"] == "alpha" and len(r["bytes"]) == 2) + big_samples,
        "evaluations": total + nbig, "distinct_nontrivial": int(nd1) + int(nd2),
        "rule": "see module docstring; distinct = distinct (struct, bytes) inputs; exhaustive for the alphabet strings up to length %d" % ctx.pick(2, 3),
        "corpus_classes": {"mutants": cnt1, "hostile": cnt2}, "worker_deaths": int(deaths1) + int(deaths2),
        "not_judged_by_reference": nbig, "value_disagreements_left_to_C04_C06": class_disagree,
        "selftest_corrupted_records": st, "exhaustive": False,
        "entry_points": ["ReadFrom of %d generated struct types" % len(schema["order"]), "tup.UniAttribute.Decode",
                         "tcp server receive path (framing -> Protocol.Invoke -> generated dispatcher), real process",
                         "udp server receive path, real process",
                         "client receive path, real process: generated proxy of idl/Call.tars making genuine calls through a "
                         "man-in-the-middle that rewrites the real server's responses (hostile return values, mutated packets, "
                         "hostile header fields, random bodies, illegal length prefixes, pushes)"],
    }


def site(r):
    """Failing site: the kind of code that panicked/died (first non-runtime frame), else the input class."""
    p = r.get("panic", "")
    if " @" in p:
        return p.rsplit(" @", 1)[1]
    return "%s:%s" % (r["cls"], r.get("note", "") or r["s"])
