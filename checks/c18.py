"""C18 — endpoint strings: Parse delivers the named values (defaults, weight normalisation), the registry
conversion round-trips the ten fields, one endpoint has one cache key on the direct and on the registry
path, and no string crashes the parser.

Spec: spec/Endpoint (Endpoint.tla reference; MC_Endpoint theorems on the exhaustive small scope;
Gen_Endpoint enumerates the implementation tests; Oracle_Endpoint judges the recorded observations).
Binding B3, both directions: TLC enumerates (protocol word, option tokens, set id) cases with the expected
endpoint; harness/cmd/epdrive renders them (canonical and with seeded extra blanks), runs the real
endpoint.Parse / Endpoint2tars / Tars2endpoint and records everything; TLC judges every record.  Every
string up to length 4 (5 in the thorough tier) over {t,c,p,u,d,s,l,' ',-,h,1}, mutated well-formed texts
and seeded random strings must not panic.
The sites that use a parsed endpoint are driven as well (harness/cmd/epdrive/sites.go), through the public API: a
direct object address (one text, or a ':'-separated list) given to tars.NewServantProxy -- what its endpoint manager
holds (ServantProxy.Endpoints) against Endpoint!Parse of the tokens, and its cache keys against those the manager
holds when a registry describes the same endpoints; and the endpoint line of a server adapter / the administration
endpoint of a server configuration read by child processes (parseServerConfig) -- the stored adapter endpoint against
Endpoint!Parse of the line (the bind address -b absent / equal to -h / different), its key against the registry's
description and against what the application announces for it (classes mgr and adp of Oracle_Endpoint).
"""
import copy
import json
import os
import re
from concurrent.futures import ThreadPoolExecutor

from lib import gobuild, tlc
from lib.core import Inconclusive, REPO, VERIF, sh

SPEC = "Endpoint"
LETTERS = "hptgqwveb"
JUDGED = ("panics", "parse", "round", "reground", "conv_round", "key_conv", "key_reg", "key_group",
          "mgr_count", "mgr_field", "mgr_key", "adp_field", "adp_key_reg", "adp_key_ann", "adp_round")
OBS = ("obs_repeat", "obs_totars", "obs_fromreg", "obs_keytext", "obs_proto", "obs_str", "obs_setid0", "obs_convkey",
       "obs_mgrreg", "obs_listen")


def tmpl(name, **kw):
    s = open(os.path.join(VERIF, "spec", SPEC, name)).read()
    for k, v in kw.items():
        s = s.replace("@%s@" % k, str(v))
    return s


def oracle(ctx, lines, name, timeout=900):
    """Judge ndjson lines (strings) with Oracle_Endpoint; returns (verdict dict, TLCResult)."""
    r = tlc.run(ctx, SPEC, "Oracle_Endpoint", cfg="Oracle.cfg", workers=1, timeout=timeout, name=name,
                extra_files={"recs.ndjson": "".join(lines)})
    vp = os.path.join(r.workdir, "verdict.json")
    if "VERDICT-WRITTEN" not in r.out or not os.path.exists(vp):
        raise Inconclusive("oracle did not produce a verdict (%s):\n%s" % (name, "\n".join(r.out.splitlines()[-40:])))
    v = json.load(open(vp))
    if v["records"] != len(lines):
        raise Inconclusive("oracle judged %d of %d records (%s)" % (v["records"], len(lines), name))
    return v, r


def flagged_ids(v):
    """ids flagged by any judged class of a verdict."""
    ids = set()
    for k in JUDGED:
        for x in v[k]:
            ids.add(x[0] if isinstance(x, list) else x)
    return ids


def distinct_letters(opts):
    ls = [t["o"] for t in opts]
    return len(ls) == len(set(ls))


def ten(x):
    return tuple(x[k] for k in ("host", "port", "timeout", "kind", "grid", "qos", "weight", "wtype", "auth", "setid"))


def selftest(ctx, recs, cases, main_flagged):
    """Corrupt one recorded field per failure class in records the oracle accepted; the oracle must then flag
    exactly those records (plus whatever it flagged in them before), each in the class of its corruption."""
    clean = [r for r in recs if not r["panic"] and r["id"] not in main_flagged]
    opt = [r for r in clean if r["cls"] == "opt" and distinct_letters(r["opts"])]
    by_case = {}
    for r in opt:
        by_case.setdefault(r["case"], []).append(r)
    used = set()
    out, expect, res = [], {}, {}

    def corrupt(cat, field, pred, change, pool=None):
        for r in (opt if pool is None else pool):
            if r["id"] not in used and pred(r):
                used.add(r["id"])
                r = copy.deepcopy(r)
                change(r)
                out.append(r)
                expect[r["id"]] = (cat, field)
                return
        res["%s%s" % (cat, ":" + field if field else "")] = "no accepted record to corrupt"

    def has(letter):
        return lambda r: any(t["o"] == letter for t in r["opts"]) and len(r["opts"]) >= 2

    def set_(path, f):
        def ch(r):
            r[path[0]][path[1]] = f(r[path[0]][path[1]])
        return ch

    corrupt("parse", "port", has("p"), set_(("p", "port"), lambda v: v + 1))

    def swap(r):
        r["p"]["grid"], r["p"]["qos"] = r["p"]["qos"] + 1, r["p"]["grid"]
    corrupt("parse", "grid", has("g"), swap)
    corrupt("round", "setid", lambda r: r["sid"] != "" and len(r["opts"]) >= 1, set_(("b", "setid"), lambda v: ""))
    corrupt("reground", "auth", has("e"), set_(("rb", "auth"), lambda v: v + 1))
    corrupt("key_reg", None, has("h"), set_(("r", "key"), lambda v: v + "x"))
    corrupt("key_conv", None, has("t"), set_(("b", "key"), lambda v: v.replace(" -t ", " -T ")))

    def wnorm(r):
        o = {t["o"]: t["n"] for t in r["opts"]}
        return o.get("v", 0) != 0 and o.get("w", -1) > 100 and r["p"]["weight"] == 100

    def unnorm(r):
        r["p"]["weight"] = [t["n"] for t in r["opts"] if t["o"] == "w"][0]
        r["b"]["weight"] = r["p"]["weight"]
    corrupt("parse", "weight", wnorm, unnorm)
    # one endpoint, two texts, two keys (each record consistent in itself): only the group check can see it
    pair = None
    for c, rs in by_case.items():
        if len(rs) == 2 and not (used & {x["id"] for x in rs}):
            pair = copy.deepcopy(rs)
            break
    grp = None
    if pair is None:
        res["key_group"] = "no accepted case with two renderings"
    else:
        for k in ("p", "b", "r", "rb"):
            pair[1][k]["key"] = pair[1][k]["key"].upper()
        used |= {pair[0]["id"], pair[1]["id"]}
        out += pair
        grp = ten(cases[pair[0]["case"] - 1]["exp"])
    conv = [r for r in clean if r["cls"] == "conv"]
    corrupt("conv_round", "timeout", lambda r: True, set_(("b", "timeout"), lambda v: v + 1), conv)
    txt = [r for r in clean if r["cls"] in ("short", "rnd") and len(r["t"]) >= 3]

    def crash(r):
        r["panic"], r["where"] = True, "Parse"
    corrupt("panics", None, lambda r: True, crash, txt)
    # the sites: a manager that holds another host / another key than the text names, an adapter stored under its bind address
    mgr = [r for r in clean if r["cls"] == "mgr" and len(r["parts"]) == 1 and distinct_letters(r["parts"][0]["opts"])]
    adp = [r for r in clean if r["cls"] == "adp" and distinct_letters(r["opts"])]

    def upper_host(r):
        return any(t["o"] == "h" and t["s"] != t["s"].lower() for t in r["parts"][0]["opts"])

    def lower_all(r):
        r["d"][0]["host"] = r["d"][0]["host"].lower()
        r["d"][0]["key"] = r["d"][0]["key"].lower()
    corrupt("mgr_field", "host", upper_host, lower_all, mgr)
    corrupt("mgr_key", None, upper_host, lambda r: r["d"][0].__setitem__("key", r["d"][0]["key"].lower()), mgr)

    def bind_other(r):
        o = {t["o"]: t["s"] for t in r["opts"]}
        return r["site"] == "adapter" and o.get("b", "") != "" and o.get("b") != o.get("h", "")

    def host_is_bind(r):        # what folding "listen on -b if given" into the stored endpoint looks like
        r["a"]["host"] = r["a"]["bind"]
        r["f"]["host"] = r["a"]["bind"]
        r["b"]["host"] = r["a"]["bind"]
    corrupt("adp_field", "host", bind_other, host_is_bind, adp)
    corrupt("adp_key_reg", None, lambda r: True, lambda r: r["a"].__setitem__("key", r["a"]["key"] + "x"), adp)
    controls_sites = [copy.deepcopy(x) for x in mgr + adp if x["id"] not in used][:20]
    # untouched controls
    controls = [copy.deepcopy(x) for x in opt if x["id"] not in used][:25] + [copy.deepcopy(x) for x in txt if x["id"] not in used][:5]
    out += controls + controls_sites
    if grp is not None:
        for x in out:   # every record of the corrupted pair's endpoint is in the conflicting group
            if x["cls"] == "opt" and distinct_letters(x["opts"]) and ten(cases[x["case"] - 1]["exp"]) == grp and x["id"] not in expect:
                expect[x["id"]] = ("key_group", None)
    if not expect:
        return res, False
    v, _ = oracle(ctx, [json.dumps(x) + "\n" for x in out], "selftest", timeout=300)
    ok = True
    for rid, (cat, field) in expect.items():
        hit = any((x[0] if isinstance(x, list) else x) == rid and (field is None or cat == "panics" or x[1] == field) for x in v[cat])
        res["%s%s@%d" % (cat, ":" + field if field else "", rid)] = "rejected" if hit else "ACCEPTED"
        ok = ok and hit
    extra = flagged_ids(v) - set(expect)
    res["untouched_records"] = len(out) - len(expect)
    res["untouched_records_flagged"] = sorted(extra)
    if not ok or extra:
        raise Inconclusive("binding self-test failed: %s" % json.dumps(res))
    return res, all("no accepted" not in str(x) for x in res.values())


def slug(s):
    return "-".join(re.findall(r"[a-z]+", s.lower())[:6]) or "unknown"


def run(ctx):
    ctx.level = "model_checking"
    ctx.assumptions = [
        "a text is abstracted as a protocol word and option tokens; blanks (spaces, tabs, trailing blanks) are added by the harness renderer",
        "well-formed class judged field by field: protocol tcp/udp/ssl first, every option letter followed by a value, decimal integers within int32, "
        "hosts/binds without blanks; repeated options, unknown protocol words, leading blanks, other numeral forms are recorded, not judged",
        "'the same endpoint' for the key clause means agreement on the ten listed fields; the key's exact text, the layout of the registry "
        "structure and the Proto word are recorded, not judged",
    ]
    thorough = not ctx.quick
    replay = None
    if ctx.replay:
        replay = json.load(open(ctx.replay)).get("replay", {})

    # ---- 1. the reference is self-consistent on the exhaustive small scope (runs beside everything else)
    pool = ThreadPoolExecutor(max_workers=4)
    mc_cfg = ctx.pick("MC_quick.cfg", "MC_thorough.cfg")
    mc_f = pool.submit(tlc.run, ctx, SPEC, "MC_Endpoint", cfg=mc_cfg, workers=ctx.pick(6, 8), timeout=800, name="mc")

    # ---- 2. TLC enumerates the implementation tests
    def gen():
        if replay is not None:
            return None
        cfg = tmpl("Gen.cfg.tmpl", EXHLEN=ctx.pick(2, 3), EXHPROTOS=ctx.pick("TRUE", "FALSE"), PERMLEN=ctx.pick(3, 5),
                   NRAND=ctx.pick(300, 20000), NCONV=ctx.pick(200, 5000))
        r = tlc.run(ctx, SPEC, "Gen_Endpoint", cfg="Gen_run.cfg", workers=1, timeout=600, seed=ctx.seed, name="gen",
                    extra_files={"Gen_run.cfg": cfg})
        p = os.path.join(r.workdir, "cases.ndjson")
        if '"CASES"' not in r.out or not os.path.exists(p):
            raise Inconclusive("case generation failed:\n%s" % "\n".join(r.out.splitlines()[-40:]))
        return p
    gen_f = pool.submit(gen)
    # with the test-only export of patches/C17-hooks.diff in the tree the listener address of an adapter is observed too
    hooked = os.path.exists(os.path.join(REPO, "tars", "verif_export_conf.go"))
    exe = gobuild.build(ctx, "epdrive", tags="verif,c17hooks" if hooked else "verif")
    cases_path = gen_f.result()

    # ---- 3. the real code
    work = ctx.sub("drive")
    recs_path = os.path.join(work, "recs.ndjson")
    short_len = ctx.pick(4, 5)
    args = [exe, "-out", recs_path, "-seed", str(ctx.seed)]
    if replay is not None:
        cases_path = os.path.join(work, "cases.ndjson")
        with open(cases_path, "w") as f:
            if replay.get("cases"):
                for c_ in replay["cases"]:
                    f.write(json.dumps(c_) + "\n")
            elif replay.get("case"):
                f.write(json.dumps(dict(replay["case"], text=replay.get("text") or "")) + "\n")
        tp = os.path.join(work, "texts.ndjson")
        with open(tp, "w") as f:
            if replay.get("t") is not None and not replay.get("case") and not replay.get("cases"):
                f.write(json.dumps({"t": replay["t"]}) + "\n")
        args += ["-cases", cases_path, "-texts", tp, "-short", "-1", "-rnd", "0", "-mal", "0"]
        if replay.get("site") == "mgr":
            args += ["-mgr", "-1"] + (["-mgrlist"] if len(replay.get("cases") or []) > 1 else [])
        elif replay.get("site") == "adp":
            args += ["-adp", "-1"]
    else:
        args += ["-cases", cases_path, "-short", str(short_len), "-rnd", str(ctx.pick(3000, 100000)), "-mal", str(ctx.pick(1200, 30000)),
                 "-mgr", str(ctx.pick(-1, 8000)), "-adp", str(ctx.pick(-1, 12000)), "-dir", os.path.join(work, "children")]
    rc, so, se = sh(args, timeout=600, check=False)
    if rc != 0:
        raise Inconclusive("epdrive failed (%d): %s %s" % (rc, so[-2000:], se[-2000:]))
    counts = json.loads(so.strip().splitlines()[-1])
    ctx.log("driver", counts)
    cases = [json.loads(l) for l in open(cases_path)]

    # ---- 4. TLC judges every record (sharded: records describing one endpoint stay together)
    nsh = 1 if replay is not None else ctx.pick(3, 8)
    shards = [[] for _ in range(nsh)]
    keep = []          # records kept for the self-test and for samples (bounded per class)
    kept = {}
    n = 0
    with open(recs_path) as f:
        for line in f:
            n += 1
            m = re.search(r'"grp":(\d+)', line[:200])
            g = int(m.group(1)) if m and '"cls":"opt"' in line[:20] else n
            shards[g % nsh].append(line)
            mc_ = re.match(r'\{"cls":"(\w+)"', line)
            kcls = mc_.group(1) if mc_ else "?"
            if kept.get(kcls, 0) < {"opt": 30000, "conv": 300, "mal": 600, "mgr": 8000, "adp": 8000}.get(kcls, 2000):
                kept[kcls] = kept.get(kcls, 0) + 1
                keep.append(line)
    if n == 0:
        raise Inconclusive("no records")
    futs = [pool.submit(oracle, ctx, sh_lines, "oracle-%d" % i, ctx.pick(300, 850)) for i, sh_lines in enumerate(shards) if sh_lines]
    recs_head = [json.loads(l) for l in keep]
    verdicts = [f.result()[0] for f in futs]
    total = {}
    for v in verdicts:
        for k, x in v.items():
            if isinstance(x, list):
                total.setdefault(k, []).extend(x)
            elif k in ("endpoints", "real_keys", "ref_keys"):
                total.setdefault(k, []).append(x)      # per shard (one endpoint never spans two shards; a key may)
            else:
                total[k] = total.get(k, 0) + x
    per_shard = {k: total.pop(k) for k in ("endpoints", "real_keys", "ref_keys")}
    total["endpoints"] = sum(per_shard["endpoints"])
    ctx.log("oracle", {k: (len(x) if isinstance(x, list) else x) for k, x in total.items()}, per_shard)

    mc = tlc.require_clean(mc_f.result(), "MC_Endpoint/" + mc_cfg)
    pool.shutdown()
    # ---- 4b. the binding is demonstrated: corrupted observations must be rejected, record by record
    if replay is None:
        selftest_res, complete = selftest(ctx, recs_head, cases, flagged_ids(total))
        if not complete and not flagged_ids(total):
            raise Inconclusive("binding self-test incomplete on a clean run: %s" % json.dumps(selftest_res))
    else:
        selftest_res = {"skipped": "replay mode"}

    # ---- 5. vacuity guards
    if replay is None:
        want_short = (11 ** (short_len + 1) - 1) // 10
        if total["short_distinct"] != want_short:
            raise Inconclusive("short-string corpus incomplete: %d of %d" % (total["short_distinct"], want_short))
        seen_letters = {t["o"] for c in cases if c["cls"] != "conv" for t in c["opts"]}
        seen_protos = {c["proto"] for c in cases if c["cls"] != "conv"}
        if seen_letters != set(LETTERS) or seen_protos != {"tcp", "udp", "ssl"} or total["judged"] < 1000 or total["conv"] < 50:
            raise Inconclusive("vacuous corpus: letters %s protos %s judged %d conv %d"
                               % (sorted(seen_letters), sorted(seen_protos), total["judged"], total["conv"]))
        mixed = sum(1 for r in recs_head if r["cls"] == "mgr" and not r["panic"]
                    and any(t["o"] in "hb" and t["s"] != t["s"].lower() for p_ in r["parts"] for t in p_["opts"]))
        if (total["mgr_judged"] < 500 or total["mgr_lists"] < 20 or mixed < 20 or total["adp_judged"] < 500
                or min(total["adp_bind_other"], total["adp_bind_same"], total["adp_bind_none"]) < 5) and not total["panics"]:
            raise Inconclusive("vacuous site corpus: manager %d judged, %d lists, %d with mixed-case names; adapters %d judged, bind "
                               "other/same/none %d/%d/%d" % (total["mgr_judged"], total["mgr_lists"], mixed, total["adp_judged"],
                                                             total["adp_bind_other"], total["adp_bind_same"], total["adp_bind_none"]))
        if total["mgr"] != counts.get("mgr", -1) or total["adp"] != counts.get("adp", -1):
            raise Inconclusive("oracle saw %d/%d site records, driver wrote %s/%s" % (total["mgr"], total["adp"], counts.get("mgr"), counts.get("adp")))
        if total["opt"] != counts.get("opt", -1):
            raise Inconclusive("oracle saw %d opt records, driver wrote %d" % (total["opt"], counts.get("opt", -1)))

    # ---- 6. verdicts: only what was observed of the real code and the statement forbids
    rec_by_id = {}
    need = flagged_ids(total)
    if need:
        with open(recs_path) as f:
            for line in f:
                m = re.search(r'"id":(\d+)', line[:60])
                if m and int(m.group(1)) in need:
                    rec_by_id[int(m.group(1))] = json.loads(line)

    def rep(rid):
        r = rec_by_id.get(rid, {})
        d = {"kind": "record", "text": r.get("text"), "t": r.get("t"), "observed": r}
        if r.get("cls") == "mgr":       # replayed through the manager, every member with the exact text it had
            d["site"] = "mgr"
            d["cases"] = [dict(cases[p_["case"] - 1], text=p_["text"]) for p_ in r.get("parts", [])] if replay is None else replay.get("cases")
        elif r.get("cls") == "adp":
            d["site"] = "adp"
            d["cases"] = [dict(cases[r["case"] - 1], text=r.get("text"))] if replay is None else replay.get("cases")
        elif r.get("case"):
            d["case"] = cases[r["case"] - 1]
        return d

    for rid, cls, icls in sorted(total["panics"], key=lambda x: (len(rec_by_id.get(x[0], {}).get("t", [])), x[0])):
        r = rec_by_id.get(rid, {})
        sig = "C18:panic:" + icls
        if icls != "short-or-blank-string":
            sig += ":" + slug(r.get("pv", ""))
        ctx.violate(sig, "endpoint.%s panics (%s) on %s input %r" % (r.get("where", "Parse"), r.get("pv"), cls, r.get("text")), rep(rid))
    for cat, what in (("parse", "Parse delivers a different value than the text names"),
                      ("round", "Tars2endpoint(Endpoint2tars(e)) does not preserve the field (e from Parse)"),
                      ("reground", "Tars2endpoint(Endpoint2tars(e)) does not preserve the field (e from the registry)"),
                      ("conv_round", "Tars2endpoint(Endpoint2tars(e)) does not preserve the field (e built directly)")):
        for rid, field in sorted(total[cat]):
            r = rec_by_id.get(rid, {})
            if cat == "parse":
                exp = cases[r["case"] - 1]["exp"].get(field) if r.get("case") else None
                ctx.violate("C18:parse-field:%s" % field, "%s: %r gives %s=%r, the text names %r"
                            % (what, r.get("text"), field, (r.get("p") or {}).get(field), exp), rep(rid))
            else:
                src = {"round": "p", "reground": "r", "conv_round": "e"}[cat]
                dst = {"round": "b", "reground": "rb", "conv_round": "b"}[cat]
                ctx.violate("C18:roundtrip-field:%s" % field, "%s: %s %r -> %r"
                            % (what, field, (r.get(src) or {}).get(field), (r.get(dst) or {}).get(field)), rep(rid))
    for cat, sig, what in (("key_conv", "direct-vs-converted", "Parse(text).Key differs from the key after Endpoint2tars/Tars2endpoint"),
                           ("key_reg", "direct-vs-registry", "Parse(text).Key differs from the key of the registry's description of the same endpoint"),
                           ("key_group", "same-endpoint-different-text", "two texts naming one endpoint obtain different keys")):
        for rid in sorted(total[cat]):
            r = rec_by_id.get(rid, {})
            other = {"key_conv": (r.get("b") or {}).get("key"), "key_reg": (r.get("r") or {}).get("key"), "key_group": None}[cat]
            ctx.violate("C18:key-mismatch:%s:%s" % (sig, r.get("proto")), "%s: %r -> %r vs %r"
                        % (what, r.get("text"), (r.get("p") or {}).get("key"), other), rep(rid))

    def part_exp(r, field):
        return [cases[p_["case"] - 1]["exp"].get(field) for p_ in r.get("parts", []) if 0 < p_["case"] <= len(cases)]

    for rid in sorted(total["mgr_count"]):
        r = rec_by_id.get(rid, {})
        ctx.violate("C18:manager-endpoint-count:%s" % r.get("site"),
                    "a servant proxy created for the direct address %r (%d member(s)) holds %d endpoint(s); resolved through a registry "
                    "listing the same endpoints it holds %d" % (r.get("text"), len(r.get("parts", [])), len(r.get("d", [])), len(r.get("r", []))), rep(rid))
    for rid, field in sorted(total["mgr_field"]):
        r = rec_by_id.get(rid, {})
        ctx.violate("C18:manager-endpoint-field:%s:%s" % (field, r.get("site")),
                    "the endpoint manager of the direct address %r holds %s=%r, the text names %r (endpoint.Parse of the same text is judged "
                    "beside it: the difference arises on the way through tars.NewServantProxy / newEndpointManager)"
                    % (r.get("text"), field, [e.get(field) for e in r.get("d", [])], part_exp(r, field)), rep(rid))
    for rid in sorted(total["mgr_key"]):
        r = rec_by_id.get(rid, {})
        ctx.violate("C18:key-mismatch:direct-vs-registry-through-manager:%s" % ((r.get("parts") or [{}])[0].get("proto")),
                    "one endpoint, two cache keys: the endpoint manager of the direct address %r holds key(s) %r, the manager of the same "
                    "object resolved through a registry that lists the endpoint(s) the text names holds %r"
                    % (r.get("text"), [e.get("key") for e in r.get("d", [])], [e.get("key") for e in r.get("r", [])]), rep(rid))
    for rid, field in sorted(total["adp_field"]):
        r = rec_by_id.get(rid, {})
        exp = cases[r["case"] - 1]["exp"].get(field) if r.get("case") and r["case"] <= len(cases) else None
        ctx.violate("C18:adapter-endpoint-field:%s:%s" % (field, r.get("site")),
                    "the application read the %s endpoint line %r of its server configuration and stores %s=%r, the line names %r "
                    "(bind address %r; stored endpoint %r, key %r)"
                    % (r.get("site"), r.get("text"), field, (r.get("a") or {}).get(field), exp, (r.get("a") or {}).get("bind"),
                       (r.get("a") or {}).get("str"), (r.get("a") or {}).get("key")), rep(rid))
    for cat, sig, what in (("adp_key_reg", "adapter-vs-registry", "the registry's description of the endpoint the line names"),
                           ("adp_key_ann", "adapter-vs-announced", "what the application announces to the registry for it (Endpoint2tars of the stored endpoint)")):
        for rid in sorted(total[cat]):
            r = rec_by_id.get(rid, {})
            other = r.get("rk") if cat == "adp_key_reg" else (r.get("b") or {}).get("key")
            ctx.violate("C18:key-mismatch:%s:%s" % (sig, r.get("proto")),
                        "the adapter endpoint stored for the line %r has key %r, %s has key %r"
                        % (r.get("text"), (r.get("a") or {}).get("key"), what, other), rep(rid))
    for rid, field in sorted(total["adp_round"]):
        r = rec_by_id.get(rid, {})
        ctx.violate("C18:roundtrip-field:%s" % field, "Tars2endpoint(Endpoint2tars(e)) does not preserve the field (e = stored adapter endpoint "
                    "of the line %r): %s %r -> %r" % (r.get("text"), field, (r.get("a") or {}).get(field), (r.get("b") or {}).get(field)), rep(rid))

    # ---- 7. evidence
    samples = []
    seen_how = set()
    for r in recs_head:
        if r["cls"] == "opt" and r["var"] == 1 and len(r["opts"]) >= 3 and len(samples) < 2:
            samples.append({"kind": "judged record", "text": r["text"], "parse": r["p"], "registry": r["f"], "back": r["b"],
                            "expected": cases[r["case"] - 1]["exp"]})
        if r["cls"] == "mal" and r["how"] not in seen_how and not r["panic"] and r.get("p"):
            seen_how.add(r["how"])
            samples.append({"kind": "undocumented form (recorded, not judged)", "how": r["how"], "text": r["text"],
                            "parse": {k: r["p"][k] for k in ("host", "port", "timeout", "kind", "weight", "key")}})
    for rid, cls, icls in sorted(total["panics"])[:3]:
        r = rec_by_id.get(rid, {})
        samples.append({"kind": "panic", "input_bytes": r.get("t"), "class": icls, "panic": r.get("pv")})
    texts = set()
    with open(recs_path) as f:
        for line in f:
            m = re.search(r'"t":\[([0-9,]*)\]', line)
            if m:
                texts.add(m.group(1))
    judged_records = total["records"]
    ctx.coverage = {
        "states": mc.distinct + sum(1 for _ in verdicts),
        "transitions": mc.generated,
        "traces_validated_against_impl": judged_records,
        "samples": samples,
        "model_checking": {"config": mc_cfg, "distinct": mc.distinct, "generated": mc.generated, "depth": mc.depth,
                           "theorems": ["TypeOK", "InvDefaults", "InvKind", "InvRoundTrip", "InvKeyStable", "InvTarsRoundTrip", "InvLastWins",
                                        "InvOrderFree", "InvWeightRange", "InvKeyDirectVsRegistry", "InvKeySound", "InvBindApart", "StepLocal"]},
        "cases_enumerated_by_tlc": {k: sum(1 for c in cases if c["cls"] == k) for k in ("exh", "perm", "rand", "conv")},
        "records": {"total": judged_records, "by_class": counts, "judged_field_by_field": total["judged"],
                    "repeated_option_records": total["repeats"], "conversion_records": total["conv"],
                    "short_strings_distinct": total["short_distinct"], "short_alphabet_max_len": short_len,
                    "distinct_endpoints": total["endpoints"], "distinct_real_keys_per_shard": per_shard["real_keys"],
                    "distinct_reference_keys_per_shard": per_shard["ref_keys"], "oracle_shards": len(verdicts),
                    "direct_addresses_through_the_endpoint_manager": {"records": total.get("mgr"), "judged": total.get("mgr_judged"),
                                                                      "address_lists": total.get("mgr_lists")},
                    "adapter_endpoint_lines_read_by_child_processes": {
                        "records": total.get("adp"), "judged": total.get("adp_judged"), "bind_differs_from_host": total.get("adp_bind_other"),
                        "bind_equals_host": total.get("adp_bind_same"), "no_bind": total.get("adp_bind_none"),
                        "listener_address_observed": hooked}},
        "judged_failures": {k: len(total[k]) for k in JUDGED},
        "observations_not_judged": dict({k: len(total[k]) for k in OBS},
                                        note="obs_mgrreg = fields of the manager's endpoints on the registry path that differ from the "
                                             "described endpoint; obs_listen = adapters whose listener address is not bind-else-host:port; "
                                             "obs_repeat = records with a repeated option that disagree with 'last occurrence wins'; "
                                             "obs_keytext = key text differs from '<net> -h H -p P -t T'; obs_totars/obs_fromreg = registry "
                                             "structure fields differ from the endpoint's; real vs reference key counts show whether the "
                                             "key separates exactly (network, host, port, timeout)"),
        "selftest_corrupted_records": selftest_res,
        "evaluations": judged_records,
        "distinct_nontrivial": len(texts),
        "rule": "one evaluation = one input run through the real endpoint package and judged by Oracle_Endpoint; "
                "distinct = distinct input texts (conversion-only records count once)",
        "exhaustive": "all token sequences up to length %d over 42 option tokens, all orders of all subsets of up to %d distinct options, "
                      "all strings up to length %d over the 11-character alphabet; the rest is seeded sampling"
                      % (ctx.pick(2, 3), ctx.pick(3, 5), short_len),
    }
