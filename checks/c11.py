"""C11 — calls keep succeeding across server-initiated connection closes.

Spec: spec/ClientConn (ClientConn.tla: shared isClosed / current connection / sendQueue / sendFailQueue, one
sender and one receiver goroutine per TCP connection with Go channel hand-off semantics; the server endpoint going
down and coming back, failed dials and ReConnect's memory of them; properties NoWriteOnKnownDead,
HealthyNotMarkedClosed, NoStranding, NoFailAfterDead, lemma DeadNotTreatedAsLive).  MC: 3 connections x 2 requests, the
server closing idle connections at any point, and 2 connections x 3 requests with a restart: the repaired design (Fix)
satisfies all of them, the original one violates each of the first three, and two deliberately wrong designs (a stale
dial error handed to later callers; close() assigning the closed flag) violate NoFailAfterDead / NoStranding
(non-vacuity guards).
Binding B1 with schedule perturbation: a real transport.TarsClient talks to a harness server that answers
every request and closes the connection in use while the client is idle; the next call comes 0 ms .. 1.1 s
later (before/after the client's 1 s ticker); seeded delays injected at the client hooks (sender top /
fail-queue poll / before the blocking select / after a write error / before requeue / receiver error / close)
steer the goroutines into the rare interleavings.  Scenario classes (by scenario number): restart (listener and
connections closed, calls while the endpoint refuses connections, listener back on the same port), heldrecv (the
receiver of a lost connection held for 90-170 ms so that it reports after the next connection has been lost too),
handover (old sender held before its select so that it takes the next request and must hand it over), overlap,
doubleclose, random.  Half of the scenarios use a call timeout of 450-700 ms (below the sender's 1 s ticker).  Every hook event (dialled, enqueue, close, liveness check
[under connLock], before-write, write error, requeued, tick, tick-exit, receiver exit), the server's
received/replied/closed and each call's outcome form a trace that TLC validates against ClientConn: the
invariants hold at every step and a call issued after the close was known must not time out (nor fail with a dial
error while the endpoint is up).  The harness server serialises receive/answer/close, and a request the client wrote
that the server had not read when it closed counts as in flight (lost with the connection, the call raced).
"""
import json
import os
from concurrent.futures import ThreadPoolExecutor

from lib import gobuild, tlc, tracecheck
from lib.core import Inconclusive, VERIF, sh

SPEC = "ClientConn"
INVS = ("NoWriteOnKnownDead", "HealthyNotMarkedClosed", "NoStranding")
ALL_INVS = INVS + ("NoFailAfterDead", "DeadNotTreatedAsLive")
# deliberately wrong designs (constant Mut of ClientConn.tla) and the property each must violate, with the smallest configuration that shows it
MUTANTS = {"staleDialError": ("NoFailAfterDead", dict(conns=2, reqs="{1, 2, 3}", restarts=1, inflight=1)),
           "assignClosed": ("NoStranding", dict(conns=3, reqs="{1, 2}", restarts=0, inflight=2))}


def split(path):
    """-> [(meta, events)]: meta = the driver's Scenario record (seed, number, class: enough to run the same script again)."""
    traces, cur, meta = [], [], None
    for line in open(path):
        e = json.loads(line)
        if e["e"] == "Scenario":
            meta = e
        elif e["e"] == "Reset":
            traces.append((meta, cur))
            cur, meta = [], None
        else:
            cur.append(e)
    return traces


def signature(f):
    ev = f["event"]
    if f["invariant"]:
        return "C11:%s" % f["invariant"][0]
    if ev.get("e") == "CallEnd" and not ev.get("ok"):
        return "C11:call-after-close-timed-out"
    if ev.get("e") == "SendErr":
        # a dial error returned while the endpoint was up and the caller was not queued behind a failing dial
        return "C11:call-failed-with-stale-dial-error-although-endpoint-up"
    if ev.get("e") == "EnqHook":
        # the caller passed ReConnect without a dial although the current connection is known to be closed
        return "C11:no-redial-although-connection-known-dead"
    if ev.get("e") == "Dialed":
        return "C11:dial-although-current-connection-healthy"
    if ev.get("e") in ("Dequeued", "LiveCheck"):
        return "C11:request-taken-for-a-connection-known-dead"
    return "C11:trace-rejected:%s" % ev.get("e")


TIMED = "C11:call-after-close-timed-out"   # the one verdict that depends on the clock: reproduced before it is reported
REPEAT, NEEDED = 6, 2


REDIAL_FIRST = "TRUE"   # the hand-over order of the code: FALSE = requeue, then ReConnect; TRUE = ReConnect, then requeue


def mc_cfg(fix, inv, reqs="{1, 2}", redial_first=None, conns=3, restarts=0, inflight=3, mut="none"):
    return ("CONSTANTS MaxConn = %d  Reqs = %s  Fix = %s  RedialFirst = %s  MaxRestart = %d  MaxInFlight = %d  Mut = \"%s\"\n"
            "SPECIFICATION Spec\nINVARIANTS TypeOK %s\nCHECK_DEADLOCK FALSE\n"
            % (conns, reqs, fix, redial_first or REDIAL_FIRST, restarts, inflight, mut, inv))


def run(ctx):
    ctx.level = "model_checking"
    ctx.assumptions = [
        "Go channel semantics as modelled (FIFO hand-off to the longest-parked receiver)",
        "the server answers everything it receives and closes a connection only while the client has no call in progress; calls that race with a close are exempt, as in the statement",
        "call timeout 1.5 s, or 450-700 ms (below the sender's 1 s ticker period; every intended delay of a scenario is below 200 ms); a call "
        "issued after the client has seen the close, while the endpoint listens, must succeed (any latency below the timeout); a run in which "
        "a call timed out while the machine stalled (2 ms sleeps overrunning by 10 ms or more) for over a fifth of the timeout in total is dropped (counted)",
        "a call made while the endpoint refuses connections (or is going down / coming up) may fail; the listener comes back on the same port",
    ]
    ex = ThreadPoolExecutor(max_workers=3)
    allinv = " ".join(ALL_INVS)
    # the repaired design: (a) the server closes connections at any point, (b) it also restarts (listener down and up again)
    fix_cfgs = {"close": mc_cfg("TRUE", allinv, ctx.pick("{1, 2}", "{1, 2, 3}"), inflight=3),
                "restart": mc_cfg("TRUE", allinv, "{1, 2, 3}", conns=2, restarts=1, inflight=ctx.pick(1, 3))}
    if ctx.tier != "quick":
        fix_cfgs["restart-3conn"] = mc_cfg("TRUE", allinv, "{1, 2}", conns=3, restarts=1, inflight=2)
        fix_cfgs["restart-sequential"] = mc_cfg("TRUE", allinv, "{1, 2, 3, 4}", conns=3, restarts=1, inflight=1)
    f_fix = {n: ex.submit(tlc.run, ctx, SPEC, "ClientConn", cfg="mc.cfg", workers=ctx.pick(3, 4), timeout=1500, name="mc-fix-" + n,
                          extra_files={"mc.cfg": c}, heap=ctx.pick("2g", "6g")) for n, c in fix_cfgs.items()}
    f_orig = {inv: ex.submit(tlc.run, ctx, SPEC, "ClientConn", cfg="mc.cfg", workers=2, timeout=900, name="mc-orig-" + inv,
                             extra_files={"mc.cfg": mc_cfg("FALSE", inv)}) for inv in INVS}
    f_mut = {m: ex.submit(tlc.run, ctx, SPEC, "ClientConn", cfg="mc.cfg", workers=2, timeout=900, name="mc-mut-" + m,
                          extra_files={"mc.cfg": mc_cfg("TRUE", inv, mut=m, **kw)}) for m, (inv, kw) in MUTANTS.items()}
    exe = gobuild.build(ctx, "vdrive")
    nproc = 10
    per = ctx.pick(12, 120)

    def drive(i):
        out = os.path.join(ctx.work, "cc%d.ndjson" % i)
        rc, so, se = sh([exe, "clientconn-trace", "-seed", str(ctx.seed * 100 + i), "-n", str(per), "-first", str(i * 3), "-out", out], timeout=3400)
        lines = so.strip().splitlines()
        if rc != 0 or len(lines) < 2 or not lines[-1].startswith("STATS "):
            raise Inconclusive("clientconn driver failed (rc=%s): %s %s" % (rc, so[-500:], se[-1500:]))
        return out, [int(x) for x in lines[-2].split()[-7:]], json.loads(lines[-1][6:])

    with ThreadPoolExecutor(max_workers=nproc) as exd:
        outs = list(exd.map(drive, range(nproc)))
    hits = [sum(o[1][k] for o in outs) for k in range(7)]
    if min(hits[1:6]) == 0:
        raise Inconclusive("hook self-test: a client hook never fired: %s" % hits)
    dstats = {"classes": {}}
    for o in outs:
        for k, v in o[2].items():
            if k == "classes":
                for c, n in v.items():
                    dstats["classes"][c] = dstats["classes"].get(c, 0) + n
            elif k == "max_stall_ms":
                dstats[k] = max(dstats.get(k, 0), v)
            else:
                dstats[k] = dstats.get(k, 0) + v
    lost = dstats.get("dropped_disturbed", 0) + dstats.get("abandoned_relisten", 0)
    runs = []
    for out, _, _ in outs:
        runs += split(out)
    metas = [m for m, _ in runs]
    traces = [t for _, t in runs]
    cfg = open(os.path.join(VERIF, "spec", SPEC, "Trace.cfg")).read().replace("@REDIAL_FIRST@", REDIAL_FIRST)
    k = 5
    parts = [list(range(len(traces)))[i::k] for i in range(k)]
    states = trans = 0
    with ThreadPoolExecutor(max_workers=k) as exv:
        results = list(exv.map(lambda ip: tracecheck.validate(ctx, SPEC, "Trace_ClientConn", cfg, [traces[j] for j in ip[1]],
                                                              name="trace-%d" % ip[0], timeout=900), list(enumerate(parts))))
    timed = []      # (trace index, failure): calls that ran into their timeout although the model owes them an answer
    for (acc, fails, st), part in zip(results, parts):
        states += st["states"]
        trans += st["transitions"]
        for f in fails:
            ti = part[f["index"]]
            sig = signature(f)
            if sig == TIMED:
                timed.append((ti, f))
                continue
            ctx.violate(sig, "client run is not a behaviour of ClientConn (repaired design) at event %s; preceding events: %s"
                        % (json.dumps(f["event"]), json.dumps(f["prefix"][:-1])[:400]), {"trace": traces[ti], "offset": f["offset"], "scenario": metas[ti]})
    # "without waiting for its timeout" is the one judgement that depends on the clock: the same script (seed, number) is run
    # REPEAT more times and the verdict is reported when at least NEEDED of these runs are rejected again (a request that is
    # stranded or waits for the ticker comes back with the interleaving, which the script steers; a stalled machine does not)
    reproduced = []
    for n, (ti, f) in enumerate(timed[:8]):
        m = metas[ti]
        out = os.path.join(ctx.work, "rerun%d.ndjson" % n)
        args = [exe, "clientconn-trace", "-seed", str(m["seed"]), "-first", str(m["idx"]), "-n", "1", "-repeat", str(REPEAT), "-out", out]
        rc, so, se = sh(args + (["-class", m["class"]] if m.get("class") else []), timeout=600)
        again = [t for _, t in split(out)]
        acc, fails, st = tracecheck.validate(ctx, SPEC, "Trace_ClientConn", cfg, again, name="rerun-%d" % n, max_failures=REPEAT)
        sigs = [signature(x) for x in fails]
        reproduced.append({"scenario": m, "first": f["event"], "reruns": len(again), "rejected_again": sigs})
        for x in fails:
            if signature(x) != TIMED:       # anything else the repetition shows does not depend on the clock
                ctx.violate(signature(x), "client run (repetition of scenario %s) is not a behaviour of ClientConn at event %s"
                            % (json.dumps(m), json.dumps(x["event"])), {"trace": again[x["index"]], "offset": x["offset"], "scenario": m})
        if sigs.count(TIMED) >= NEEDED:
            ctx.violate(TIMED, "client run is not a behaviour of ClientConn (repaired design) at event %s (the call was owed an answer: issued after "
                        "the client had seen the close, or handed over by the client itself); preceding events: %s; the same script ran into "
                        "the timeout again in %d of %d repetitions" % (json.dumps(f["event"]), json.dumps(f["prefix"][:-1])[:400], sigs.count(TIMED), len(again)),
                        {"trace": traces[ti], "offset": f["offset"], "scenario": m})
    # (after the validation: what the usable runs show stands)
    if lost * 4 > nproc * per:
        raise Inconclusive("%d of %d scenarios unusable (the machine stalled for more than a fifth of the timeout during a call that "
                           "timed out, or the port could not be re-opened): %s" % (lost, nproc * per, dstats))
    # binding self-test on an accepted trace with a close followed by a successful call
    # (a call that starts after the client saw one close may still race with another close the client has not seen yet:
    # its timing out is then a behaviour of the model, so several candidate runs are tried)
    cands = []
    for t in traces:
        closes = [i for i, e in enumerate(t) if e["e"] == "Close"]
        if closes and any(e["e"] == "CallEnd" and e["ok"] and i > closes[0] for i, e in enumerate(t)) \
                and any(e["e"] == "CallStart" and i > closes[0] for i, e in enumerate(t)):
            cands.append(t)
        if len(cands) >= 12:
            break
    if not cands:
        raise Inconclusive("no trace with a call after a close for the self-test")
    selftest = {}
    for n, base in enumerate(cands):
        ci = [i for i, e in enumerate(base) if e["e"] == "Close"][0]
        after = [i for i, e in enumerate(base) if e["e"] == "CallStart" and i > ci][0]
        r = base[after]["r"]
        m1 = [dict(e) for e in base]
        for e in m1:
            if e["e"] == "CallEnd" and e["r"] == r:
                e["ok"] = False                      # the call after the close "timed out"
        m1 = [e for e in m1 if not (e["e"] in ("SrvRecv", "SrvReply") and e["r"] == r)]
        acc, fails, _ = tracecheck.validate(ctx, SPEC, "Trace_ClientConn", cfg, [m1], name="selftest-timeout-%d" % n)
        if fails:
            selftest["call-after-close-times-out"] = "rejected (candidate %d)" % n
            break
    else:
        raise Inconclusive("binding self-test failed: a timed-out call after a known close was accepted in %d candidate runs" % len(cands))
    for n, base in enumerate(cands):
        ci = [i for i, e in enumerate(base) if e["e"] == "Close"][0]
        after = [i for i, e in enumerate(base) if e["e"] == "CallStart" and i > ci][0]
        dq = [i for i, e in enumerate(base) if e["e"] == "LiveCheck" and i > after]
        if not dq:
            continue
        m2 = [dict(e) for e in base]
        m2[dq[0]]["k"] = base[ci]["k"]               # the old connection's sender decides to write
        acc, fails, _ = tracecheck.validate(ctx, SPEC, "Trace_ClientConn", cfg, [m2], name="selftest-oldsender-%d" % n)
        if fails:
            selftest["old-sender-writes"] = "rejected (candidate %d)" % n
            break
        if n >= 3:
            raise Inconclusive("binding self-test failed: write decision on the closed connection was accepted")
    # restart: a call issued once the endpoint is up again (client has seen the closes) that "fails with the dial error" must be rejected
    for n, base in enumerate(t for t in traces if any(e["e"] == "SrvUp" for e in t)):
        ui = [i for i, e in enumerate(base) if e["e"] == "SrvUp"][-1]
        after = [i for i, e in enumerate(base) if e["e"] == "CallStart" and i > ui]
        if not after:
            continue
        r = base[after[0]]["r"]
        m3 = [dict(e) for e in base[:after[0] + 1]] + [{"e": "SendErr", "r": r, "err": "dial"}, {"e": "CallEnd", "r": r, "ok": False, "ms": 0}]
        acc, fails, _ = tracecheck.validate(ctx, SPEC, "Trace_ClientConn", cfg, [m3], name="selftest-stale-%d" % n)
        if not fails:
            raise Inconclusive("binding self-test failed: a dial error handed to a call issued after the endpoint was up again was accepted")
        selftest["dial-error-after-restart"] = "rejected"
        break
    else:
        raise Inconclusive("no restart run with a call after the endpoint came back (self-test / vacuity)")
    # the classes the scenarios are built for must have occurred (vacuity guards)
    late = sum(1 for t in traces if any(e["e"] == "Close" and any(x["e"] == "Close" and x["k"] > e["k"] for x in t[:i]) for i, e in enumerate(t)))
    short_after_handover = sum(1 for t in traces for i, e in enumerate(t) if e["e"] == "LiveCheck" and not e["live"]
                               and any(x["e"] == "CallEnd" and x.get("to", 1500) < 1000 for x in t[i:]))
    if dstats.get("send_errors", 0) == 0 or late == 0 or short_after_handover == 0:
        raise Inconclusive("a scenario class never occurred: failed dials %d, late close reports of an old connection %d, hand-overs under a short "
                           "call timeout %d" % (dstats.get("send_errors", 0), late, short_after_handover))
    notify = notification_path(ctx)
    r_fixes = {n: tlc.require_clean(f.result(), "ClientConn (Fix, %s)" % n) for n, f in f_fix.items()}
    r_fix = r_fixes["close"]
    for inv, f in f_orig.items():
        if inv not in f.result().inv_violated:
            raise Inconclusive("the original design does not violate %s in the model (vacuity guard)" % inv)
    for m, f in f_mut.items():
        if MUTANTS[m][0] not in f.result().inv_violated:
            raise Inconclusive("the wrong design '%s' does not violate %s in the model (vacuity guard)" % (m, MUTANTS[m][0]))
    ex.shutdown()
    calls = sum(1 for t in traces for e in t if e["e"] == "CallEnd")
    after_close = sum(1 for t in traces for i, e in enumerate(t) if e["e"] == "CallStart" and any(x["e"] == "Close" for x in t[:i]))
    ctx.coverage = {
        "states": sum(r.distinct for r in r_fixes.values()) + states, "transitions": sum(r.generated for r in r_fixes.values()) + trans,
        "traces_validated_against_impl": len(traces),
        "samples": [traces[0][:40]],
        "evaluations": len(traces), "distinct_nontrivial": len({json.dumps([{k: v for k, v in e.items() if k != "ms"} for e in t]) for t in traces}),
        "rule": "scenario classes by number (restart / heldrecv / handover / overlap / doubleclose / random); random: 2-4 calls per run, the server "
                "closing the connection in use between calls (p = 3/4), next call after 0/1/5/30/200/1100 ms, delays of 1-12 ms (one in three: "
                "40-140 ms) injected at one or two client hook points per run; call timeout 450/550/700 ms in the directed new classes and in "
                "half of the others, else 1500 ms; distinct = distinct event sequences",
        "model_checking": {"repaired": {n: {"distinct": r.distinct, "generated": r.generated} for n, r in r_fixes.items()},
                           "original_violates": list(INVS), "wrong_designs_violate": {m: v[0] for m, v in MUTANTS.items()}},
        "driver": dstats, "runs_with_a_late_close_report_of_an_old_connection": late,
        "timeouts_of_owed_calls_and_their_repetitions": reproduced,
        # observation, not judged: a call that raced with a close the client had not seen (exempt) and whose write FAILED is put into the
        # failure queue, but nobody re-dials (the sender's "try to reconnect once" needs err == net.ErrClosed, which a *net.OpError never
        # is): the request is sent only when a later call dials; a lone call runs into its timeout
        "observation_calls_stranded_after_a_failed_write_until_timeout": sum(
            1 for t in traces for i, e in enumerate(t) if e["e"] == "WriteError"
            and any(x["e"] == "CallEnd" and x["r"] == e["r"] and not x["ok"] for x in t[i:])),
        "hand_overs_under_a_short_call_timeout": short_after_handover,
        "calls": calls, "calls_issued_after_a_close_was_seen": after_close, "calls_timed_out_after_racing_a_close":
            sum(1 for t in traces for e in t if e["e"] == "CallEnd" and not e["ok"]),
        "hook_hits": dict(zip(["scenarios", "dialed", "dequeued", "close", "recv.exit", "enqueue", "tick"], hits)),
        "selftest_corrupted_traces": selftest, "exhaustive": False,
        "close_notification_path": notify,
    }


def notification_path(ctx):
    """The third kind of server-initiated close of the statement: the close notification (a push with request id 0 carrying
    the reconnect message, what Protocol.GetCloseMsg produces).  Real ServantProxy / AdapterProxy.onPush / GraceClose against
    the scripted peer of the C08/C09 harness (class 'notify'): first-wave calls are answered, the peer sends the
    notification, and once the client has received it every caller makes a second call 2..1200 ms later (before and after
    the old connection is closed by GraceClose's 500 ms tick).  The peer answers everything it receives on any connection,
    so each of those calls must succeed; the runs are also validated against ClientMux (Trace_ClientMux).
    The deadlines of these calls are short (the driver's: 90..400 ms), so a second-wave call that ran into its deadline is
    reported only if it does so again in two repetitions of the same runs (reproduce before report: a stranded request shows
    every time, a stalled machine does not); everything that does not depend on the clock is reported at once."""
    from checks import c08 as mux
    exe = gobuild.build(ctx, "muxdrive")
    attempts = []
    for attempt in range(3):
        res = notify_once(ctx, mux, exe, "c11notify" + ("-r%d" % attempt if attempt else ""), first=(attempt == 0))
        attempts.append(res)
        if not res["timeouts"]:
            break
    else:
        sc, e, t = attempts[0]["timeouts"][0]
        ctx.violate("C11:call-after-close-notification-failed:timeout",
                    "caller %d's call, issued after the client had received the server's close notification, ran into its deadline after %d ms "
                    "although the server answers every request it receives (a call did so in each of 3 repetitions: %s)"
                    % (e["c"], e.get("ms", -1), [len(a["timeouts"]) for a in attempts]), {"scenario": sc, "event": e, "trace": t[:300]})
    out = dict(attempts[0]["summary"])
    out["deadline_hits_per_repetition"] = [len(a["timeouts"]) for a in attempts]
    return out


def notify_once(ctx, mux, exe, name, first):
    traces, hits = mux.drive(ctx, exe, ["notify"], ctx.pick(10, 60), 16, ctx.pick(5, 10), name, selftest=False)
    failures, st, _ = mux.validate(ctx, traces, mux.C08_INV, name, groups=2)
    for t, f in failures:
        ev = f["event"]
        ctx.violate("C11:notify:trace-rejected:%s" % (f["invariant"][0] if f["invariant"] else ev.get("e")),
                    "run with a close notification is not a behaviour of ClientMux at event %s" % json.dumps(ev), mux.describe(t, f))
    second = failed = 0
    timeouts = []
    for t in traces:
        half = t[0]["k"] // 2
        pushed = any(e["e"] == "RecvBegin" and e.get("id") == 0 for e in t)
        for e in t:
            if e["e"] == "CallEnd" and e["c"] > half:
                second += 1
                if e["k"] != "reply" and pushed:
                    failed += 1
                    if e["k"] == "timeout":
                        timeouts.append((t[0], e, t))
                        continue
                    ctx.violate("C11:call-after-close-notification-failed:%s" % e["k"],
                                "caller %d's call, issued after the client had received the server's close notification, ended with %s "
                                "after %d ms although the server answers every request it receives" % (e["c"], e["k"], e.get("ms", -1)),
                                {"scenario": t[0], "event": e, "trace": t[:300]})
        # one close notification: connections dialled before it may be given up (the announced one is among them; concurrent
        # first calls can open more than one); the single connection dialled afterwards is healthy (the peer closes nothing in
        # these runs) and must neither be closed by the client nor be followed by yet another dial
        ni = next((i for i, e in enumerate(t) if e["e"] == "PeerSend" and e.get("kind") == "notify"), None)
        if ni is not None:
            before = {e["lp"] for e in t[:ni] if e["e"] == "Dialed"}
            after = [e["lp"] for e in t[ni:] if e["e"] == "Dialed"]
            closed_healthy = [e["lp"] for e in t[ni:] if e["e"] == "ConnClosed" and e["lp"] not in before]
            if len(after) > 1 or closed_healthy:
                ctx.violate("C11:notify:healthy-connection-closed",
                            "after one close notification the client dialled %d new connections and closed the one(s) with local port %s, "
                            "dialled after the notification, although the server closes nothing" % (len(after), closed_healthy),
                            {"scenario": t[0], "dialled_before": sorted(before), "dialled_after": after, "closed_after": closed_healthy, "trace": t[:300]})
        if not pushed:
            raise Inconclusive("notify run %d: the close notification never reached AdapterProxy.Recv" % t[0]["sc"])
    if second == 0:
        raise Inconclusive("no call was issued after a close notification")
    # binding self-test: a second-wave call that claims a reply the peer never sent must be rejected by the trace spec
    base = next((t for t in traces if all(e["k"] == "reply" for e in t if e["e"] == "CallEnd")), None)
    if first and base is not None and not failures:
        victim = [e for e in base if e["e"] == "CallEnd"][-1]
        other = [e for e in base if e["e"] == "CallEnd" and e["c"] != victim["c"]][0]
        m = [dict(e, tag=other["tag"]) if (e["e"] == "CallEnd" and e["c"] == victim["c"]) else e for e in base]
        mux.require_rejected(ctx, m, mux.C08_INV, "st-notify-tag")
    return {"timeouts": timeouts,
            "summary": {"runs": len(traces), "calls_after_the_notification": second, "failed": failed, "trace_states": st["states"]}}
