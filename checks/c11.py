"""C11 — calls keep succeeding across server-initiated connection closes.

Spec: spec/ClientConn (ClientConn.tla: shared isClosed / current connection / sendQueue / sendFailQueue, one
sender and one receiver goroutine per TCP connection with Go channel hand-off semantics; properties
NoWriteOnKnownDead, HealthyNotMarkedClosed, NoStranding).  MC: 3 connections x 2 requests, the server closing
idle connections at any point: the repaired design (Fix) satisfies all three, the original one violates each
(non-vacuity guard).
Binding B1 with schedule perturbation: a real transport.TarsClient talks to a harness server that answers
every request and closes the connection in use while the client is idle; the next call comes 0 ms .. 1.1 s
later (before/after the client's 1 s ticker); seeded delays injected at the client hooks (sender top /
fail-queue poll / before the blocking select / after a write error / before requeue / receiver error / close)
steer the goroutines into the rare interleavings.  Every hook event (dialled, enqueue, close, liveness check
[under connLock], before-write, write error, requeued, tick, tick-exit, receiver exit), the server's
received/replied/closed and each call's outcome form a trace that TLC validates against ClientConn: the
invariants hold at every step and a call issued after the close was known must not time out.
"""
import json
import os
from concurrent.futures import ThreadPoolExecutor

from lib import gobuild, tlc, tracecheck
from lib.core import Inconclusive, VERIF, sh

SPEC = "ClientConn"
INVS = ("NoWriteOnKnownDead", "HealthyNotMarkedClosed", "NoStranding")


def split(path):
    traces, cur = [], []
    for line in open(path):
        e = json.loads(line)
        if e["e"] == "Reset":
            traces.append(cur)
            cur = []
        else:
            cur.append(e)
    return traces


REDIAL_FIRST = "TRUE"   # the hand-over order of the code: FALSE = requeue, then ReConnect; TRUE = ReConnect, then requeue


def mc_cfg(fix, inv, reqs="{1, 2}", redial_first=None):
    return ("CONSTANTS MaxConn = 3  Reqs = %s  Fix = %s  RedialFirst = %s\nSPECIFICATION Spec\nINVARIANTS TypeOK %s\nCHECK_DEADLOCK FALSE\n"
            % (reqs, fix, redial_first or REDIAL_FIRST, inv))


def run(ctx):
    ctx.level = "model_checking"
    ctx.assumptions = [
        "Go channel semantics as modelled (FIFO hand-off to the longest-parked receiver)",
        "the server answers everything it receives and closes a connection only while the client has no call in progress; calls that race with a close are exempt, as in the statement",
        "call timeout 1.5 s; a call issued after the client has seen the close must succeed (any latency below the timeout)",
    ]
    ex = ThreadPoolExecutor(max_workers=4)
    f_fix = ex.submit(tlc.run, ctx, SPEC, "ClientConn", cfg="mc.cfg", workers=6, timeout=1500, name="mc-fix",
                      extra_files={"mc.cfg": mc_cfg("TRUE", " ".join(INVS), ctx.pick("{1, 2}", "{1, 2, 3}"))}, heap="8g")
    f_orig = {inv: ex.submit(tlc.run, ctx, SPEC, "ClientConn", cfg="mc.cfg", workers=2, timeout=900, name="mc-orig-" + inv,
                             extra_files={"mc.cfg": mc_cfg("FALSE", inv)}) for inv in INVS}
    exe = gobuild.build(ctx, "vdrive")
    nproc = 10
    per = ctx.pick(8, 120)

    def drive(i):
        out = os.path.join(ctx.work, "cc%d.ndjson" % i)
        rc, so, se = sh([exe, "clientconn-trace", "-seed", str(ctx.seed * 100 + i), "-n", str(per), "-out", out], timeout=3400)
        return out, [int(x) for x in so.split()[-7:]]

    with ThreadPoolExecutor(max_workers=nproc) as exd:
        outs = list(exd.map(drive, range(nproc)))
    hits = [sum(o[1][k] for o in outs) for k in range(7)]
    if min(hits[1:6]) == 0:
        raise Inconclusive("hook self-test: a client hook never fired: %s" % hits)
    traces = []
    for out, _ in outs:
        traces += split(out)
    cfg = open(os.path.join(VERIF, "spec", SPEC, "Trace.cfg")).read().replace("@REDIAL_FIRST@", REDIAL_FIRST)
    k = 8
    parts = [traces[i::k] for i in range(k)]
    states = trans = 0
    with ThreadPoolExecutor(max_workers=k) as exv:
        results = list(exv.map(lambda ip: tracecheck.validate(ctx, SPEC, "Trace_ClientConn", cfg, ip[1], name="trace-%d" % ip[0], timeout=900),
                               list(enumerate(parts))))
    for (acc, fails, st), part in zip(results, parts):
        states += st["states"]
        trans += st["transitions"]
        for f in fails:
            t = part[f["index"]]
            ev = f["event"]
            if f["invariant"]:
                sig = "C11:%s" % f["invariant"][0]
            elif ev.get("e") == "CallEnd" and not ev.get("ok"):
                sig = "C11:call-after-close-timed-out"
            elif ev.get("e") == "Dialed":
                sig = "C11:dial-although-current-connection-healthy"
            elif ev.get("e") in ("Dequeued", "LiveCheck"):
                sig = "C11:request-taken-for-a-connection-known-dead"
            else:
                sig = "C11:trace-rejected:%s" % ev.get("e")
            ctx.violate(sig, "client run is not a behaviour of ClientConn (repaired design) at event %s; preceding events: %s"
                        % (json.dumps(ev), json.dumps(f["prefix"][:-1])[:400]), {"trace": t, "offset": f["offset"]})
    # binding self-test on an accepted trace with a close followed by a successful call
    # (a call that starts after the client saw one close may still race with another close the client has not seen yet:
    # its timing out is then a behaviour of the model, so several candidate runs are tried)
    cands = []
    for t in traces:
        closes = [i for i, e in enumerate(t) if e["e"] == "Close"]
        if closes and any(e["e"] == "CallEnd" and e["ok"] and i > closes[0] for i, e in enumerate(t)) \
                and any(e["e"] == "CallStart" and i > closes[0] for i, e in enumerate(t)):
            cands.append(t)
        if len(cands) >= 12:
            break
    if not cands:
        raise Inconclusive("no trace with a call after a close for the self-test")
    selftest = {}
    for n, base in enumerate(cands):
        ci = [i for i, e in enumerate(base) if e["e"] == "Close"][0]
        after = [i for i, e in enumerate(base) if e["e"] == "CallStart" and i > ci][0]
        r = base[after]["r"]
        m1 = [dict(e) for e in base]
        for e in m1:
            if e["e"] == "CallEnd" and e["r"] == r:
                e["ok"] = False                      # the call after the close "timed out"
        m1 = [e for e in m1 if not (e["e"] in ("SrvRecv", "SrvReply") and e["r"] == r)]
        acc, fails, _ = tracecheck.validate(ctx, SPEC, "Trace_ClientConn", cfg, [m1], name="selftest-timeout-%d" % n)
        if fails:
            selftest["call-after-close-times-out"] = "rejected (candidate %d)" % n
            break
    else:
        raise Inconclusive("binding self-test failed: a timed-out call after a known close was accepted in %d candidate runs" % len(cands))
    for n, base in enumerate(cands):
        ci = [i for i, e in enumerate(base) if e["e"] == "Close"][0]
        after = [i for i, e in enumerate(base) if e["e"] == "CallStart" and i > ci][0]
        dq = [i for i, e in enumerate(base) if e["e"] == "LiveCheck" and i > after]
        if not dq:
            continue
        m2 = [dict(e) for e in base]
        m2[dq[0]]["k"] = base[ci]["k"]               # the old connection's sender decides to write
        acc, fails, _ = tracecheck.validate(ctx, SPEC, "Trace_ClientConn", cfg, [m2], name="selftest-oldsender-%d" % n)
        if fails:
            selftest["old-sender-writes"] = "rejected (candidate %d)" % n
            break
        if n >= 3:
            raise Inconclusive("binding self-test failed: write decision on the closed connection was accepted")
    notify = notification_path(ctx)
    r_fix = tlc.require_clean(f_fix.result(), "ClientConn (Fix)")
    for inv, f in f_orig.items():
        if inv not in f.result().inv_violated:
            raise Inconclusive("the original design does not violate %s in the model (vacuity guard)" % inv)
    ex.shutdown()
    calls = sum(1 for t in traces for e in t if e["e"] == "CallEnd")
    after_close = sum(1 for t in traces for i, e in enumerate(t) if e["e"] == "CallStart" and any(x["e"] == "Close" for x in t[:i]))
    ctx.coverage = {
        "states": r_fix.distinct + states, "transitions": r_fix.generated + trans,
        "traces_validated_against_impl": len(traces),
        "samples": [traces[0][:40]],
        "evaluations": len(traces), "distinct_nontrivial": len({json.dumps([{k: v for k, v in e.items() if k != "ms"} for e in t]) for t in traces}),
        "rule": "2-4 calls per run, the server closing the connection in use between calls (p = 3/4), next call after 0/1/5/30/200/1100 ms, "
                "delays of 1-12 ms injected at one or two client hook points per run; distinct = distinct event sequences",
        "model_checking": {"repaired": {"distinct": r_fix.distinct, "generated": r_fix.generated},
                           "original_violates": list(INVS)},
        "calls": calls, "calls_issued_after_a_close_was_seen": after_close, "calls_timed_out_after_racing_a_close":
            sum(1 for t in traces for e in t if e["e"] == "CallEnd" and not e["ok"]),
        "hook_hits": dict(zip(["scenarios", "dialed", "dequeued", "close", "recv.exit", "enqueue", "tick"], hits)),
        "selftest_corrupted_traces": selftest, "exhaustive": False,
        "close_notification_path": notify,
    }


def notification_path(ctx):
    """The third kind of server-initiated close of the statement: the close notification (a push with request id 0 carrying
    the reconnect message, what Protocol.GetCloseMsg produces).  Real ServantProxy / AdapterProxy.onPush / GraceClose against
    the scripted peer of the C08/C09 harness (class 'notify'): first-wave calls are answered, the peer sends the
    notification, and once the client has received it every caller makes a second call 2..1200 ms later (before and after
    the old connection is closed by GraceClose's 500 ms tick).  The peer answers everything it receives on any connection,
    so each of those calls must succeed; the runs are also validated against ClientMux (Trace_ClientMux)."""
    from checks import c08 as mux
    exe = gobuild.build(ctx, "muxdrive")
    traces, hits = mux.drive(ctx, exe, ["notify"], ctx.pick(10, 60), 16, ctx.pick(5, 10), "c11notify", selftest=False)
    failures, st, _ = mux.validate(ctx, traces, mux.C08_INV, "c11notify", groups=2)
    for t, f in failures:
        ev = f["event"]
        ctx.violate("C11:notify:trace-rejected:%s" % (f["invariant"][0] if f["invariant"] else ev.get("e")),
                    "run with a close notification is not a behaviour of ClientMux at event %s" % json.dumps(ev), mux.describe(t, f))
    second = failed = 0
    delays = {}
    for t in traces:
        half = t[0]["k"] // 2
        pushed = any(e["e"] == "RecvBegin" and e.get("id") == 0 for e in t)
        for e in t:
            if e["e"] == "CallEnd" and e["c"] > half:
                second += 1
                if e["k"] != "reply" and pushed:
                    failed += 1
                    ctx.violate("C11:call-after-close-notification-failed:%s" % e["k"],
                                "caller %d's call, issued after the client had received the server's close notification, ended with %s "
                                "after %d ms although the server answers every request it receives" % (e["c"], e["k"], e.get("ms", -1)),
                                {"scenario": t[0], "event": e, "trace": t[:300]})
        # one close notification: connections dialled before it may be given up (the announced one is among them; concurrent
        # first calls can open more than one); the single connection dialled afterwards is healthy (the peer closes nothing in
        # these runs) and must neither be closed by the client nor be followed by yet another dial
        ni = next((i for i, e in enumerate(t) if e["e"] == "PeerSend" and e.get("kind") == "notify"), None)
        if ni is not None:
            before = {e["lp"] for e in t[:ni] if e["e"] == "Dialed"}
            after = [e["lp"] for e in t[ni:] if e["e"] == "Dialed"]
            closed_healthy = [e["lp"] for e in t[ni:] if e["e"] == "ConnClosed" and e["lp"] not in before]
            if len(after) > 1 or closed_healthy:
                ctx.violate("C11:notify:healthy-connection-closed",
                            "after one close notification the client dialled %d new connections and closed the one(s) with local port %s, "
                            "dialled after the notification, although the server closes nothing" % (len(after), closed_healthy),
                            {"scenario": t[0], "dialled_before": sorted(before), "dialled_after": after, "closed_after": closed_healthy, "trace": t[:300]})
        if not pushed:
            raise Inconclusive("notify run %d: the close notification never reached AdapterProxy.Recv" % t[0]["sc"])
    if second == 0:
        raise Inconclusive("no call was issued after a close notification")
    # binding self-test: a second-wave call that claims a reply the peer never sent must be rejected by the trace spec
    base = next((t for t in traces if all(e["k"] == "reply" for e in t if e["e"] == "CallEnd")), None)
    if base is not None and not failures:
        victim = [e for e in base if e["e"] == "CallEnd"][-1]
        other = [e for e in base if e["e"] == "CallEnd" and e["c"] != victim["c"]][0]
        m = [dict(e, tag=other["tag"]) if (e["e"] == "CallEnd" and e["c"] == victim["c"]) else e for e in base]
        mux.require_rejected(ctx, m, mux.C08_INV, "st-notify-tag")
    return {"runs": len(traces), "calls_after_the_notification": second, "failed": failed, "trace_states": st["states"]}
