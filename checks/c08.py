"""C08 — responses are delivered to the caller of the matching request id.

Spec: spec/ClientMux (IdGen: the id generator with the real wrap rule; ClientMux: pending-reply table, callers
idle -> cas -> add -> pre -> sel -> reg1 -> reg2 -> send -> wait -> unreg1 -> unreg2 -> post -> done, sender, a peer that
answers any id any number of times in any order (duplicates, ids nobody waits for, id 0, garbage), one receiver
goroutine per packet: lookup, then rendezvous with the waiting caller or give up).
MC (id space -5..4): MC_ids (3 callers, no peer, every interleaving of the generator and the counters across the wrap
point and across zero; thorough: every start value), MC_mux2 (2 callers, every interleaving of callers, sender, peer and
receivers, 2 peer packets of any kind; thorough 4), MC_mux3 (3 callers, commuting local steps run to completion, 1 packet;
thorough 3 incl. an id not yet drawn): ReplyMatches, IdNonZero, IdsDistinct, OnePacketOneCaller, accounting,
LateReplyHarmless, OnlyAddressee.
Binding B1: the real ServantProxy on a direct endpoint <-> scripted TCP peer (harness/cmd/muxdrive); hooks in
doInvoke / Recv, transport hooks, the counter placed just below the wrap point / below zero through VerifSetMsgID,
payloads carry the caller identity and every peer packet a serial.  TLC validates every run against
Trace_ClientMux; what the code reports (ids, the packet a caller took) is accepted and judged by the invariants.
Runs with a transparent client filter registered (pre, post, legacy client filter, middleware: process-wide registrations, so one
muxdrive process per kind) over the classes that end in timeouts, send errors and lost connections: what the caller of
TarsInvoke holds at CallEnd is what counts -- a caller that reports success although doInvoke ended otherwise is accepted as
observed (TCallEndClaim) and judged by ReplyMatches.
B3 for the generator: sequential and concurrent draws from the real genRequestID judged by Oracle_ClientMux (bursts started
through a channel and through a spinning start line of three goroutines).
Adapters closed while calls are outstanding on them (muxdrive adpclose, Trace_ClientMuxAdp, MC_adpclose*): a proxy fed by a
scripted registry whose refresh withdraws / re-keys / re-adds / moves to the inactive list an endpoint through the manager's own
refresher (endpointManager.refreshEndpoints -> AdapterProxy.Close), and the export close on a direct endpoint, with a first wave
of calls outstanding and a second wave started right behind the close.  Every event is written through to a journal; a process
that ends during a scenario is run again alone and, if it ends again, the journal + ProcExit is what TLC judges (no step for
ProcExit while a call is in flight).
This module also holds the machinery shared with C09 (checks/c09.py).
"""
import json
import os
import re
from concurrent.futures import ThreadPoolExecutor

from lib import gobuild, tlc, tracecheck
from lib.core import Inconclusive, VERIF, sh

SPEC = "ClientMux"
C08_INV = ["ReplyMatches", "IdNonZero", "IdsDistinct", "OnePacketOneCaller"]
C08_CLASSES = ["inorder", "permuted", "dup", "dupburst", "foreign", "late", "mixed", "garbage", "close", "giveup", "sequel"]
HOOKS = ["mux.reg.begin", "mux.registered", "mux.unreg.begin", "mux.unregistered", "mux.recv.begin", "mux.recv.lookup",
         "mux.recv.delivered", "mux.recv.gaveup", "mux.recv.bad", "client.send.dequeued", "client.recv.pkg"]


# ------------------------------------------------------------------ model checking
def start_mc(ctx, ex, cfgs, workers=4, timeout=900, module="MC_ClientMux"):
    return {c: ex.submit(tlc.run, ctx, SPEC, module, cfg="MC_%s.cfg" % c, workers=workers, timeout=timeout, name="mc-" + c)
            for c in cfgs}


def collect_mc(futs, expect_violation=None):
    """expect_violation: {cfg: invariant} for the configurations that model a recorded deviation (non-vacuity)."""
    expect_violation = expect_violation or {}
    mc = {}
    for c, f in futs.items():
        r = f.result()
        if c in expect_violation:
            if expect_violation[c] not in r.inv_violated + r.prop_violated:
                raise Inconclusive("MC_%s was expected to violate %s (vacuity guard) but did not:\n%s"
                                   % (c, expect_violation[c], "\n".join(r.out.splitlines()[-15:])))
            mc[c] = {"expected_violation": expect_violation[c], "distinct": r.distinct}
            continue
        tlc.require_clean(r, "MC_ClientMux/" + c)
        mc[c] = {"distinct": r.distinct, "generated": r.generated, "depth": r.depth, "wall_s": round(r.wall, 1)}
    return mc


# ------------------------------------------------------------------ driving the real code
def split(path):
    traces, cur = [], []
    for line in open(path):
        e = json.loads(line)
        if e["e"] == "End":
            traces.append(cur)
            cur = []
        else:
            cur.append(e)
    return traces


FILTERS = ["pre", "post", "legacy", "mw"]
FILTER_CLASSES = ["never", "late", "mixed", "close", "refuse", "garbage", "inorder"]      # timeouts, send errors, lost connections, replies


def drive(ctx, exe, classes, per, maxk, shards, tag, selftest=True, filters=None, stop_on_hung=False, sc_offset=0):
    """Runs the scenario plan in `shards` processes (the id counter and the hooks are process-wide).
    filters: client filters are process-wide registrations, so each kind gets a process of its own that runs the whole plan
    (`shards` is ignored).  Scenario numbers are made unique per check by sc_offset; Config.drv holds what a re-run needs."""
    jobs = [(i, "%d/%d" % (i, shards), "none", sc_offset) for i in range(shards)]
    if filters:
        jobs = [(i, "0/1", f, sc_offset + 1000 * i) for i, f in enumerate(filters)]

    def one(job):
        i, shard, flt, off = job
        out = os.path.join(ctx.work, "%s-%d.ndjson" % (tag, i))
        rc, so, se = sh([exe, "trace", "-seed", str(ctx.seed), "-classes", ",".join(classes), "-per", str(per), "-maxk", str(maxk),
                         "-shard", shard, "-out", out, "-filter", flt] + (["-stop-on-hung"] if stop_on_hung else []), timeout=3000)
        ts = split(out)
        for t in ts:
            if t and t[0]["e"] == "Config":
                t[0]["drv"] = "%s|%d|%d|%s|%d" % (",".join(classes), per, maxk, flt, t[0]["sc"])
                t[0]["sc"] += off
        summary = json.loads(so.strip().splitlines()[-1])
        if flt != "none" and summary.get("filter_calls", 0) == 0:
            raise Inconclusive("the '%s' client filter was registered but never ran" % flt)
        return ts, summary

    with ThreadPoolExecutor(max_workers=len(jobs)) as ex:
        res = list(ex.map(one, jobs))
    traces, hits = [], {}
    for t, h in res:
        traces.extend(t)
        for k, v in h["hits"].items():
            hits[k] = hits.get(k, 0) + v
        if h.get("filter_calls"):
            hits["filter:" + h["filter"]] = hits.get("filter:" + h["filter"], 0) + h["filter_calls"]
    errs = [e for t in traces for e in t if e["e"] == "HarnessError"]
    if errs:
        raise Inconclusive("the harness could not drive %d scenario(s): %s" % (len(errs), errs[:3]))
    for t in traces:
        if not t or t[0]["e"] != "Config" or t[-1]["e"] not in ("Quiesce", "Hung"):
            raise Inconclusive("malformed trace (scenario %s)" % (t[0] if t else None))
    silent = [h for h in HOOKS if hits.get(h, 0) == 0 and (h != "mux.recv.bad" or "garbage" in classes or "foreign" in classes)
              and (h != "mux.recv.gaveup" or "giveup" in classes)]
    if silent and selftest:
        raise Inconclusive("hook self-test: hook point(s) never fired: %s (hooks patch C08-hooks.diff not applied?)" % silent)
    return traces, hits


def rerun(ctx, exe, classes, per, maxk, idx, tag, flt="none"):
    out = os.path.join(ctx.work, "%s-rerun-%d.ndjson" % (tag, idx))
    sh([exe, "trace", "-seed", str(ctx.seed), "-classes", ",".join(classes), "-per", str(per), "-maxk", str(maxk), "-only", str(idx),
        "-out", out, "-filter", flt], timeout=600)
    ts = split(out)
    if len(ts) != 1:
        raise Inconclusive("re-run of scenario %d produced %d traces" % (idx, len(ts)))
    return ts[0]


def rerun_trace(ctx, exe, t, tag):
    """The scenario of trace t once more, alone, in a fresh process (same plan, same filter)."""
    classes, per, maxk, flt, idx = t[0]["drv"].split("|")
    r = rerun(ctx, exe, classes.split(","), int(per), int(maxk), int(idx), tag, flt)
    r[0]["drv"], r[0]["sc"] = t[0]["drv"], t[0]["sc"]
    return r


def cls_of(t):
    """The class named in signatures: the peer behaviour, plus the client filter registered in the process if there is one."""
    flt = t[0].get("flt", "none")
    return t[0]["cls"] + ("" if flt in ("none", "") else "+%s-filter" % flt)


# ------------------------------------------------------------------ adapters closed while calls are outstanding on them
ADP_MODULE, ADP_SPEC = "Trace_ClientMuxAdp", "AdpSpec"
ADP_CLASSES = ["adpclose-drop", "adpclose-export", "adpclose-swap", "adpclose-readd", "adpclose-rekey", "adpclose-midwave", "adpclose-inactive"]
ADP_CLOSING = [c for c in ADP_CLASSES if c != "adpclose-inactive"]      # classes in which an adapter is closed


def read_journal(path):
    """The events of the scenario that was under way when the process ended (every event was written through at once; a torn
    last line is dropped).  RecvBegin is completed as the driver does at the end of a run (annotate)."""
    evs = []
    if os.path.exists(path):
        for line in open(path):
            try:
                evs.append(json.loads(line))
            except ValueError:
                break
    res = {e["q"]: (1 if e["found"] else 0) for e in evs if e["e"] == "RecvLookup"}
    for e in evs:
        if e["e"] == "RecvBegin":
            e["f"] = res.get(e["q"], 2)
    return evs


def panic_dump(exe):
    """tars.CheckPanic writes the panic message and the stacks next to the executable (panic.<time>) before it ends the process:
    the message and the first frames of the framework, for the report."""
    import glob
    dumps = sorted(glob.glob(os.path.join(os.path.dirname(exe), "panic.*")), key=os.path.getmtime)
    if not dumps:
        return []
    lines = open(dumps[-1], errors="replace").read().splitlines()
    frames = [l.strip() for l in lines if "TarsGo/tars" in l and "CheckPanic" not in l and "DumpStack" not in l and not l.startswith("\t")]
    return ["panic: " + (lines[0] if lines else "?")] + ["at " + f for f in frames[:3]]


def drive_adp(ctx, exe, per, maxk, shards, tag, seed=None, classes=None, sc_offset=200000):
    """muxdrive adpclose in `shards` processes.  A process that ends while a scenario is under way: the scenario is run once more,
    alone, in a fresh process; only if that process ends too is the recorded part of the run (journal) + ProcExit handed to TLC.
    The scenarios behind it are run by a further process.  Returns (traces, hits, exits, notes)."""
    seed = ctx.seed if seed is None else seed

    def cmd(shard, out, *more):
        return [exe, "adpclose", "-seed", str(seed), "-per", str(per), "-maxk", str(maxk), "-shard", shard, "-out", out] + (
            ["-classes", ",".join(classes)] if classes else []) + list(more)

    def ended(rc, se, what):
        if rc == 3 and "muxdrive:" in se:
            raise Inconclusive("the harness could not run %s: %s" % (what, se[-400:]))

    def one(i):
        shard, traces, hits, exits, notes, frm = "%d/%d" % (i, shards), [], {}, [], [], 0
        for rnd in range(per * len(ADP_CLASSES) + 1):
            out = os.path.join(ctx.work, "%s-%d-%d.ndjson" % (tag, i, rnd))
            rc, so, se = sh(cmd(shard, out, "-from", str(frm)), timeout=1500, check=False)
            traces.extend(split(out))
            if rc == 0:
                for k, v in json.loads(so.strip().splitlines()[-1])["hits"].items():
                    hits[k] = hits.get(k, 0) + v
                return traces, hits, exits, notes
            ended(rc, se, "the adapter-close scenarios")
            part = read_journal(out + ".journal")
            if not part or part[0]["e"] != "Config":
                raise Inconclusive("muxdrive adpclose ended with status %d outside a scenario:\n%s" % (rc, se[-1500:]))
            idx = part[0]["sc"]
            out2 = os.path.join(ctx.work, "%s-%d-again-%d.ndjson" % (tag, i, idx))
            rc2, so2, se2 = sh(cmd("0/1", out2, "-only", str(idx)), timeout=600, check=False)
            if rc2 == 0:
                notes.append("a process running adapter-close scenario %d (%s) ended with status %d; not reproduced when the scenario "
                             "was run again alone (no verdict)" % (idx, part[0]["cls"], rc))
                traces.extend(split(out2))
            else:
                ended(rc2, se2, "scenario %d" % idx)
                part2 = read_journal(out2 + ".journal")
                if part2 and part2[0]["e"] == "Config":
                    part, rc, se = part2, rc2, se2
                part.append({"e": "ProcExit", "rc": rc, "t": max(e.get("t", 0) for e in part)})
                exits.append({"trace": part, "rc": rc, "stderr": [l for l in se.splitlines() if l.strip()][:60] or panic_dump(exe)})
                traces.append(part)
            frm = idx + 1
        raise Inconclusive("muxdrive adpclose: too many processes ended")

    with ThreadPoolExecutor(max_workers=shards) as ex:
        res = list(ex.map(one, range(shards)))
    traces, hits, exits, notes = [], {}, [], []
    for t, h, x, n in res:
        traces += t
        exits += x
        notes += n
        for k, v in h.items():
            hits[k] = hits.get(k, 0) + v
    errs = [e for t in traces for e in t if e["e"] == "HarnessError"]
    if errs:
        raise Inconclusive("the harness could not drive %d adapter-close scenario(s): %s" % (len(errs), errs[:3]))
    for t in traces:
        if not t or t[0]["e"] != "Config" or t[-1]["e"] not in ("Quiesce", "Hung", "ProcExit"):
            raise Inconclusive("malformed trace (adapter-close scenario %s)" % (t[0] if t else None))
        t[0]["drv"] = "adpclose|%d|%d|%d|none|%d" % (seed, per, maxk, t[0]["sc"])
        t[0]["sc"] += sc_offset
    return traces, hits, exits, notes


def adp_stats(traces):
    """Per class: runs, adapters closed, calls that were outstanding on an adapter when it was closed, and how those runs' calls ended."""
    st = {}
    for t in traces:
        d = st.setdefault(t[0]["cls"], {"runs": 0, "adapters_closed": 0, "calls_outstanding_on_a_closed_adapter": 0, "call_outcomes": {}})
        d["runs"] += 1
        for e in t:
            if e["e"] in ("Refresh", "AdpClose"):
                d["adapters_closed"] += e["adapters"] if e["e"] == "AdpClose" else (e["adapters"] if e["withdrawn"] else 0)
                d["calls_outstanding_on_a_closed_adapter"] += e["pend"] if (e["e"] == "AdpClose" or e["withdrawn"]) else 0
            elif e["e"] == "CallEnd":
                k = e["k"] + (":" + e["err"] if e.get("err") else "")
                d["call_outcomes"][k] = d["call_outcomes"].get(k, 0) + 1
    return st


def adp_vacuous(traces):
    """The classes in which no call was outstanding on an adapter at the moment it was closed."""
    st = adp_stats(traces)
    return [c for c in ADP_CLOSING if st.get(c, {}).get("calls_outstanding_on_a_closed_adapter", 0) == 0]


def selftests_adp(ctx, traces):
    """traces: adapter-close runs TLC accepted.  (1) the run cut right after the close, with calls in flight, and ended by ProcExit;
    (2) a first-wave call that ended with a timeout reported as a success with an empty response."""
    for t in traces:
        marks = [i for i, e in enumerate(t) if e["e"] in ("Refreshed", "AdpClosed")]
        closes = [e for e in t if e["e"] in ("Refresh", "AdpClose") and e["pend"] > 0 and (e["e"] == "AdpClose" or e["withdrawn"])]
        to = [e for e in t if e["e"] == "CallEnd" and e["k"] == "timeout" and e["c"] <= t[0]["k1"]]
        if not (marks and closes and to and t[-1]["e"] == "Quiesce" and t[0]["k"] <= 8):
            continue
        cut = marks[0] + 1
        ended = {e["c"] for e in t[:cut] if e["e"] == "CallEnd"}
        if len(ended) == t[0]["k1"]:
            continue
        m1 = t[:cut] + [{"e": "ProcExit", "rc": 255, "t": t[cut - 1]["t"]}]
        m2 = [dict(e, k="reply", p=0, rid=0, tag=0) if e is to[0] else e for e in t]
        return require_all_rejected(ctx, C08_INV, {"process-ended-with-calls-outstanding-at-the-close": (m1, None),
                                                   "timeout-after-close-reported-as-empty-success": (m2, "ReplyMatches")}, ADP_MODULE, ADP_SPEC)
    raise Inconclusive("no adapter-close run suitable for the binding self-test (none with a call outstanding at the close that timed out)")



# ------------------------------------------------------------------ trace validation
def cfg_text(nc, invariants, spec="TraceSpec"):
    t = open(os.path.join(VERIF, "spec", SPEC, "Trace.cfg.tmpl")).read().replace("@NC@", str(nc))
    t = t.replace("SPECIFICATION TraceSpec", "SPECIFICATION " + spec)
    return re.sub(r"^INVARIANTS.*$", "INVARIANTS " + " ".join(invariants), t, flags=re.M)


def nc_of(t):
    k = t[0]["k"]
    return 8 if k <= 8 else 32 if k <= 32 else 128 if k <= 128 else 512


def validate(ctx, traces, invariants, name, groups=4, timeout=1500, singly=False, module="Trace_ClientMux", spec="TraceSpec"):
    """Validates the traces in parallel TLC runs.  Returns (failures, stats, tinv): a failure is (trace, info);
    tinv maps scenario index -> (observed, predicted) connection.invokeNum where TQuiesce printed a deviation."""
    buckets = {}
    for i, t in enumerate(traces):
        nc = nc_of(t)
        if t[0]["k"] > 512:
            raise Inconclusive("scenario with %d callers exceeds the trace configuration" % t[0]["k"])
        n = len(traces) if singly else {8: 1, 32: groups, 128: max(groups, 6), 512: 4}[nc]
        buckets.setdefault((nc, i % n), []).append(t)

    def val(item):
        (nc, g), ts = item
        return ts, bucket(ctx, ts, cfg_text(nc, invariants, spec), "%s-%d-%d" % (name, nc, g), timeout, module=module)

    failures, states, trans, tinv, early = [], 0, 0, {}, {}
    with ThreadPoolExecutor(max_workers=min(6, len(buckets) or 1)) as ex:
        for ts, (fails, st, tv) in ex.map(val, list(buckets.items())):
            states += st["states"]
            trans += st["transitions"]
            tinv.update(tv)
            early.update(st["early"])
            for f in fails:
                failures.append((ts[f["index"]], f))
    return failures, {"states": states, "transitions": trans, "early": early}, tinv


def bucket(ctx, traces, cfg, name, timeout, max_failures=8, module="Trace_ClientMux"):
    """tracecheck.validate, keeping TLC's output: TQuiesce prints <<"TINV", scenario, observed, predicted>> whenever
    connection.invokeNum read from the code is not 0 or differs from the model's prediction."""
    idx = list(range(len(traces)))
    failures, states, trans, tinv, early = [], 0, 0, {}, {}
    while idx:
        ok, bad, r = tracecheck.run_once(ctx, SPEC, module, cfg, [traces[i] for i in idx], name, {"e": "End"}, timeout, None, False)
        states += r.distinct
        trans += r.generated
        for m in re.finditer(r'<<"TINV", (-?\d+), (-?\d+), (-?\d+)>>', r.out):
            tinv[int(m.group(1))] = (int(m.group(2)), int(m.group(3)))
        # calls that ended with a timeout although their reply was written well before the deadline: (how many, how many behind a stray)
        for m in re.finditer(r'<<"EARLY", (-?\d+), (\d+), (\d+)>>', r.out):
            early[int(m.group(1))] = (int(m.group(2)), int(m.group(3)))
        if ok:
            break
        k, off, inv = bad
        t = traces[idx[k]]
        failures.append({"index": idx[k], "offset": off, "event": (t[off] if off < len(t) else {"e": "End"}), "invariant": inv,
                         "prefix": t[max(0, off - 6):off + 1]})
        idx.pop(k)
        if len(failures) >= max_failures:
            break
    return failures, {"states": states, "transitions": trans, "early": early}, tinv


def describe(t, f):
    cfg = t[0]
    ev = f["event"]
    return {"scenario": cfg["sc"], "class": cls_of(t), "callers": cfg["k"], "config": cfg, "offset": f["offset"], "event": ev,
            "invariant": f["invariant"], "prefix": f["prefix"], "trace": t if len(t) <= 400 else t[:400]}


def require_rejected(ctx, t, invariants, name, expect_inv=None, module="Trace_ClientMux", spec="TraceSpec"):
    acc, fails, _ = tracecheck.validate(ctx, SPEC, module, cfg_text(nc_of(t), invariants, spec), [t], name=name, reset={"e": "End"},
                                        timeout=300)
    if not fails:
        raise Inconclusive("binding self-test failed: corrupted trace '%s' was accepted" % name)
    inv = fails[0]["invariant"]
    if expect_inv and expect_inv not in inv:
        raise Inconclusive("binding self-test '%s': rejected, but by %s instead of %s (event %s)" % (name, inv, expect_inv, fails[0]["event"]))
    return "rejected" + (":" + inv[0] if inv else ":no-step-for:" + str(fails[0]["event"].get("e")))


def require_all_rejected(ctx, invariants, cases, module="Trace_ClientMux", spec="TraceSpec"):
    """cases: {name: (trace, expected invariant or None)}; the corrupted traces are judged in parallel."""
    with ThreadPoolExecutor(max_workers=len(cases)) as ex:
        futs = {n: ex.submit(require_rejected, ctx, t, invariants, "st-" + re.sub(r"[^a-z0-9]+", "-", n.lower())[:24], inv, module, spec)
                for n, (t, inv) in cases.items()}
        return {n: f.result() for n, f in futs.items()}


def replace_id(t, old, new):
    out = []
    for e in t:
        e = dict(e)
        if e.get("id") == old and e["e"] != "Config":
            e["id"] = new
        if e.get("rid") == old:
            e["rid"] = new
        out.append(e)
    return out


def id_oracle(ctx, exe):
    out = os.path.join(ctx.work, "idseq.ndjson")
    sh([exe, "idseq", "-out", out], timeout=120)
    recs = [json.loads(l) for l in open(out)]
    if not all(r["mapped"] for r in recs):
        raise Inconclusive("id oracle: a drawn id lies outside the mapped regions")
    r = tlc.run(ctx, SPEC, "Oracle_ClientMux", cfg="Oracle.cfg", workers=1, timeout=300, extra_files={"recs.ndjson": open(out).read()},
                name="idoracle")
    sets = {}
    for k in ("ZERO", "DUP", "OFF"):
        m = re.search(r'<<\s*"%s",\s*\{([^}]*)\}\s*>>' % k, r.out, re.S)
        if not m:
            raise Inconclusive("id oracle produced no %s line:\n%s" % (k, "\n".join(r.out.splitlines()[-20:])))
        sets[k] = [int(x) for x in m.group(1).split(",") if x.strip()]
    return recs, sets, r


def selftests_c08(ctx, traces):
    """traces: runs TLC accepted (the corrupted copies must be rejected for the corruption, not for something else)."""
    def overlapping(t):
        """Two answered calls of run t that were outstanding at the same time (on a busy machine the callers of a small run may
        well run one after the other: equal ids would then be no violation)."""
        pos = {(e["e"], e["c"]): i for i, e in enumerate(t) if e["e"] in ("RegBegin", "CallEnd")}
        ends = [e for e in t if e["e"] == "CallEnd"]
        for x in ends:
            for y in ends:
                if x["c"] != y["c"] and pos.get(("RegBegin", y["c"]), 1 << 30) < pos[("CallEnd", x["c"])] < pos[("CallEnd", y["c"])] \
                        and pos.get(("RegBegin", x["c"]), 1 << 30) < pos[("CallEnd", x["c"])]:
                    return x, y
        return None

    base = pair = None
    for t in traces:
        ends = [e for e in t if e["e"] == "CallEnd" and e["k"] == "reply"]
        if t[0]["cls"] in ("inorder", "permuted") and 2 <= t[0]["k"] <= 8 and len(ends) == t[0]["k"] and overlapping(t):
            base, pair = t, overlapping(t)
            break
    if base is None:
        raise Inconclusive("no trace suitable for the binding self-test")
    a, b = pair
    # (1) the recorded CallEnd says caller a was handed the payload of caller b
    m1 = [dict(e, tag=b["tag"]) if (e["e"] == "CallEnd" and e["c"] == a["c"]) else e for e in base]
    # (2) caller a took the packet addressed to caller b (UnregBegin and CallEnd agree on it)
    m2 = []
    for e in base:
        if e["e"] == "RecvDelivered" and e["q"] in (a["p"], b["p"]):
            continue        # the receivers' own reports would contradict the claim before the caller makes it
        if e["e"] == "UnregBegin" and e["c"] == a["c"]:
            e = dict(e, p=b["p"])
        elif e["e"] == "CallEnd" and e["c"] == a["c"]:
            e = dict(e, p=b["p"], rid=b["rid"], tag=b["tag"])
        m2.append(e)
    # (3) a call drew id 0   (4) two outstanding calls drew the same id
    ida = [e for e in base if e["e"] == "RegBegin" and e["c"] == a["c"]][0]["id"]
    idb = [e for e in base if e["e"] == "RegBegin" and e["c"] == b["c"]][0]["id"]
    # (5) a call that doInvoke ended with a timeout returns err == nil and an empty response to its caller
    extra = {}
    for t in traces:
        to = [e for e in t if e["e"] == "CallEnd" and e["k"] == "timeout"]
        if to and t[0]["k"] <= 8 and t[-1]["e"] == "Quiesce":
            extra["timeout-reported-as-success-with-empty-response"] = (
                [dict(e, k="reply", p=0, rid=0, tag=0) if e is to[0] else e for e in t], "ReplyMatches")
            break
    return require_all_rejected(ctx, C08_INV, {
        **extra,
        "callend-tag-of-another-caller": (m1, None),
        "caller-took-another-callers-packet": (m2, "ReplyMatches"),
        "id-zero": (replace_id(base, ida, 0), "IdNonZero"),
        "duplicate-id": (replace_id(base, idb, ida), "IdsDistinct"),
    })


def run(ctx):
    ctx.level = "model_checking"
    ctx.assumptions = [
        "each caller slot performs one call per run; fewer outstanding calls than the shortest id cycle (2..MaxId)",
        "the peer is honest about payloads: a packet with id i carries f(the request it received under i)",
        "real int32 ids are mapped affinely, region by region (around maxInt32, around minInt32, around 0, peer-invented ids), into the "
        "model's id space (MaxId = 100000)",
        "3-caller MC runs let commuting local steps (counter updates, id draw) run to completion; every interleaving of them is "
        "covered by MC_ids (3 callers, no peer) and MC_mux2 (2 callers)",
    ]
    quick = ctx.quick
    mc_cfgs = ["ids", "mux2", "mux3"] if quick else ["ids_t", "mux2_t", "mux3_t"]
    adp_cfgs = [ctx.pick("adpclose", "adpclose_t"), "adpclose_kf"]
    with ThreadPoolExecutor(max_workers=5) as mcex:
        futs = start_mc(ctx, mcex, mc_cfgs, workers=ctx.pick(3, 4), timeout=ctx.pick(900, 3000))
        afuts = start_mc(ctx, mcex, adp_cfgs, workers=ctx.pick(2, 3), timeout=ctx.pick(900, 3000), module="MC_ClientMuxAdp")
        exe = gobuild.build(ctx, "muxdrive")
        per, maxk, shards = ctx.pick(10, 100), ctx.pick(32, 128), ctx.pick(8, 10)
        ctx.log("harness built")
        with ThreadPoolExecutor(max_workers=2) as dex:
            ff = dex.submit(drive, ctx, exe, FILTER_CLASSES, ctx.pick(2, 8), 16, 1, "c08flt", False, FILTERS, False, 100000)
            traces, hits = drive(ctx, exe, C08_CLASSES, per, maxk, shards, "c08")
            ftraces, fhits = ff.result()
        traces += ftraces
        hits.update({k: v for k, v in fhits.items() if k.startswith("filter:")})
        if not quick:       # a few runs with 512 callers in flight at once on one proxy
            crowd, _ = drive(ctx, exe, ["crowd"], 4, 512, 4, "c08crowd", selftest=False)
            traces += crowd
        # adapters closed (registry refresh withdrawing an endpoint, re-keying it, the export) while calls are outstanding on them
        atraces, ahits, aexits, anotes = drive_adp(ctx, exe, ctx.pick(2, 10), ctx.pick(16, 32), ctx.pick(2, 4), "c08adp")
        vac = adp_vacuous(atraces)
        if vac and not aexits:      # (which endpoint a caller meets and how fast the harness runs are not scripted) once more, other plan
            more = drive_adp(ctx, exe, 4, ctx.pick(16, 32), 2, "c08adp2", seed=ctx.seed + 7919, classes=vac, sc_offset=300000)
            atraces, aexits, anotes = atraces + more[0], aexits + more[2], anotes + more[3]
        ctx.notes.extend(anotes)
        ctx.log("%d runs recorded (+ %d with an adapter closed under outstanding calls)" % (len(traces), len(atraces)))
        recs, sets, orc = id_oracle(ctx, exe)
        with ThreadPoolExecutor(max_workers=2) as vex:
            af = vex.submit(validate, ctx, atraces, C08_INV, "c08adp", 2, 900, False, ADP_MODULE, ADP_SPEC)
            failures, st, _ = validate(ctx, traces, C08_INV, "c08", groups=ctx.pick(3, 6))
            afailures, ast, _ = af.result()
        failures += afailures
        st = {"states": st["states"] + ast["states"], "transitions": st["transitions"] + ast["transitions"]}
        ctx.log("traces validated: %d rejected" % len(failures))
        bad = {id(t) for t, _ in failures}
        astats = adp_stats(atraces)
        vac = adp_vacuous(atraces)
        if vac and not afailures:
            raise Inconclusive("vacuous: no call was outstanding on an adapter at the moment it was closed in class(es) %s" % vac)
        try:
            aselftest = selftests_adp(ctx, [t for t in atraces if id(t) not in bad])
        except Inconclusive as e:
            if not afailures:
                raise
            aselftest = {"skipped": str(e)[:200]}
        try:
            selftest = selftests_c08(ctx, [t for t in traces if id(t) not in bad])
        except Inconclusive as e:
            # a tree that breaks the property can also upset the self-test's base trace: the verdict on the real runs comes first
            if not (failures or sets["ZERO"] or sets["DUP"]):
                raise
            selftest = {"skipped": str(e)[:200]}
        ctx.log("self-tests done")
        mc = collect_mc(futs)
        mc.update(collect_mc(afuts, {"adpclose_kf": "WaitEndsByReplyOrDeadline"}))
        ctx.log("model checking done")
    # ---- id generator oracle
    for i in sets["ZERO"]:
        ctx.violate("C08:id-zero:%s" % recs[i - 1]["kind"], "genRequestID returned 0 (start %d, draws %s)" % (recs[i - 1]["start"], recs[i - 1]["ids"][:12]),
                    {"record": recs[i - 1]})
    for i in sets["DUP"]:
        ctx.violate("C08:id-duplicate:%s" % recs[i - 1]["kind"], "genRequestID handed out the same id twice (start %d)" % recs[i - 1]["start"],
                    {"record": recs[i - 1]})
    # a generator that hands out non-zero, distinct ids but not in the order of IdGen.tla (another wrap rule) keeps the
    # property: an observation, not a verdict
    off = [i for i in sets["OFF"] if i not in sets["ZERO"] and i not in sets["DUP"]]
    if off:
        ctx.notes.append("the id generator does not follow the wrap rule of IdGen.tla (ids stay non-zero and distinct): e.g. start %d -> %s"
                         % (recs[off[0] - 1]["start"], recs[off[0] - 1]["ids"][:12]))
    # ---- traces
    for t, f in failures:
        cls = cls_of(t)
        if f["invariant"]:
            sig = "C08:%s:%s" % (f["invariant"][0], cls)
            what = "run of class '%s' (%d callers) violates %s at event %s" % (cls, t[0]["k"], f["invariant"][0], json.dumps(f["event"]))
            # the state that violates an invariant follows the event before the reported position
            ev = next((e for e in reversed(t[max(0, f["offset"] - 3):f["offset"] + 1])
                       if e["e"] == "CallEnd" and e.get("k") == "reply" and e.get("p") == 0), {})
            if f["invariant"][0] == "ReplyMatches" and ev:
                c = ev["c"]
                inner = [e for e in t if e["e"] == "UnregBegin" and e["c"] == c]
                what = ("caller %d of a '%s' run (%d callers) got err == nil and a response that is no packet of the peer (response id %d, empty "
                        "payload) although doInvoke ended with '%s': neither the response to its own request nor a timeout error"
                        % (c, cls, t[0]["k"], ev.get("rid", 0), inner[-1]["k"] if inner else "?"))
        else:
            ev = f["event"]
            sig = "C08:trace-rejected:%s:%s" % (cls, ev.get("e"))
            what = "run of class '%s' (%d callers) is not a behaviour of ClientMux at event %s" % (cls, t[0]["k"], json.dumps(ev))
            if ev.get("e") == "ProcExit":
                done = {e["c"] for e in t if e["e"] == "CallEnd"}
                started = {e["c"] for e in t if e["e"] == "CallStart"}
                x = next((x for x in aexits if x["trace"] is t), {})
                sig = "C08:process-exit:%s:calls-in-flight" % cls
                what = ("the process making the calls ended (exit status %s, reproduced when the scenario was run again alone) while %d call(s) "
                        "were in flight (callers %s of %d): they got neither the response to their request nor a timeout error.  Class '%s': %s; "
                        "last events: %s; stderr: %s"
                        % (ev.get("rc"), len(started - done), sorted(started - done)[:8], t[0]["k"], cls, t[0].get("steps"),
                           json.dumps([(e["e"], e.get("c"), e.get("k")) for e in t[-8:-1]]),
                           " | ".join(l.strip() for l in x.get("stderr", [])[:6])[:600]))
            if ev.get("e") == "CallEnd" and ev.get("k") == "reply" and ev.get("tag") not in (0, ev.get("c")):
                sig = "C08:reply-of-another-call:%s" % cls
                what = "caller %d was handed a response carrying the payload of caller %d's request (response id %d, peer packet %d)" % (
                    ev["c"], ev["tag"], ev["rid"], ev["p"])
        ctx.violate(sig, what, describe(t, f))
    # a process that ended with no call in flight hands nobody a wrong response: the statement is silent, an observation
    for x in aexits:
        if not any(t is x["trace"] for t, _ in failures):
            ctx.notes.append("adapter-close scenario %d (%s): the process ended with status %s (reproduced) when no call was in flight"
                             % (x["trace"][0]["sc"], x["trace"][0]["cls"], x["rc"]))
    traces = traces + atraces
    ncalls = sum(t[0]["k"] for t in traces)
    outcomes = {}
    for t in traces:
        for e in t:
            if e["e"] == "CallEnd":
                outcomes[e["k"]] = outcomes.get(e["k"], 0) + 1
    wrap = sum(1 for t in traces if t[0]["start"] > 90000)
    zero = sum(1 for t in traces if -40 < t[0]["start"] < 0)
    sample = next((t for t in traces if t[0]["k"] == 2), traces[0])
    ctx.coverage = {
        "states": sum(v.get("distinct", 0) for v in mc.values()) + st["states"],
        "transitions": sum(v.get("generated", 0) for v in mc.values()) + st["transitions"],
        "traces_validated_against_impl": len(traces),
        "samples": [sample[:60]],
        "evaluations": ncalls, "distinct_nontrivial": len({json.dumps([(e["e"], e.get("c"), e.get("q")) for e in t]) for t in traces}),
        "rule": "runs: %d scenarios of classes %s, 1..%d concurrent callers sharing one proxy, timeouts 50-300 ms (configured, per call, "
                "context deadline shorter/longer), the id counter placed below the wrap point (%d runs) / below zero (%d runs); %d of the "
                "runs with a transparent client filter registered (%s, one process each) over classes %s; "
                "%d runs in which an adapter is closed while calls are outstanding on it (registry refresh withdrawing / re-keying an "
                "endpoint through the manager's own refresher, the export close; classes %s; a process that ends is reproduced and then "
                "judged by TLC from the written-through journal); "
                "evaluations = calls, distinct = distinct event orders" % (len(traces), C08_CLASSES + ADP_CLASSES, maxk, wrap, zero, len(ftraces),
                                                                            FILTERS, FILTER_CLASSES, len(atraces), ADP_CLASSES),
        "runs_with_client_filter": {f: sum(1 for t in ftraces if t[0].get("flt") == f) for f in FILTERS},
        "model_checking": mc, "call_outcomes": outcomes,
        "peer_packets": sum(1 for t in traces for e in t if e["e"] == "PeerSend"),
        "receiver_outcomes": {k: sum(1 for t in traces for e in t if e["e"] == k) for k in ("RecvDelivered", "RecvGaveUp", "RecvBad")},
        "lookups_not_found": sum(1 for t in traces for e in t if e["e"] == "RecvLookup" and not e["found"]),
        "id_oracle_records": len(recs), "id_oracle": {k: len(v) for k, v in sets.items()},
        "observations": {"records_not_in_the_order_of_IdGen": len(off)},
        "adapter_closed_under_outstanding_calls": {"runs": len(atraces), "classes": astats, "processes_that_ended": len(aexits),
                                                   "hook_hits": ahits, "selftest_corrupted_traces": aselftest},
        "hook_hits": hits, "selftest_corrupted_traces": selftest, "exhaustive": False,
    }
