"""C08 — responses are delivered to the caller of the matching request id.

Spec: spec/ClientMux (IdGen: the id generator with the real wrap rule; ClientMux: pending-reply table, callers
idle -> cas -> add -> pre -> sel -> reg1 -> reg2 -> send -> wait -> unreg1 -> unreg2 -> post -> done, sender, a peer that
answers any id any number of times in any order (duplicates, ids nobody waits for, id 0, garbage), one receiver
goroutine per packet: lookup, then rendezvous with the waiting caller or give up).
MC (id space -5..4): MC_ids (3 callers, no peer, every interleaving of the generator and the counters across the wrap
point and across zero; thorough: every start value), MC_mux2 (2 callers, every interleaving of callers, sender, peer and
receivers, 2 peer packets of any kind; thorough 4), MC_mux3 (3 callers, commuting local steps run to completion, 1 packet;
thorough 3 incl. an id not yet drawn): ReplyMatches, IdNonZero, IdsDistinct, OnePacketOneCaller, accounting,
LateReplyHarmless, OnlyAddressee.
Binding B1: the real ServantProxy on a direct endpoint <-> scripted TCP peer (harness/cmd/muxdrive); hooks in
doInvoke / Recv, transport hooks, the counter placed just below the wrap point / below zero through VerifSetMsgID,
payloads carry the caller identity and every peer packet a serial.  TLC validates every run against
Trace_ClientMux; what the code reports (ids, the packet a caller took) is accepted and judged by the invariants.
Runs with a transparent client filter registered (pre, post, legacy client filter, middleware: process-wide registrations, so one
muxdrive process per kind) over the classes that end in timeouts, send errors and lost connections: what the caller of
TarsInvoke holds at CallEnd is what counts -- a caller that reports success although doInvoke ended otherwise is accepted as
observed (TCallEndClaim) and judged by ReplyMatches.
B3 for the generator: sequential and concurrent draws from the real genRequestID judged by Oracle_ClientMux (bursts started
through a channel and through a spinning start line of three goroutines).
This module also holds the machinery shared with C09 (checks/c09.py).
"""
import json
import os
import re
from concurrent.futures import ThreadPoolExecutor

from lib import gobuild, tlc, tracecheck
from lib.core import Inconclusive, VERIF, sh

SPEC = "ClientMux"
C08_INV = ["ReplyMatches", "IdNonZero", "IdsDistinct", "OnePacketOneCaller"]
C08_CLASSES = ["inorder", "permuted", "dup", "dupburst", "foreign", "late", "mixed", "garbage", "close", "giveup", "sequel"]
HOOKS = ["mux.reg.begin", "mux.registered", "mux.unreg.begin", "mux.unregistered", "mux.recv.begin", "mux.recv.lookup",
         "mux.recv.delivered", "mux.recv.gaveup", "mux.recv.bad", "client.send.dequeued", "client.recv.pkg"]


# ------------------------------------------------------------------ model checking
def start_mc(ctx, ex, cfgs, workers=4, timeout=900):
    return {c: ex.submit(tlc.run, ctx, SPEC, "MC_ClientMux", cfg="MC_%s.cfg" % c, workers=workers, timeout=timeout, name="mc-" + c)
            for c in cfgs}


def collect_mc(futs, expect_violation=None):
    """expect_violation: {cfg: invariant} for the configurations that model a recorded deviation (non-vacuity)."""
    expect_violation = expect_violation or {}
    mc = {}
    for c, f in futs.items():
        r = f.result()
        if c in expect_violation:
            if expect_violation[c] not in r.inv_violated:
                raise Inconclusive("MC_%s was expected to violate %s (vacuity guard) but did not:\n%s"
                                   % (c, expect_violation[c], "\n".join(r.out.splitlines()[-15:])))
            mc[c] = {"expected_violation": expect_violation[c], "distinct": r.distinct}
            continue
        tlc.require_clean(r, "MC_ClientMux/" + c)
        mc[c] = {"distinct": r.distinct, "generated": r.generated, "depth": r.depth, "wall_s": round(r.wall, 1)}
    return mc


# ------------------------------------------------------------------ driving the real code
def split(path):
    traces, cur = [], []
    for line in open(path):
        e = json.loads(line)
        if e["e"] == "End":
            traces.append(cur)
            cur = []
        else:
            cur.append(e)
    return traces


FILTERS = ["pre", "post", "legacy", "mw"]
FILTER_CLASSES = ["never", "late", "mixed", "close", "refuse", "garbage", "inorder"]      # timeouts, send errors, lost connections, replies


def drive(ctx, exe, classes, per, maxk, shards, tag, selftest=True, filters=None, stop_on_hung=False, sc_offset=0):
    """Runs the scenario plan in `shards` processes (the id counter and the hooks are process-wide).
    filters: client filters are process-wide registrations, so each kind gets a process of its own that runs the whole plan
    (`shards` is ignored).  Scenario numbers are made unique per check by sc_offset; Config.drv holds what a re-run needs."""
    jobs = [(i, "%d/%d" % (i, shards), "none", sc_offset) for i in range(shards)]
    if filters:
        jobs = [(i, "0/1", f, sc_offset + 1000 * i) for i, f in enumerate(filters)]

    def one(job):
        i, shard, flt, off = job
        out = os.path.join(ctx.work, "%s-%d.ndjson" % (tag, i))
        rc, so, se = sh([exe, "trace", "-seed", str(ctx.seed), "-classes", ",".join(classes), "-per", str(per), "-maxk", str(maxk),
                         "-shard", shard, "-out", out, "-filter", flt] + (["-stop-on-hung"] if stop_on_hung else []), timeout=3000)
        ts = split(out)
        for t in ts:
            if t and t[0]["e"] == "Config":
                t[0]["drv"] = "%s|%d|%d|%s|%d" % (",".join(classes), per, maxk, flt, t[0]["sc"])
                t[0]["sc"] += off
        summary = json.loads(so.strip().splitlines()[-1])
        if flt != "none" and summary.get("filter_calls", 0) == 0:
            raise Inconclusive("the '%s' client filter was registered but never ran" % flt)
        return ts, summary

    with ThreadPoolExecutor(max_workers=len(jobs)) as ex:
        res = list(ex.map(one, jobs))
    traces, hits = [], {}
    for t, h in res:
        traces.extend(t)
        for k, v in h["hits"].items():
            hits[k] = hits.get(k, 0) + v
        if h.get("filter_calls"):
            hits["filter:" + h["filter"]] = hits.get("filter:" + h["filter"], 0) + h["filter_calls"]
    errs = [e for t in traces for e in t if e["e"] == "HarnessError"]
    if errs:
        raise Inconclusive("the harness could not drive %d scenario(s): %s" % (len(errs), errs[:3]))
    for t in traces:
        if not t or t[0]["e"] != "Config" or t[-1]["e"] not in ("Quiesce", "Hung"):
            raise Inconclusive("malformed trace (scenario %s)" % (t[0] if t else None))
    silent = [h for h in HOOKS if hits.get(h, 0) == 0 and (h != "mux.recv.bad" or "garbage" in classes or "foreign" in classes)
              and (h != "mux.recv.gaveup" or "giveup" in classes)]
    if silent and selftest:
        raise Inconclusive("hook self-test: hook point(s) never fired: %s (hooks patch C08-hooks.diff not applied?)" % silent)
    return traces, hits


def rerun(ctx, exe, classes, per, maxk, idx, tag, flt="none"):
    out = os.path.join(ctx.work, "%s-rerun-%d.ndjson" % (tag, idx))
    sh([exe, "trace", "-seed", str(ctx.seed), "-classes", ",".join(classes), "-per", str(per), "-maxk", str(maxk), "-only", str(idx),
        "-out", out, "-filter", flt], timeout=600)
    ts = split(out)
    if len(ts) != 1:
        raise Inconclusive("re-run of scenario %d produced %d traces" % (idx, len(ts)))
    return ts[0]


def rerun_trace(ctx, exe, t, tag):
    """The scenario of trace t once more, alone, in a fresh process (same plan, same filter)."""
    classes, per, maxk, flt, idx = t[0]["drv"].split("|")
    r = rerun(ctx, exe, classes.split(","), int(per), int(maxk), int(idx), tag, flt)
    r[0]["drv"], r[0]["sc"] = t[0]["drv"], t[0]["sc"]
    return r


def cls_of(t):
    """The class named in signatures: the peer behaviour, plus the client filter registered in the process if there is one."""
    flt = t[0].get("flt", "none")
    return t[0]["cls"] + ("" if flt in ("none", "") else "+%s-filter" % flt)


# ------------------------------------------------------------------ trace validation
def cfg_text(nc, invariants):
    t = open(os.path.join(VERIF, "spec", SPEC, "Trace.cfg.tmpl")).read().replace("@NC@", str(nc))
    return re.sub(r"^INVARIANTS.*$", "INVARIANTS " + " ".join(invariants), t, flags=re.M)


def nc_of(t):
    k = t[0]["k"]
    return 8 if k <= 8 else 32 if k <= 32 else 128 if k <= 128 else 512


def validate(ctx, traces, invariants, name, groups=4, timeout=1500, singly=False):
    """Validates the traces in parallel TLC runs.  Returns (failures, stats, tinv): a failure is (trace, info);
    tinv maps scenario index -> (observed, predicted) connection.invokeNum where TQuiesce printed a deviation."""
    buckets = {}
    for i, t in enumerate(traces):
        nc = nc_of(t)
        if t[0]["k"] > 512:
            raise Inconclusive("scenario with %d callers exceeds the trace configuration" % t[0]["k"])
        n = len(traces) if singly else {8: 1, 32: groups, 128: max(groups, 6), 512: 4}[nc]
        buckets.setdefault((nc, i % n), []).append(t)

    def val(item):
        (nc, g), ts = item
        return ts, bucket(ctx, ts, cfg_text(nc, invariants), "%s-%d-%d" % (name, nc, g), timeout)

    failures, states, trans, tinv, early = [], 0, 0, {}, {}
    with ThreadPoolExecutor(max_workers=min(6, len(buckets) or 1)) as ex:
        for ts, (fails, st, tv) in ex.map(val, list(buckets.items())):
            states += st["states"]
            trans += st["transitions"]
            tinv.update(tv)
            early.update(st["early"])
            for f in fails:
                failures.append((ts[f["index"]], f))
    return failures, {"states": states, "transitions": trans, "early": early}, tinv


def bucket(ctx, traces, cfg, name, timeout, max_failures=8):
    """tracecheck.validate, keeping TLC's output: TQuiesce prints <<"TINV", scenario, observed, predicted>> whenever
    connection.invokeNum read from the code is not 0 or differs from the model's prediction."""
    idx = list(range(len(traces)))
    failures, states, trans, tinv, early = [], 0, 0, {}, {}
    while idx:
        ok, bad, r = tracecheck.run_once(ctx, SPEC, "Trace_ClientMux", cfg, [traces[i] for i in idx], name, {"e": "End"}, timeout, None, False)
        states += r.distinct
        trans += r.generated
        for m in re.finditer(r'<<"TINV", (-?\d+), (-?\d+), (-?\d+)>>', r.out):
            tinv[int(m.group(1))] = (int(m.group(2)), int(m.group(3)))
        # calls that ended with a timeout although their reply was written well before the deadline: (how many, how many behind a stray)
        for m in re.finditer(r'<<"EARLY", (-?\d+), (\d+), (\d+)>>', r.out):
            early[int(m.group(1))] = (int(m.group(2)), int(m.group(3)))
        if ok:
            break
        k, off, inv = bad
        t = traces[idx[k]]
        failures.append({"index": idx[k], "offset": off, "event": (t[off] if off < len(t) else {"e": "End"}), "invariant": inv,
                         "prefix": t[max(0, off - 6):off + 1]})
        idx.pop(k)
        if len(failures) >= max_failures:
            break
    return failures, {"states": states, "transitions": trans, "early": early}, tinv


def describe(t, f):
    cfg = t[0]
    ev = f["event"]
    return {"scenario": cfg["sc"], "class": cls_of(t), "callers": cfg["k"], "config": cfg, "offset": f["offset"], "event": ev,
            "invariant": f["invariant"], "prefix": f["prefix"], "trace": t if len(t) <= 400 else t[:400]}


def require_rejected(ctx, t, invariants, name, expect_inv=None):
    acc, fails, _ = tracecheck.validate(ctx, SPEC, "Trace_ClientMux", cfg_text(nc_of(t), invariants), [t], name=name, reset={"e": "End"},
                                        timeout=300)
    if not fails:
        raise Inconclusive("binding self-test failed: corrupted trace '%s' was accepted" % name)
    inv = fails[0]["invariant"]
    if expect_inv and expect_inv not in inv:
        raise Inconclusive("binding self-test '%s': rejected, but by %s instead of %s (event %s)" % (name, inv, expect_inv, fails[0]["event"]))
    return "rejected" + (":" + inv[0] if inv else ":no-step-for:" + str(fails[0]["event"].get("e")))


def require_all_rejected(ctx, invariants, cases):
    """cases: {name: (trace, expected invariant or None)}; the corrupted traces are judged in parallel."""
    with ThreadPoolExecutor(max_workers=len(cases)) as ex:
        futs = {n: ex.submit(require_rejected, ctx, t, invariants, "st-" + re.sub(r"[^a-z0-9]+", "-", n.lower())[:24], inv)
                for n, (t, inv) in cases.items()}
        return {n: f.result() for n, f in futs.items()}


def replace_id(t, old, new):
    out = []
    for e in t:
        e = dict(e)
        if e.get("id") == old and e["e"] != "Config":
            e["id"] = new
        if e.get("rid") == old:
            e["rid"] = new
        out.append(e)
    return out


def id_oracle(ctx, exe):
    out = os.path.join(ctx.work, "idseq.ndjson")
    sh([exe, "idseq", "-out", out], timeout=120)
    recs = [json.loads(l) for l in open(out)]
    if not all(r["mapped"] for r in recs):
        raise Inconclusive("id oracle: a drawn id lies outside the mapped regions")
    r = tlc.run(ctx, SPEC, "Oracle_ClientMux", cfg="Oracle.cfg", workers=1, timeout=300, extra_files={"recs.ndjson": open(out).read()},
                name="idoracle")
    sets = {}
    for k in ("ZERO", "DUP", "OFF"):
        m = re.search(r'<<\s*"%s",\s*\{([^}]*)\}\s*>>' % k, r.out, re.S)
        if not m:
            raise Inconclusive("id oracle produced no %s line:\n%s" % (k, "\n".join(r.out.splitlines()[-20:])))
        sets[k] = [int(x) for x in m.group(1).split(",") if x.strip()]
    return recs, sets, r


def selftests_c08(ctx, traces):
    """traces: runs TLC accepted (the corrupted copies must be rejected for the corruption, not for something else)."""
    def overlapping(t):
        """Two answered calls of run t that were outstanding at the same time (on a busy machine the callers of a small run may
        well run one after the other: equal ids would then be no violation)."""
        pos = {(e["e"], e["c"]): i for i, e in enumerate(t) if e["e"] in ("RegBegin", "CallEnd")}
        ends = [e for e in t if e["e"] == "CallEnd"]
        for x in ends:
            for y in ends:
                if x["c"] != y["c"] and pos.get(("RegBegin", y["c"]), 1 << 30) < pos[("CallEnd", x["c"])] < pos[("CallEnd", y["c"])] \
                        and pos.get(("RegBegin", x["c"]), 1 << 30) < pos[("CallEnd", x["c"])]:
                    return x, y
        return None

    base = pair = None
    for t in traces:
        ends = [e for e in t if e["e"] == "CallEnd" and e["k"] == "reply"]
        if t[0]["cls"] in ("inorder", "permuted") and 2 <= t[0]["k"] <= 8 and len(ends) == t[0]["k"] and overlapping(t):
            base, pair = t, overlapping(t)
            break
    if base is None:
        raise Inconclusive("no trace suitable for the binding self-test")
    a, b = pair
    # (1) the recorded CallEnd says caller a was handed the payload of caller b
    m1 = [dict(e, tag=b["tag"]) if (e["e"] == "CallEnd" and e["c"] == a["c"]) else e for e in base]
    # (2) caller a took the packet addressed to caller b (UnregBegin and CallEnd agree on it)
    m2 = []
    for e in base:
        if e["e"] == "RecvDelivered" and e["q"] in (a["p"], b["p"]):
            continue        # the receivers' own reports would contradict the claim before the caller makes it
        if e["e"] == "UnregBegin" and e["c"] == a["c"]:
            e = dict(e, p=b["p"])
        elif e["e"] == "CallEnd" and e["c"] == a["c"]:
            e = dict(e, p=b["p"], rid=b["rid"], tag=b["tag"])
        m2.append(e)
    # (3) a call drew id 0   (4) two outstanding calls drew the same id
    ida = [e for e in base if e["e"] == "RegBegin" and e["c"] == a["c"]][0]["id"]
    idb = [e for e in base if e["e"] == "RegBegin" and e["c"] == b["c"]][0]["id"]
    # (5) a call that doInvoke ended with a timeout returns err == nil and an empty response to its caller
    extra = {}
    for t in traces:
        to = [e for e in t if e["e"] == "CallEnd" and e["k"] == "timeout"]
        if to and t[0]["k"] <= 8 and t[-1]["e"] == "Quiesce":
            extra["timeout-reported-as-success-with-empty-response"] = (
                [dict(e, k="reply", p=0, rid=0, tag=0) if e is to[0] else e for e in t], "ReplyMatches")
            break
    return require_all_rejected(ctx, C08_INV, {
        **extra,
        "callend-tag-of-another-caller": (m1, None),
        "caller-took-another-callers-packet": (m2, "ReplyMatches"),
        "id-zero": (replace_id(base, ida, 0), "IdNonZero"),
        "duplicate-id": (replace_id(base, idb, ida), "IdsDistinct"),
    })


def run(ctx):
    ctx.level = "model_checking"
    ctx.assumptions = [
        "each caller slot performs one call per run; fewer outstanding calls than the shortest id cycle (2..MaxId)",
        "the peer is honest about payloads: a packet with id i carries f(the request it received under i)",
        "real int32 ids are mapped affinely, region by region (around maxInt32, around minInt32, around 0, peer-invented ids), into the "
        "model's id space (MaxId = 100000)",
        "3-caller MC runs let commuting local steps (counter updates, id draw) run to completion; every interleaving of them is "
        "covered by MC_ids (3 callers, no peer) and MC_mux2 (2 callers)",
    ]
    quick = ctx.quick
    mc_cfgs = ["ids", "mux2", "mux3"] if quick else ["ids_t", "mux2_t", "mux3_t"]
    with ThreadPoolExecutor(max_workers=3) as mcex:
        futs = start_mc(ctx, mcex, mc_cfgs, workers=ctx.pick(3, 4), timeout=ctx.pick(300, 840))
        exe = gobuild.build(ctx, "muxdrive")
        per, maxk, shards = ctx.pick(10, 100), ctx.pick(32, 128), ctx.pick(8, 10)
        ctx.log("harness built")
        with ThreadPoolExecutor(max_workers=2) as dex:
            ff = dex.submit(drive, ctx, exe, FILTER_CLASSES, ctx.pick(2, 8), 16, 1, "c08flt", False, FILTERS, False, 100000)
            traces, hits = drive(ctx, exe, C08_CLASSES, per, maxk, shards, "c08")
            ftraces, fhits = ff.result()
        traces += ftraces
        hits.update({k: v for k, v in fhits.items() if k.startswith("filter:")})
        if not quick:       # a few runs with 512 callers in flight at once on one proxy
            crowd, _ = drive(ctx, exe, ["crowd"], 4, 512, 4, "c08crowd", selftest=False)
            traces += crowd
        ctx.log("%d runs recorded" % len(traces))
        recs, sets, orc = id_oracle(ctx, exe)
        failures, st, _ = validate(ctx, traces, C08_INV, "c08", groups=ctx.pick(3, 6))
        ctx.log("traces validated: %d rejected" % len(failures))
        bad = {id(t) for t, _ in failures}
        try:
            selftest = selftests_c08(ctx, [t for t in traces if id(t) not in bad])
        except Inconclusive as e:
            # a tree that breaks the property can also upset the self-test's base trace: the verdict on the real runs comes first
            if not (failures or sets["ZERO"] or sets["DUP"]):
                raise
            selftest = {"skipped": str(e)[:200]}
        ctx.log("self-tests done")
        mc = collect_mc(futs)
        ctx.log("model checking done")
    # ---- id generator oracle
    for i in sets["ZERO"]:
        ctx.violate("C08:id-zero:%s" % recs[i - 1]["kind"], "genRequestID returned 0 (start %d, draws %s)" % (recs[i - 1]["start"], recs[i - 1]["ids"][:12]),
                    {"record": recs[i - 1]})
    for i in sets["DUP"]:
        ctx.violate("C08:id-duplicate:%s" % recs[i - 1]["kind"], "genRequestID handed out the same id twice (start %d)" % recs[i - 1]["start"],
                    {"record": recs[i - 1]})
    # a generator that hands out non-zero, distinct ids but not in the order of IdGen.tla (another wrap rule) keeps the
    # property: an observation, not a verdict
    off = [i for i in sets["OFF"] if i not in sets["ZERO"] and i not in sets["DUP"]]
    if off:
        ctx.notes.append("the id generator does not follow the wrap rule of IdGen.tla (ids stay non-zero and distinct): e.g. start %d -> %s"
                         % (recs[off[0] - 1]["start"], recs[off[0] - 1]["ids"][:12]))
    # ---- traces
    for t, f in failures:
        cls = cls_of(t)
        if f["invariant"]:
            sig = "C08:%s:%s" % (f["invariant"][0], cls)
            what = "run of class '%s' (%d callers) violates %s at event %s" % (cls, t[0]["k"], f["invariant"][0], json.dumps(f["event"]))
            # the state that violates an invariant follows the event before the reported position
            ev = next((e for e in reversed(t[max(0, f["offset"] - 3):f["offset"] + 1])
                       if e["e"] == "CallEnd" and e.get("k") == "reply" and e.get("p") == 0), {})
            if f["invariant"][0] == "ReplyMatches" and ev:
                c = ev["c"]
                inner = [e for e in t if e["e"] == "UnregBegin" and e["c"] == c]
                what = ("caller %d of a '%s' run (%d callers) got err == nil and a response that is no packet of the peer (response id %d, empty "
                        "payload) although doInvoke ended with '%s': neither the response to its own request nor a timeout error"
                        % (c, cls, t[0]["k"], ev.get("rid", 0), inner[-1]["k"] if inner else "?"))
        else:
            ev = f["event"]
            sig = "C08:trace-rejected:%s:%s" % (cls, ev.get("e"))
            what = "run of class '%s' (%d callers) is not a behaviour of ClientMux at event %s" % (cls, t[0]["k"], json.dumps(ev))
            if ev.get("e") == "CallEnd" and ev.get("k") == "reply" and ev.get("tag") not in (0, ev.get("c")):
                sig = "C08:reply-of-another-call:%s" % cls
                what = "caller %d was handed a response carrying the payload of caller %d's request (response id %d, peer packet %d)" % (
                    ev["c"], ev["tag"], ev["rid"], ev["p"])
        ctx.violate(sig, what, describe(t, f))
    ncalls = sum(t[0]["k"] for t in traces)
    outcomes = {}
    for t in traces:
        for e in t:
            if e["e"] == "CallEnd":
                outcomes[e["k"]] = outcomes.get(e["k"], 0) + 1
    wrap = sum(1 for t in traces if t[0]["start"] > 90000)
    zero = sum(1 for t in traces if -40 < t[0]["start"] < 0)
    sample = next((t for t in traces if t[0]["k"] == 2), traces[0])
    ctx.coverage = {
        "states": sum(v.get("distinct", 0) for v in mc.values()) + st["states"],
        "transitions": sum(v.get("generated", 0) for v in mc.values()) + st["transitions"],
        "traces_validated_against_impl": len(traces),
        "samples": [sample[:60]],
        "evaluations": ncalls, "distinct_nontrivial": len({json.dumps([(e["e"], e.get("c"), e.get("q")) for e in t]) for t in traces}),
        "rule": "runs: %d scenarios of classes %s, 1..%d concurrent callers sharing one proxy, timeouts 50-300 ms (configured, per call, "
                "context deadline shorter/longer), the id counter placed below the wrap point (%d runs) / below zero (%d runs); %d of the "
                "runs with a transparent client filter registered (%s, one process each) over classes %s; "
                "evaluations = calls, distinct = distinct event orders" % (len(traces), C08_CLASSES, maxk, wrap, zero, len(ftraces), FILTERS,
                                                                            FILTER_CLASSES),
        "runs_with_client_filter": {f: sum(1 for t in ftraces if t[0].get("flt") == f) for f in FILTERS},
        "model_checking": mc, "call_outcomes": outcomes,
        "peer_packets": sum(1 for t in traces for e in t if e["e"] == "PeerSend"),
        "receiver_outcomes": {k: sum(1 for t in traces for e in t if e["e"] == k) for k in ("RecvDelivered", "RecvGaveUp", "RecvBad")},
        "lookups_not_found": sum(1 for t in traces for e in t if e["e"] == "RecvLookup" and not e["found"]),
        "id_oracle_records": len(recs), "id_oracle": {k: len(v) for k, v in sets.items()},
        "observations": {"records_not_in_the_order_of_IdGen": len(off)},
        "hook_hits": hits, "selftest_corrupted_traces": selftest, "exhaustive": False,
    }
