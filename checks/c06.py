"""C06 — truncated or mistyped input is rejected, never decoded into made-up data.

Spec: spec/TarsSchema (Dec(strict=FALSE); theorem Truncation in MC_TarsSchema; Oracle_Dec with the Allowed
relation: error, or exactly the value of the complete fields present).
Binding B3: for valid encodings written by the real WriteTo: every proper prefix (all of them for short
encodings), every inflation/deflation of every embedded length (string, list, map, simple list), every
substitution of a top-level field by a well-formed field of each other wire type; decoded by the real
ReadFrom (and, for the TUP attribute map, by tup.UniAttribute.Decode: pseudo struct tup.Attr with the schema of
Vt.TupAttr); TLC judges membership in Allowed.  Primitive readers on cut buffers are covered too.
"""
import glob
import json
import os

from lib import codecfam, codecgen, oracle, tlc
from lib.core import Inconclusive


def run(ctx):
    ctx.level = "model_checking"
    ctx.assumptions = [
        "Allowed(S, b) = {reference value} if the reference decodes b, else {error} + {value of the longest prefix of complete top-level fields, if that decodes}",
        "mutants are built by the harness' own splitter/builder; the reference decides what each mutant means",
    ]
    from concurrent.futures import ThreadPoolExecutor
    ex = ThreadPoolExecutor(max_workers=1)
    fmc = ex.submit(tlc.run, ctx, "TarsSchema", "MC_TarsSchema", cfg="MC_TarsSchema.cfg", workers=1, timeout=1500,
                    deps=codecfam.DEPS, name="mc-schema")
    exe, schema = codecfam.prepare(ctx)
    nsh = 14
    d, last = codecfam.run_driver(ctx, exe, "mutants", "mut", ["-shards", str(nsh), "-per", str(ctx.pick(2, 30)),
                                                                "-classes", "prefix,inflate,subst", "-cap", str(ctx.pick(5, 10)),
                                                                "-extra", "tup.Attr"])
    shards = sorted(glob.glob(os.path.join(d, "mut_*.ndjson")))
    total, bad, states, gen = codecfam.judge_dec(ctx, schema, shards, "c06", par=nsh)
    rejected_valid = []
    for why, r in bad:
        if why == "reference-vs-expected":
            raise Inconclusive("reference disagrees with harness-built value: %s" % json.dumps(r)[:300])
        if why in ("alloc",) or r["k"] != "dec":
            continue  # resource bounds are C05's subject; reuse of the target struct is C04's
        if why == "rejects-valid":
            # the statement allows an error on every cut / inflated / substituted input ("fails with an error, or succeeds only
            # with exactly the value ..."): a rejection of a mutant that happens to be a valid encoding is an observation here;
            # acceptance of valid encodings is the subject of C02 (round trip) and C03 (unknown fields)
            rejected_valid.append({"cls": r["cls"], "s": r["s"], "note": r.get("note", ""), "bytes": r["bytes"][:64]})
            continue
        sig = "C06:%s:%s:%s" % (why, r["cls"], r.get("note", ""))
        if why == "panic":
            pc = codecfam.panic_class(r["panic"])
            if pc == "out-of-memory":
                continue  # died under the worker's artificial address-space limit: an allocation question, judged by C05
            sig += ":" + pc
        ctx.violate(sig, "%s of a valid %s encoding (%s): real decoder %s, reference says %s"
                    % (r["cls"], r["s"], r.get("note", ""), "returned a value" if r["ok"] else "failed: " + r["panic"][:80], why),
                    {"record": r})
    recs = [r for r in codecfam.first_records(shards, 400) if not r["ok"] and r["k"] == "dec" and r["panic"] == ""][:100]

    def mutate(i, r):
        if i in (5, 60):
            r["ok"] = True            # claims a truncated input was decoded: into an all-default value
            S = schema["structs"][r["s"]]
            r["dec"] = [m["def"] for m in S]
            return r
        return None

    st = oracle.selftest(ctx, "TarsSchema", "Oracle_Dec", "Oracle.cfg", recs, mutate, name="dec-selftest",
                         extra_files={"schemas.json": codecgen.schemas_json(schema)}, deps=codecfam.DEPS)
    rmc = tlc.require_clean(fmc.result(), "MC_TarsSchema")
    import re
    theorems = {m.group(1): m.group(2) == "TRUE" for m in re.finditer(r'<<"THEOREM", "(\w+)", (TRUE|FALSE)>>', rmc.out)}
    if not theorems.get("Truncation"):
        raise Inconclusive("TarsSchema theorems failed: %s" % theorems)
    n, ndistinct, deaths, cnt = last.split(" ", 3)
    ctx.coverage = {
        "states": states + max(rmc.distinct, 1), "transitions": gen + max(rmc.generated, 1),
        "traces_validated_against_impl": total,
        "samples": codecfam.first_records(shards, 1, lambda r: r["cls"] == "inflate"),
        "evaluations": total, "distinct_nontrivial": int(ndistinct),
        "rule": "per struct type and value: proper prefixes (all when <= 48 bytes, else field boundaries +-1 and 24 random cuts), "
                "each embedded length replaced by n+1, remaining+1, 2^31-1, -1, -2^31, n+1000, n-1 (4-byte string lengths also 2^31, 2^32-1), each 1-byte "
                "string length also re-announced as a 4-byte length (n, remaining+1, 2^31, 2^31+n, 2^32-1, 2^32-2), each top-level field replaced "
                "by a well-formed field of each of the other 12 wire types; distinct = distinct (struct, bytes)",
        "corpus_classes": cnt, "worker_deaths": int(deaths),
        "observations": {"mutants_rejected_although_the_reference_accepts_them": len(rejected_valid), "examples": rejected_valid[:3]},
        "reference_theorems": theorems, "selftest_corrupted_records": st, "exhaustive": False,
    }
