"""Aggregation of call statistics between two reports (tars/statf.go collectMsg / getIntervCount) -- growth of the
specification beyond the listed properties (spec/StatAgg).  No listed property speaks of statistics, so this stage never
produces a verdict and never changes a check's exit code: the lemmas of the fold are checked by TLC, sequences of reports are
folded by the real step (verif export VerifStatCollect) and judged by Oracle_StatAgg, and whatever differs is recorded as
an observation in the evidence of C10 (whose subject, Protocol.Invoke, files the server-side reports)."""
import json
import os

from lib import gobuild, tlc, oracle
from lib.core import sh, Inconclusive

SPEC = "StatAgg"


def run(ctx):
    try:
        r = tlc.run(ctx, SPEC, "MC_StatAgg", cfg="MC.cfg", workers=2, timeout=600, name="stat-mc")
        lemmas = "hold" if r.success else "FAILED"
        exe = gobuild.build(ctx, "statdrive")
        out = os.path.join(ctx.sub("stat"), "stat.ndjson")
        n = ctx.pick(1500, 20000)
        sh([exe, "-seed", str(ctx.seed), "-n", str(n), "-out", out], timeout=600)
        res = oracle.judge(ctx, SPEC, "Oracle_StatAgg", "Oracle.cfg", [out], par=1, timeout=900, name="stat-oracle")
        # the oracle is not blind: a record with one counter changed must be rejected
        recs = [json.loads(l) for l in open(out)][:40]
        st = oracle.selftest(ctx, SPEC, "Oracle_StatAgg", "Oracle.cfg", recs,
                             lambda i, rec: (dict(rec, out=[[x + (1 if k == 1 + i % 7 else 0) for k, x in enumerate(row)] if j == 0 else row
                                                              for j, row in enumerate(rec["out"])]) if i % 5 == 0 else None),
                             name="stat-selftest")
        dev = [{"msgs": rec["msgs"], "out": rec["out"]} for _, _, rec in res["bad"][:3]]
        if res["bad"]:
            ctx.notes.append("stat aggregation: %d of %d report sequences are folded differently from StatAgg.tla (observation; no listed "
                             "property speaks of statistics)" % (len(res["bad"]), res["total"]))
        return {"lemmas_on_every_sequence_up_to_3_reports": lemmas, "sequences_judged": res["total"], "deviations": len(res["bad"]),
                "deviation_examples": dev, "selftest": st if isinstance(st, (dict, str)) else "rejected",
                "verdicts": "none: observation stage"}
    except Inconclusive as e:
        return {"stage_failed": str(e)[:400], "verdicts": "none: observation stage"}
    except Exception as e:       # never let the growth stage touch the verdict of the property it rides on
        return {"stage_failed": "%s: %s" % (type(e).__name__, str(e)[:400]), "verdicts": "none: observation stage"}
