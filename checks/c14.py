"""C14 — hash routing is deterministic, history-independent and minimally disruptive.

Spec: spec/HashRing (HashRing.tla: pure Lookup/ModSlot/weight cycle + an implementation-shaped machine;
MC_*.cfg: every universe of virtual points over a small key space x every Add/Remove/Refresh history;
Oracle_HashRing.tla: batch oracle over recorded answers of the real selectors).
Binding: B3 + B1.  harness/cmd/ringdrive computes the virtual points with crypto/md5 on its own, drives the
real consistenthash / modhash selectors (real tars.Message carrying the hash code, partly through
current.SetClientHash) through histories reaching the same member sets in different ways, and records what
Select returned for ring points, their neighbours, 0, 2^32-1 and random codes after every operation.
TLC judges every answer with Lookup / ModLookup, the differential statements and the agreement of histories
on the real answers, and classifies mismatches with the implementation's named deviations.
Both tiers include an end-to-end run: scripted TCP servers on distinct loopback hosts, calls made with
current.SetClientHash through a real ServantProxy, the receiving server judged by the same oracle -- over direct
endpoint lists, and over registry-fed proxies whose endpoints are blocked by the manager's status check after five
unanswered calls and recover after an answered probe (the manager then edits its active list and calls Remove / Add on
its selectors): the history judged is refresh(installed), remove(e), add(e), ... (harness/cmd/ringdrive/e2e_mgr.go).
The registry of these scenarios is asked again by the manager's own refresher (10 ms ticker; the registry lets one query
through per scripted tick) and replies in a random, never host-sorted order: with the same endpoints (step "tick": set
unchanged, nothing may move -- before a failure, while an endpoint is blocked, after it has come back and sits at the end
of the list), with a spare endpoint added / a healthy or a blocked one dropped (step "refresh": the list the manager reports
is the new installed list).  spec/HashRing/Manager.tla is the design of that layer (MC_mgr*.cfg; the deviation "compare the
unsorted reply with the stored sorted copy" must break its determinism property).
"""
import json
import os
import random
from concurrent.futures import ThreadPoolExecutor

from lib import gobuild, tlc
from lib.core import Inconclusive, load_known, sh

SPEC = "HashRing"

MC_QUICK = [("ideal_q", 4), ("code_q", 2), ("code_port_t", 2), ("wide", 1)]
MC_THOROUGH = [("ideal_t", 4), ("ideal_4h_t", 4), ("code_t", 3), ("ideal_port_t", 3), ("code_port_t", 2), ("ideal_q", 2),
               ("code_q", 1), ("wide", 1)]
# negative configurations: the named deviation must break the named invariant in the model
MC_NEGATIVE = [("kf_collision", "InvRouting"), ("kf_removearg", "InvMember")]
# the endpoint manager between registry and selectors (Manager.tla): design, and its named deviation
MGR_CFG = "mgr"
MGR_NEGATIVE = ("kf_tickunsorted", "PropModDeterminism")


def load_ndjson(path):
    return [json.loads(l) for l in open(path) if l.strip()]


def dump_ndjson(recs):
    return "".join(json.dumps(r) + "\n" for r in recs)


def val(p):
    return p[0] * 65536 + p[1]


def run_oracle(ctx, unis_text, hists_text, name, timeout):
    r = tlc.run(ctx, SPEC, "Oracle_HashRing", cfg="Oracle.cfg", workers=1, timeout=timeout, name=name,
                extra_files={"unis.ndjson": unis_text, "hists.ndjson": hists_text})
    res = None
    for line in r.out.splitlines():
        if line.startswith('"{'):
            try:
                d = json.loads(json.loads(line))
            except ValueError:
                continue
            if d.get("tag") == "C14RESULT":
                res = d
    if res is None or not r.success:
        raise Inconclusive("oracle run %s did not produce a result:\n%s" % (name, "\n".join(r.out.splitlines()[-40:])))
    return res, r


def host_pair_name(names):
    return "/".join(sorted(names, key=lambda s: (len(s), s)))


def signature(b, uni, cols):
    kind = uni["kind"]
    if b["cls"] == "kf-collision":
        owners = None
        for p, eps in cols:
            if p == b["pt"]:
                owners = eps
        if owners is None and cols:
            owners = cols[0][1]
        names = sorted({uni["eps"][e - 1]["host"] for e in (owners or [])})
        return "C14:history-dependent:ring-point-collision:%s" % host_pair_name(names)
    if b["cls"] == "kf-remove-arg":
        return "C14:removed-host-still-routed:weighted-remove-sized-by-argument"
    if b["cls"] == "kf-both":
        return "C14:%s:collision-and-remove-by-argument" % kind
    if not uni["ring"]:
        sig = "C14:%s:wrong-slot" % kind
    else:
        sig = "C14:%s:wrong-endpoint:code-%s" % (kind, b["pos"])
    if b["got"] == 98:
        sig += ":panic"
    elif b["got"] == 0:
        sig += ":no-endpoint"
    elif not b["member"]:
        sig += ":nonmember"
    return sig


def describe(b, uni, hist):
    code = val(uni["codes"][b["i"] - 1])
    ops = []
    for st in hist["steps"][:b["k"]]:
        if st["op"] == "refresh":
            ops.append("Refresh(%s)" % ",".join(uni["eps"][e - 1]["host"] for e in st["eps"]))
        elif st["op"] == "tick":
            ops.append("RegistryTick(same endpoints, other order)")
        else:
            d = uni["eps"][st["e"] - 1]
            ops.append("%s(%s:%d w=%d)" % (st["op"].capitalize(), d["host"], d["port"], d["weight"]))

    def nm(e):
        if e == 0:
            return "<error>"
        if e == 98:
            return "<panic in Select>"
        if e > len(uni["eps"]):
            return "<unknown endpoint>"
        d = uni["eps"][e - 1]
        return "%s:%d(w=%d)" % (d["host"], d["port"], d["weight"])
    s = "%s selector after %s: Select(code %d) returned %s, the reference routes it to %s" % (
        uni["kind"], "; ".join(ops), code, nm(b["got"]), nm(b["exp"]))
    if uni["ring"]:
        s += " (successor ring point %d, code is %s)" % (val(b["pt"]), b["pos"])
    return s


def corrupt_one(hists, unis, bad_steps, want_ring, rng, skip_unis=()):
    """Change one recorded answer of a step that is otherwise accepted; returns (h, k, i, new) 1-based."""
    cand = []
    for hi, h in enumerate(hists):
        if unis[h["u"] - 1]["ring"] != want_ring or h["u"] in skip_unis:
            continue
        for ki, st in enumerate(h["steps"]):
            if (hi + 1, ki + 1) in bad_steps or not st["ans"]:
                continue
            if len(set(st["list"])) >= 2:
                cand.append((hi, ki))
    if not cand:
        return None
    hi, ki = cand[rng.randrange(len(cand))]
    st = hists[hi]["steps"][ki]
    i = rng.randrange(len(st["ans"]))
    others = [m for m in st["list"] if m != st["ans"][i]]
    new = others[rng.randrange(len(others))]
    st["ans"][i] = new
    return (hi + 1, ki + 1, i + 1, new)


def run(ctx):
    ctx.level = "model_checking"
    ctx.assumptions = [
        "MD5 is not modelled: the virtual points of every endpoint are computed by the harness with crypto/md5 "
        "(host_i, four little-endian words per digest, weight/4 rounds) independently of the selector, and given to TLC as data",
        "membership is by host (Endpoint.HashKey); the owner of a ring point shared by two hosts is, in the reference, the "
        "endpoint that comes first in the universe (any history-independent rule satisfies the property)",
        "weighted mod-hash is judged against the cycle selector.BuildStaticWeightList returns for the reference list "
        "(its contents are C13's subject); the smooth weighted round-robin reference cycle is compared as an observation",
        "Remove arguments differing in weight from the stored endpoint are confined to dedicated histories (input class of F15)",
    ]
    rng = random.Random(ctx.seed)
    mc_cfgs = ctx.pick(MC_QUICK, MC_THOROUGH)
    pool = ThreadPoolExecutor(max_workers=ctx.pick(3, 4))

    # ---- 1. model checking of the design (runs while the harness is built and driven)
    mc_futs = {c: pool.submit(tlc.run, ctx, SPEC, "MC_HashRing", cfg="MC_%s.cfg" % c, workers=w,
                              timeout=ctx.pick(900, 1500), name="mc-" + c, coverage=False)
               for c, w in mc_cfgs}
    neg_futs = {c: pool.submit(tlc.run, ctx, SPEC, "MC_HashRing", cfg="MC_%s.cfg" % c, workers=1, timeout=900,
                               name="mc-" + c) for c, _ in MC_NEGATIVE}

    mgr_f = pool.submit(tlc.run, ctx, SPEC, "Manager", cfg="MC_%s.cfg" % MGR_CFG, workers=1, timeout=900, name="mc-" + MGR_CFG)
    mgr_neg_f = pool.submit(tlc.run, ctx, SPEC, "Manager", cfg="MC_%s.cfg" % MGR_NEGATIVE[0], workers=1, timeout=900,
                            name="mc-" + MGR_NEGATIVE[0])

    # ---- 2. drive the real selectors
    exe = gobuild.build(ctx, "ringdrive")
    out = ctx.sub("corpus")
    sh([exe, "gen", "-seed", str(ctx.seed), "-tier", ctx.tier, "-out", out], timeout=300)
    unis = load_ndjson(os.path.join(out, "unis.ndjson"))
    hists = load_ndjson(os.path.join(out, "hists.ndjson"))
    # end to end: scripted TCP servers, real ServantProxy, calls made with current.SetClientHash
    rc, so, se = sh([exe, "e2e", "-seed", str(ctx.seed), "-out", out, "-first-u", str(len(unis) + 1),
                     "-first-h", str(len(hists) + 1), "-scenarios", str(ctx.pick(3, 12)),
                     "-mgr-scenarios", str(ctx.pick(3, 10))], timeout=420, check=False)
    e2e_failed = None
    if rc != 0:
        # the end-to-end driver could not complete (e.g. the tree routes a call to a non-endpoint): the selector-level
        # corpus is still judged; only if that finds nothing is the run inconclusive
        e2e_failed = "end-to-end driver failed (%d):\n%s\n%s" % (rc, so[-2000:], se[-3000:])
        e2e_meta = {"failed": e2e_failed[-400:]}
    else:
        e2e_meta = json.load(open(os.path.join(out, "e2e_meta.json")))
        rg = e2e_meta.get("registry", {})
        if e2e_meta.get("registry_errors"):
            # a registry-fed scenario could not be completed (say, an endpoint could not be made to fail because the calls
            # meant for it went elsewhere): what was recorded until then is judged; inconclusive if that finds nothing
            e2e_failed = "registry-fed end-to-end scenarios could not be completed:\n" + "\n".join(e2e_meta["registry_errors"][:6])
        elif rg.get("endpoint_blocked", 0) < 4 or rg.get("endpoint_recovered", 0) < 4:
            raise Inconclusive("vacuous end-to-end run: the registry-fed scenarios blocked %s and recovered %s endpoints"
                               % (rg.get("endpoint_blocked"), rg.get("endpoint_recovered")))
        elif min(rg.get("refresh_same_set_after_a_recovery", 0), rg.get("refresh_changed_set", 0),
                 rg.get("refresh_while_an_endpoint_is_blocked", 0)) < 4:
            raise Inconclusive("vacuous end-to-end run: registry refreshes with the same set after a recovery %s, with a changed "
                               "set %s, while an endpoint was blocked %s" % (rg.get("refresh_same_set_after_a_recovery"),
                                                                             rg.get("refresh_changed_set"),
                                                                             rg.get("refresh_while_an_endpoint_is_blocked")))
        unis += load_ndjson(os.path.join(out, "e2e_unis.ndjson"))
        hists += load_ndjson(os.path.join(out, "e2e_hists.ndjson"))
    nlook = sum(len(st["ans"]) for h in hists for st in h["steps"])
    nsteps = sum(len(h["steps"]) for h in hists)
    ctx.log("corpus: %d universes, %d histories, %d steps, %d lookups" % (len(unis), len(hists), nsteps, nlook))
    if nlook < 1000:
        raise Inconclusive("vacuous corpus: %d lookups" % nlook)

    # ---- 3. TLC judges the recorded answers
    utext, htext = dump_ndjson(unis), dump_ndjson(hists)
    main_f = pool.submit(run_oracle, ctx, utext, htext, "oracle", ctx.pick(80, 1200))
    res, rmain = main_f.result()
    if res["hintbad"]:
        raise Inconclusive("harness error: sorted point list of universes %s is not the sorted union of the points" % res["hintbad"])
    if res["listbad"]:
        raise Inconclusive("harness error: the harness's installed list differs from the reference's at steps %s" % res["listbad"][:5])
    bad = res["bad"]
    bad_keys = {(b["h"], b["k"], b["i"]) for b in bad}
    bad_steps = {(b["h"], b["k"]) for b in bad}

    # ---- 3b. binding self-test: corrupt one accepted ring answer and one accepted mod answer
    chists = json.loads(json.dumps(hists))
    shared = {i + 1 for i, c in enumerate(res["cols"]) if c}   # there another owner of a shared point is not "wrong"
    c1 = corrupt_one(chists, unis, bad_steps, True, rng, shared)
    c2 = corrupt_one(chists, unis, bad_steps, False, rng)
    if c1 is None or c2 is None:
        raise Inconclusive("self-test: no accepted step to corrupt (ring %s, mod %s)" % (c1, c2))
    cres, _ = run_oracle(ctx, utext, dump_ndjson(chists), "oracle-selftest", ctx.pick(80, 1200))
    cbad = {(b["h"], b["k"], b["i"]) for b in cres["bad"]}
    extra = cbad - bad_keys
    want = {c1[:3], c2[:3]}
    selftest = {"corrupted": [list(c1), list(c2)], "flagged_exactly": extra == want and bad_keys <= cbad}
    if not selftest["flagged_exactly"]:
        raise Inconclusive("binding self-test failed: corrupted records %s, oracle flagged %s extra / lost %s"
                           % (sorted(want), sorted(extra), sorted(bad_keys - cbad)))

    # ---- 4. collect the model-checking results
    mc = {}
    mc_states = mc_trans = 0
    for c, f in mc_futs.items():
        r = tlc.require_clean(f.result(), "MC_HashRing/" + c)
        mc[c] = {"distinct": r.distinct, "generated": r.generated, "depth": r.depth, "wall_s": round(r.wall, 1)}
        mc_states += r.distinct
        mc_trans += r.generated
        if c == "wide":
            th = [l for l in r.out.splitlines() if l.startswith('<<"THEOREM"')]
            if len(th) != 3 or any("TRUE" not in l for l in th):
                raise Inconclusive("wide-arithmetic / weight-cycle theorems failed in the model:\n%s" % "\n".join(th))
            mc[c]["theorems"] = th
    for c, inv in MC_NEGATIVE:
        r = neg_futs[c].result()
        if inv not in r.inv_violated:
            raise Inconclusive("negative configuration %s: expected invariant %s to be violated by the named deviation, got %s\n%s"
                               % (c, inv, r.inv_violated, "\n".join(r.out.splitlines()[-30:])))
        mc[c] = {"expected_violation": inv, "found": True, "distinct": r.distinct, "generated": r.generated}
        mc_states += r.distinct
        mc_trans += r.generated
    r = tlc.require_clean(mgr_f.result(), "Manager/" + MGR_CFG)
    mc["manager_" + MGR_CFG] = {"distinct": r.distinct, "generated": r.generated, "depth": r.depth, "wall_s": round(r.wall, 1)}
    mc_states += r.distinct
    mc_trans += r.generated
    r = mgr_neg_f.result()
    if MGR_NEGATIVE[1] not in r.prop_violated:
        raise Inconclusive("negative configuration %s: expected property %s to be violated by the named deviation, got %s\n%s"
                           % (MGR_NEGATIVE[0], MGR_NEGATIVE[1], r.prop_violated, "\n".join(r.out.splitlines()[-30:])))
    mc["manager_" + MGR_NEGATIVE[0]] = {"expected_violation": MGR_NEGATIVE[1], "found": True, "distinct": r.distinct,
                                        "generated": r.generated}
    mc_states += r.distinct
    mc_trans += r.generated
    pool.shutdown()

    # ---- 5. verdicts
    by_sig = {}
    # registry-fed histories: the reference's list is built from the operations alone, so once the real list has gone its
    # own way (say, a registry tick re-ordered it) every later step of that history differs as a consequence: the first
    # flagged step names the failure, the later ones are counted
    first_k = {}
    for b in bad:
        if hists[b["h"] - 1]["label"].startswith("e2e-mgr"):
            first_k[b["h"]] = min(first_k.get(b["h"], b["k"]), b["k"])
    consequences = [b for b in bad if b["k"] > first_k.get(b["h"], b["k"])]
    for b in sorted(bad, key=lambda b: (b["h"], b["k"], b["i"])):
        if b["k"] > first_k.get(b["h"], b["k"]):
            continue
        h = hists[b["h"] - 1]
        uni = unis[h["u"] - 1]
        sig = signature(b, uni, res["cols"][h["u"] - 1])
        if h["label"].startswith("e2e"):
            sig = sig.replace("C14:", "C14:e2e:", 1)
        if h["label"].startswith("e2e-mgr"):
            # registry-fed proxy: name what the endpoint manager did last (wording only; the judgement is TLC's)
            ops = [st["op"] for st in h["steps"][:b["k"]]]
            if ops[-1] == "tick":
                # what happened since the manager last installed a list names the class of the history
                since = ops[max(i for i, o in enumerate(ops) if o == "refresh") + 1:-1]
                sig += ":after-registry-tick-with-unchanged-set" + (
                    "-following-a-recovery" if "add" in since else "-while-an-endpoint-is-blocked" if "remove" in since else "")
            else:
                sig += {"remove": ":after-endpoint-blocked", "add": ":after-endpoint-recovered"}.get(ops[-1], ":after-registry-refresh")
        by_sig.setdefault(sig, []).append(b)
        what = describe(b, uni, h)
        if b["cls"] == "kf-collision":
            # name a history with the same member set whose real answers differ (two clients disagree)
            for p in res["disagree"]:
                if [b["h"], b["k"]] in p:
                    o = p[0] if p[1] == [b["h"], b["k"]] else p[1]
                    oh = hists[o[0] - 1]
                    what += "; history %d (%s) reaches the same member set and the real selector answers %s there" % (
                        oh["id"], ",".join("%s%s" % (st["op"], st["e"] or st["eps"]) for st in oh["steps"][:o[1]]),
                        uni["eps"][oh["steps"][o[1] - 1]["ans"][b["i"] - 1] - 1]["host"])
                    break
        ctx.violate(sig, what,
                    {"kind": "oracle", "record": b, "universe": {k: uni[k] for k in ("id", "kind", "tag", "eps")},
                     "history": {"id": h["id"], "label": h["label"],
                                 "steps": [{k: st[k] for k in ("op", "e", "eps")} for st in h["steps"][:b["k"]]]},
                     "code": val(uni["codes"][b["i"] - 1]), "seed": ctx.seed, "tier": ctx.tier})
    # differential statements and agreement judged on the real answers: anything not already explained by a
    # flagged answer is its own violation
    unexplained_diff = [d for d in res["diffbad"]
                        if (d["h"], d["k"], d["i"]) not in bad_keys and (d["h"], d["k"] - 1, d["i"]) not in bad_keys]
    for d in unexplained_diff:
        ctx.violate("C14:differential:%s" % d["kind"], "consecutive real answers violate the %s rule: %s" % (d["kind"], d), {"diff": d})
    unexplained_dis = [p for p in res["disagree"] if tuple(p[0]) not in bad_steps and tuple(p[1]) not in bad_steps]
    for p in unexplained_dis:
        ctx.violate("C14:history-disagreement", "two histories with the same member set answer differently: %s" % p, {"pair": p})

    samples = []
    h0 = hists[0]
    u0 = unis[h0["u"] - 1]
    st0 = h0["steps"][-1]
    samples.append({"kind": "judged lookups (first history, last step)", "universe": u0["kind"], "ops": [
        {k: st[k] for k in ("op", "e", "eps")} for st in h0["steps"]],
        "code->endpoint": [[val(u0["codes"][i]), st0["ans"][i]] for i in range(min(8, len(st0["ans"])))]})
    for sig, bs in by_sig.items():
        b = bs[0]
        samples.append({"kind": "flagged", "signature": sig, "what": describe(b, unis[hists[b["h"] - 1]["u"] - 1], hists[b["h"] - 1]), "count": len(bs)})
    distinct = {(h["u"], tuple(sorted(st["list"])), i, a) for h in hists for st in h["steps"] for i, a in enumerate(st["ans"])}
    open_known = {k["signature"] for k in load_known() if k.get("property") == "C14" and k.get("status") == "open"}
    if e2e_failed and not [v for v in ctx.violations if v.signature not in open_known]:
        # (a known finding seen on the way does not make up for the part of the run that did not happen)
        raise Inconclusive(e2e_failed)
    ctx.coverage = {
        "states": mc_states + rmain.distinct,
        "transitions": mc_trans + rmain.generated,
        "traces_validated_against_impl": nlook,
        "samples": samples,
        "model_checking": mc,
        "mc_distinct_states": mc_states,
        "oracle": {"universes": len(unis), "histories": len(hists), "steps": nsteps, "lookups_judged": nlook,
                   "flagged": len(bad), "flagged_in_later_steps_of_an_already_flagged_registry_history": len(consequences),
                   "flagged_by_signature": {s: len(v) for s, v in by_sig.items()},
                   "universe_kinds": sorted({u["kind"] for u in unis}),
                   "ring_points_per_universe": [u["npoints"] for u in unis],
                   "shared_points": [[val(p), [unis[i]["eps"][e - 1]["host"] for e in eps]]
                                     for i, c in enumerate(res["cols"]) for p, eps in c],
                   "tlc_wall_s": round(rmain.wall, 1)},
        "differential_on_real_answers": {"consecutive_step_pairs_judged": res["diffjudged"],
                                         "violations": len(res["diffbad"]), "unexplained": len(unexplained_diff)},
        "history_agreement_on_real_answers": {"same_set_step_pairs": res["samesetpairs"],
                                              "disagreeing": len(res["disagree"]), "unexplained": len(unexplained_dis),
                                              "examples": res["disagree"][:4]},
        "weighted_cycle_observation": {"steps": res["cyclesteps"], "with_cycle": res["cycleused"],
                                       "builder_differs_from_smooth_wrr_reference": len(res["cyclediff"])},
        "selftest_corrupted_answers": selftest,
        "end_to_end": e2e_meta,
        "search_in_code": "sort.Search(sortedKeys[x] >= key): first ring point >= code, wrapping to index 0",
        "evaluations": nlook,
        "distinct_nontrivial": len(distinct),
        "rule": "every recorded (universe, operations so far, code, endpoint returned) is judged by TLC against "
                "HashRing!LookupSeq / ModLookup over the reference member list; distinct = distinct "
                "(universe, member set, code, answer) tuples",
        "exhaustive": False,
    }
