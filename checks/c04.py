"""C04 — schema evolution: unknown fields skipped, absent optionals take defaults, absent required is an error.

Spec: spec/TarsSchema (lenient reader semantics Dec(strict=FALSE), Skip of every wire type; theorem
UnknownSkipped / AbsentRules in MC_TarsSchema; Oracle_Dec batch oracle).
Binding B3: valid encodings written by the real WriteTo are extended by a hand-rolled builder (not the codec
under test) with well-formed unknown fields of every wire type under unused tags at their ordered position,
or have one field removed; the real ReadFrom decodes them into a fresh and into a reused (pre-filled) struct;
TLC's reference decodes the same bytes and must agree (value, success).
"""
import glob
import json
import os

from lib import codecfam, codecgen, oracle, tlc
from lib.core import Inconclusive


def run(ctx):
    ctx.level = "model_checking"
    ctx.assumptions = [
        "TarsSchema.tla Dec(strict=FALSE) is the reader semantics: fields with unknown tags are skipped exactly, absent optional -> IDL default, absent required -> error",
        "unknown fields are built by the harness' own wire builder (cmd/codecdrive/wire.go) and validated by the reference's Skip",
    ]
    from concurrent.futures import ThreadPoolExecutor
    ex = ThreadPoolExecutor(max_workers=1)
    fmc = ex.submit(tlc.run, ctx, "TarsSchema", "MC_TarsSchema", cfg="MC_TarsSchema.cfg", workers=1, timeout=1500,
                    deps=codecfam.DEPS, name="mc-schema")
    exe, schema = codecfam.prepare(ctx)
    nsh = 12
    d, last = codecfam.run_driver(ctx, exe, "mutants", "mut", ["-shards", str(nsh), "-per", str(ctx.pick(6, 80)),
                                                                "-classes", "extra,absent", "-cap", "8"])
    shards = sorted(glob.glob(os.path.join(d, "mut_*.ndjson")))
    total, bad, states, gen = codecfam.judge_dec(ctx, schema, shards, "c04", par=nsh)
    stale = 0
    for why, r in bad:
        if why == "reference-vs-expected":
            raise Inconclusive("reference decoder disagrees with the value the harness built (%s %s): %s"
                               % (r["cls"], r["s"], json.dumps(r)[:400]))
        if r["k"] == "decr" and why in ("wrong-value",) and r["fok"] and r["ok"]:
            # reused target: which members differ from the fresh decode of the same bytes?
            diff = codecfam.members_differing(schema, r["s"], r["dec"], r["fdec"])
            if diff and all(m is not None and not m["req"] and not m["hasdef"] for _, m in diff):
                stale += 1
                ctx.violate("C04:reuse-stale:absent-optional-without-declared-default",
                            "decoding into a reused struct leaves the old value in an absent optional member that has no "
                            "declared default (e.g. %s.%s)" % (r["s"], diff[0][0]), {"record": r, "members": [p for p, _ in diff]})
                continue
            ctx.violate("C04:reuse-mismatch:%s:%s" % (r["cls"], r["s"]),
                        "decoding into a reused struct differs from decoding into a fresh one at %s" % [p for p, _ in diff][:4],
                        {"record": r})
            continue
        if why == "alloc" or (why == "panic" and codecfam.panic_class(r["panic"]) == "out-of-memory"):
            continue  # allocation bounds are C05's subject
        ctx.violate("C04:%s:%s:%s%s" % (why, r["cls"], r["s"], ":reused" if r["k"] == "decr" else ""),
                    "%s input for %s: real decoder %s (reference: %s)" % (r["cls"], r["s"],
                                                                            "ok" if r["ok"] else "error/panic " + r["panic"][:80], why),
                    {"record": r})

    recs = codecfam.first_records(shards, 150)

    base = [r for r in recs if r["ok"] and r["k"] == "dec"][:100]
    # a type-correct wrong value: the decoded value of another record of the same struct
    swap = next(((i, o["dec"]) for i, r in enumerate(base) if i >= 20 for o in recs
                 if o["ok"] and o["k"] == "dec" and o["s"] == r["s"] and o["dec"] != r["dec"]), None)

    def mutate(i, r):
        if i == 10 and r["ok"] and r["dec"]:
            r["ok"] = False           # claims a well-formed extended encoding was rejected
            return r
        if swap and i == swap[0]:
            r["dec"] = swap[1]
            return r
        return None

    st = oracle.selftest(ctx, "TarsSchema", "Oracle_Dec", "Oracle.cfg", base, mutate,
                         name="dec-selftest", extra_files={"schemas.json": codecgen.schemas_json(schema)}, deps=codecfam.DEPS)
    rmc = tlc.require_clean(fmc.result(), "MC_TarsSchema")
    import re
    theorems = {m.group(1): m.group(2) == "TRUE" for m in re.finditer(r'<<"THEOREM", "(\w+)", (TRUE|FALSE)>>', rmc.out)}
    if not all(theorems.get(k) for k in ("UnknownSkipped", "AbsentRules", "RoundTrip")):
        raise Inconclusive("TarsSchema theorems failed: %s" % theorems)
    n, ndistinct, deaths, cnt = last.split(" ", 3)
    ctx.coverage = {
        "states": states + max(rmc.distinct, 1), "transitions": gen + max(rmc.generated, 1),
        "traces_validated_against_impl": total,
        "samples": [r for r in recs if r["cls"] == "extra"][:1],
        "evaluations": total, "distinct_nontrivial": int(ndistinct),
        "rule": "per struct type: valid encodings, + 1..3 unknown fields (13 wire types, nesting <= 3, extended tags) merged in tag "
                "order, - one top-level field; each decoded into a fresh and a reused struct; distinct = distinct (struct, bytes)",
        "corpus_classes": cnt, "worker_deaths": int(deaths), "reuse_stale_records": stale,
        "reference_theorems": theorems, "selftest_corrupted_records": st, "exhaustive": False,
    }
