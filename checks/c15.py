"""C15 — failover: failing endpoints leave rotation, are probed, and come back.

Spec: spec/Failover (Failover.tla: per-endpoint health record with clock-relative saturating ages, the
manager's rotation / probe queue, the registry's list as installed, actions Select / CallDone / CheckEp / CheckAll /
Advance / Refused / SetUp / Refresh; the clauses of C15 as invariants and action properties over ghost variables).
MC_*.cfg exhaustive.
Binding: B2 directed replay.  TLC produces behaviours of Failover -- Gen_Failover (biased random walks,
-simulate) and Plan_Failover (an enumerated grid of plans that land exactly on the thresholds) -- each
step with the model's projected state; harness/cmd/fodrive performs the steps on the REAL objects (a
ServantProxy over a custom registry, real AdapterProxy records, the real endpointManager, scripted TCP
servers that answer, stay silent, or stop listening and come back (a call to such an endpoint cannot even be
sent: connection refused), the status check driven through a test-only export, time advanced by shifting the
adapters' timestamps) and compares the projection after every step and the server that received every call
(for a refused call: the endpoint whose address the dial error names).
Registry refreshes (action Refresh of Failover.tla): the registry of a behaviour answers the manager's own refresher
(production path, a 4 ms ticker) with the same lists in a fresh random order until the behaviour has a Refresh step;
then the active list gains / loses endpoints, is the same, names the same endpoints with another weight, is empty, moves
endpoints to the inactive list and back --
interleaved with blocking, probing and recovery.  After a refresh a blocked endpoint that is still listed must be out of
rotation with its record and probe schedule untouched, healthy ones stay, new ones join.
Answers that WITHDRAW an endpoint while an admission for its probe is queued are outside the statement; the model has
them as coded under Stale = TRUE (plan family F14, MC_two_stale*): what the real code does there is recorded in the
evidence (a probe admitted earlier still runs and its success puts the withdrawn endpoint into rotation, where no status
check visits it), never reported.
"""
import copy
import json
import os
import re
from concurrent.futures import ThreadPoolExecutor

from lib import gobuild, tlc
from lib.core import Inconclusive, sh

SPEC = "Failover"
PROPS = ["NeverOutWithoutFailure", "NeverOutBelowTwoFailures", "AllFailingLeaves", "ProbeSpacing", "ProbeIsOneCall",
         "ProbeDecides", "OnlyProbeReturns", "CallsGoSomewhere", "RefusedProbeStaysBlocked (fault configs)", "RefusedIsAFailedCall (fault configs)"]


def tmpl(name, **kw):
    from lib.core import VERIF
    s = open(os.path.join(VERIF, "spec", SPEC, name)).read()
    for k, v in kw.items():
        s = s.replace("@%s@" % k, str(v))
    return s


def behaviours_of(out, dedupe_prefix):
    """JSON behaviours printed by TLC (PrintT(ToJson(..)) lines).  The simulator evaluates the emitting invariant on
    every candidate successor of the last step: keep one behaviour per prefix."""
    allb = []
    for line in out.splitlines():
        if not line.startswith('"{'):
            continue
        try:
            b = json.loads(json.loads(line))
        except ValueError:
            continue
        if b["steps"]:
            allb.append(b)
    if not dedupe_prefix:
        seen, res = set(), []
        for b in allb:
            key = json.dumps(b["steps"], sort_keys=True)
            if key not in seen:
                seen.add(key)
                res.append(b)
        return res
    # the invariant fires at the last two levels, for every candidate successor: one (longest) behaviour per walk
    cut = max(len(b["steps"]) for b in allb) - 2 if allb else 0
    best = {}
    for b in allb:
        key = json.dumps(b["steps"][:cut], sort_keys=True)
        if key not in best or len(b["steps"]) > len(best[key]["steps"]):
            best[key] = b
    return list(best.values())


def features(b):
    """What a behaviour exercises (for the vacuity check and the evidence)."""
    f = set()
    n = b["n"]
    prev = list(range(1, n + 1))
    prev_st = None
    went_down = set()
    prev = list(b.get("reg0", prev))
    withdrawn_blocked, withdrawn, to_inactive_blocked = set(), set(), set()
    for s in b["steps"]:
        st = s["st"]
        ac = st["ac"]
        if s["a"] == "Refresh":
            f.add("refresh")
            old = prev_st["rg"] if prev_st else b.get("reg0", list(range(1, n + 1)))
            old_cr = prev_st["cr"] if prev_st else []
            blocked = [e for e in old_cr if prev_st and not prev_st["h"][e - 1][0]]
            new, ina = s["cands"], s["ina"]
            if not new:
                f.add("refresh_empty_answer")
                if blocked:
                    f.add("refresh_noop_while_blocked")
            elif new == old and s["ok"]:
                f.add("refresh_same_endpoints_other_weight")
                if blocked:
                    f.add("refresh_other_weight_while_blocked")       # the whole refresh runs, the endpoints are the same
                if any(e in st["li"] for e in blocked):
                    f.add("refresh_between_admission_and_probe")
            elif new == old:
                f.add("refresh_same_list")
                if blocked:
                    f.add("refresh_noop_while_blocked")
            else:
                f.add("refresh_list_changed")
                gained, lost = [e for e in new if e not in old], [e for e in old if e not in new]
                if gained:
                    f.add("refresh_list_gains")
                if lost:
                    f.add("refresh_list_loses")
                kept_blocked = [e for e in blocked if e in new and e in old]
                if kept_blocked:
                    f.add("refresh_changed_while_blocked_endpoint_listed")      # the class of C15-f
                    if gained:
                        f.add("refresh_gains_other_while_blocked")
                    if lost:
                        f.add("refresh_loses_other_while_blocked")
                    if any(e in st["li"] for e in kept_blocked):
                        f.add("refresh_between_admission_and_probe")
                    if any(fl[0] in kept_blocked and fl[1] for fl in st["fl"]):
                        f.add("refresh_during_probe_call")
                if any(fl[0] != 0 for fl in st["fl"]):
                    f.add("refresh_during_call")
                for e in lost:
                    if e not in ina:
                        (withdrawn_blocked if e in blocked else withdrawn).add(e)
                    if e in ina and e in blocked:
                        to_inactive_blocked.add(e)
                    if e in ina and e in old_cr:
                        f.add("adapter_kept_on_inactive_list")
                    if e not in ina and e in old_cr:
                        f.add("adapter_dropped")
                for e in gained:
                    if e in withdrawn_blocked:
                        f.add("blocked_withdrawn_and_named_again_joins")   # C15 is silent: the registry brought it back (observation)
                    if e in withdrawn:
                        f.add("endpoint_disappears_and_comes_back")
                    if e in to_inactive_blocked and e not in ac:
                        f.add("blocked_back_from_inactive_stays_out")
                    if e not in old_cr and e in ac:
                        f.add("new_endpoint_joins")
                    withdrawn_blocked.discard(e), withdrawn.discard(e), to_inactive_blocked.discard(e)
                if not ac:
                    f.add("refresh_leaves_nothing_in_rotation")
                if not prev and ac:
                    f.add("refresh_ends_all_blocked")
            prev, prev_st = ac, st
            continue
        up = st.get("up", list(range(1, n + 1)))
        if s["a"] == "Down":
            f.add("endpoint_down")
            went_down.add(s["e"])
            if prev_st and s["e"] in prev_st["cr"] and prev_st["h"][s["e"] - 1][3] > 0:
                f.add("connection_lost")
        if s["a"] == "Up":
            f.add("endpoint_back")
        if s["a"] == "Refused":
            f.add("refused_call")
            f.add("kind_" + s["k"])
            if prev_st and prev_st["pq"]:
                f.add("refused_probe")
            elif not prev:
                f.add("refused_fallback_call")
            if len(s["cands"]) > 1:
                f.add("strategy_choice_refused")
            if prev_st and s["e"] not in prev_st["cr"]:
                f.add("refused_first_use")
        if s["a"] == "Check" and prev_st:
            for e in range(1, n + 1):
                was, now = prev_st["h"][e - 1], st["h"][e - 1]
                if e in prev_st["cr"] and e in st.get("rg", range(1, n + 1)) and not was[0] and was[5] >= 30 and e not in up and e not in st["li"]:
                    f.add("reconnect_failed_no_admission")
                if was[0] and not now[0] and e not in up:
                    f.add("blocked_while_down")
        if s["a"] == "CallDone" and s["ok"] and len(ac) > len(prev) and s["e"] in went_down:
            f.add("reinstated_after_coming_back")
        if len(ac) < len(prev):
            f.add("endpoint_blocked")
            for e in prev:
                if e not in ac and st["h"][e - 1][2] >= 5:
                    f.add("blocked_by_consecutive_rule")
        if len(ac) > len(prev):
            f.add("endpoint_reinstated")
        if s["a"] == "Select":
            if st["fl"][s["c"] - 1][1]:
                f.add("probe_call")
            elif not prev:
                f.add("fallback_call")
            if len(s["cands"]) > 1:
                f.add("strategy_choice")
            f.add("kind_" + s["k"])
        if s["a"] == "CallDone":
            f.add("call_ok" if s["ok"] else "call_failed")
        if s["a"] == "Check" and st["pq"]:
            f.add("probe_admitted")
        if s["a"] == "Check" and any(fl[0] != 0 for fl in st["fl"]):
            f.add("check_during_call")
        if not ac:
            f.add("all_blocked")
        if not up:
            f.add("nothing_listens")
        if len(st["pq"]) > 1:
            f.add("two_in_probe_queue")
        if any(not h[0] for h in st["h"]) and ac:
            f.add("partly_blocked")
        for e in st["li"]:
            if st["h"][e - 1][0]:
                f.add("healthy_endpoint_in_probe_queue")
        prev = ac
        prev_st = st
    return f


def probe_call_gaps(b):
    """Virtual time between consecutive probe CALLS to the same endpoint (the statement is judged on admissions)."""
    t, last, close = 0, {}, 0
    pq = []
    for s in b["steps"]:
        was_probe, pq = bool(pq), s["st"]["pq"]
        if s["a"] == "Advance":
            t += s["d"]
        if (s["a"] == "Select" and s["st"]["fl"][s["c"] - 1][1]) or (s["a"] == "Refused" and was_probe):
            if s["e"] in last and t - last[s["e"]] < 30:
                close += 1
            last[s["e"]] = t
    return close


def corrupt(b, kind):
    """Corrupt ONE recorded projection of a behaviour; returns (script, step index, fields the driver may name)."""
    c = copy.deepcopy(b)
    steps = c["steps"]
    for i, s in enumerate(steps):
        st = s["st"]
        blocked = [e for e in range(1, c["n"] + 1) if not st["h"][e - 1][0]]
        if kind == "blocked-claimed-in-rotation" and blocked and s["a"] in ("Check", "Advance"):
            st["ac"] = sorted(set(st["ac"]) | {blocked[0]})
            return c, i, ("active",)
        if kind == "failure-not-counted" and s["a"] == "CallDone" and not s["ok"]:
            st["h"][s["e"] - 1][1] -= 1
            return c, i, ("failCount",)
        if kind == "refusal-not-counted" and s["a"] == "Refused":
            st["h"][s["e"] - 1][1] -= 1
            return c, i, ("failCount",)
        if kind == "probe-admission-dropped" and s["a"] == "Check" and st["pq"]:
            st["pq"], st["li"] = [], []
            return c, i, ("probeQueue",)
        if kind == "reinstatement-denied" and s["a"] == "CallDone" and s["ok"] and i > 0 and steps[i - 1]["st"]["fl"][s["c"] - 1][1] \
                and not steps[i - 1]["st"]["h"][s["e"] - 1][0]:
            st["h"][s["e"] - 1][0] = False
            st["ac"] = [e for e in st["ac"] if e != s["e"]]
            return c, i, ("status",)
        if kind == "call-elsewhere" and s["a"] == "Select" and len(s["cands"]) == 1 and c["n"] > 1:
            other = [e for e in range(1, c["n"] + 1) if e != s["e"]][0]
            s["e"], s["cands"] = other, [other]
            st["fl"][s["c"] - 1][0] = other
            return c, i, ("target",)
        if kind == "refresh-reinstates-blocked" and s["a"] == "Refresh" and i > 0 and s["cands"] and (s["cands"] != steps[i - 1]["st"]["rg"] or s["ok"]):
            still = [e for e in blocked if e in st["rg"] and e in steps[i - 1]["st"]["rg"] and not steps[i - 1]["st"]["h"][e - 1][0]]
            if still:
                st["ac"] = sorted(set(st["ac"]) | {still[0]})
                return c, i, ("active",)
        if kind == "refresh-not-installed" and s["a"] == "Refresh" and i > 0 and st["rg"] != steps[i - 1]["st"]["rg"]:
            st["rg"], st["ac"] = steps[i - 1]["st"]["rg"], steps[i - 1]["st"]["ac"]
            return c, i, ("registry",)
        if kind == "time-not-passed" and s["a"] == "Advance" and s["d"] == 30 and blocked and st["h"][blocked[0] - 1][5] == 30:
            st["h"][blocked[0] - 1][5] = 0
            return c, i, ("lastBlockTime",)
    return None, None, None


def run(ctx):
    ctx.level = "model_checking"
    ctx.assumptions = [
        "keep-alive pings are off (the default keepAliveInterval = 0) except in the keep-alive plans (5 s interval); all endpoints are on distinct hosts",
        "registry: answers are judged at the behaviour's Refresh steps (the manager's own refresher asks every 4 ms and finds the same lists, in "
        "a fresh random order, in between); an answer that withdraws an endpoint from the active list while an admission for its probe is "
        "queued or a call is in flight on it is not modelled (C15 does not speak about endpoints the registry has withdrawn); an endpoint "
        "that was withdrawn altogether and is named again starts afresh, in rotation, also if it was blocked before -- as coded, the "
        "statement is silent, counted as an observation",
        "virtual time: the adapters' timestamps are shifted backwards, which equals advancing the clock because the health logic only "
        "evaluates now - t >= threshold; a behaviour that takes more than 3.5 s of wall time is retried, never judged",
        "a failed call is a call whose context ends before the (silent) server answers: cancelled by the driver once the server has "
        "the request, or -- every 10th behaviour -- left to run into a real call timeout of 120 ms; or a call whose request cannot be "
        "sent because the endpoint's server does not listen (connection refused at once on the loopback interface)",
        "a server stops listening / comes back only between calls, and the next step waits until the client transport has noticed the "
        "loss of its connection (hooks client.reconnect.dialed / client.close): 'does not listen' then equals 'cannot be sent'; ReConnect "
        "inside checkActive succeeds exactly when the server listens",
        "a request that cannot be sent counts as a failed call of its endpoint; with keep-alive configured that includes the status "
        "check's own ping (as coded: a sent and failed request), so an endpoint may leave rotation on failed pings alone",
        "the strategies' own choice among the endpoints in rotation is not modelled (Selector / HashRing do that): the driver positions "
        "the cursor / hash code / fallback seed so that the real choice follows the behaviour, and the model's candidate set is what is judged",
        "once the registry has named endpoints with another weight than their adapters were created with, the activeEp slice is an "
        "observation (a reinstated endpoint that is blocked again stays in it: addAliveEp takes the endpoint value from the adapter, checkStatus "
        "compares with the registry's); the three selectors stay the reference for 'in rotation'",
        "time does not advance while a call is in flight (a call lasts at most its timeout, below the 5 s granularity of the model)",
    ]
    thorough = not ctx.quick

    if ctx.replay:
        rp = json.load(open(ctx.replay)).get("replay", {})
        scripts = [rp["script"]]
        exe = gobuild.build(ctx, "fodrive")
        res = replay(ctx, exe, scripts, "replay", timeout_every=0, keepalive_ms=5000 if rp.get("keepalive") else 0)
        if rp.get("keepalive"):
            if res[0]["outcome"] == "ok":
                for i, br in broken_clauses(scripts[0], len(scripts[0]["steps"])):
                    ctx.violate("C15:keepalive-ping-booked-as-success:%s" % br, "reproduced: behaviour followed through step %d (%s)" % (i, br),
                                {"kind": "replay", "keepalive": True, "script": scripts[0], "result": res[0]})
        else:
            judge(ctx, scripts, res)
        ctx.coverage = {"states": 0, "transitions": 0, "traces_validated_against_impl": len(res), "samples": [res[0]],
                        "evaluations": len(res), "distinct_nontrivial": len(res), "rule": "replay of one recorded behaviour"}
        return

    # ---- 2. the harness, from the working tree (built while TLC generates)
    build_pool = ThreadPoolExecutor(max_workers=1)
    build_f = build_pool.submit(gobuild.build, ctx, "fodrive")

    # ---- 3. TLC produces the behaviours
    # (family, N, checks overlap calls)
    # F8 / F9: endpoints that stop listening and come back (Faults): refused calls, failed reconnects, refused probes, nothing listens
    # F11 / F12 / F13 / F15: the registry is asked again (Refresh) while an endpoint is blocked / admitted / being probed / everything is
    # blocked / names the same endpoints with another weight around a block - probe - reinstatement - block cycle; F16: answers that
    # change nothing (empty -- also "with another weight" --, the same active list with another inactive list) do not even clean the cache
    # (family, N, checks overlap calls, keep-alive, ping neutral, faults, registry's first list, registry's answers)
    plans = [("F1+F2+F3", 1, "FALSE"), ("F3+F4", 2, "FALSE"), ("F5", 3, "FALSE"), ("F6", 1, "TRUE"), ("F6", 2, "TRUE"),
             ("F8", 1, "FALSE", "FALSE", "FALSE", "TRUE"), ("F8+F9", 2, "FALSE", "FALSE", "FALSE", "TRUE"),
             ("F11+F13+F15+F16", 3, "FALSE", "FALSE", "FALSE", "FALSE", "1, 2", "AllAnswers"),
             ("F12", 3, "TRUE", "FALSE", "FALSE", "FALSE", "1, 2", "AllAnswers")]
    # keep-alive configured (not the default): the same plans under the model of the code as it is (a sent ping is booked as a sent,
    # successful call) and under the model of the repair (a sent ping leaves the health record alone)
    # (F10: an endpoint that does not listen and gets no call any more -- only the pings of the status checks fail on it)
    ka_plans = [("F7+F10", 2, "FALSE", "TRUE", "FALSE", "TRUE"), ("F7+F10", 2, "FALSE", "TRUE", "TRUE", "TRUE")]
    # the code as it is through registry answers that WITHDRAW an endpoint while an admission for its probe is queued (Stale = TRUE): the
    # statement is silent about withdrawn endpoints, what the real code does there is recorded, not judged
    stale_plans = [("F14", 3, "FALSE", "FALSE", "FALSE", "FALSE", "1, 2", "AllAnswers", "TRUE")]
    # (N, call slots, checks overlap calls, behaviours, depth[, endpoints stop listening and come back[, registry's first list, answers]])
    sims = ctx.pick(
        [(1, "1", "FALSE", 100, 32), (2, "1", "FALSE", 250, 32), (3, "1", "FALSE", 250, 36), (4, "1", "FALSE", 100, 36),
         (2, "1, 2", "FALSE", 100, 32), (2, "1", "TRUE", 100, 32), (3, "1, 2", "TRUE", 100, 36),
         (1, "1", "FALSE", 60, 32, "TRUE"), (2, "1", "FALSE", 150, 36, "TRUE"), (3, "1", "FALSE", 100, 36, "TRUE"),
         (2, "1, 2", "TRUE", 60, 36, "TRUE"),
         # the registry is asked again: its list gains / loses endpoints, is the same, is empty, has an inactive part
         (3, "1", "FALSE", 200, 40, "FALSE", "1, 2", "AllAnswers"), (3, "1, 2", "TRUE", 100, 40, "TRUE", "1, 2, 3", "AllAnswers")],
        [(1, "1", "FALSE", 400, 44), (2, "1", "FALSE", 900, 44), (3, "1", "FALSE", 900, 48), (4, "1", "FALSE", 600, 48),
         (2, "1, 2", "FALSE", 300, 44), (3, "1, 2", "FALSE", 300, 48), (2, "1", "TRUE", 300, 44), (3, "1, 2", "TRUE", 300, 48),
         (4, "1, 2", "TRUE", 200, 48),
         (1, "1", "FALSE", 200, 44, "TRUE"), (2, "1", "FALSE", 600, 44, "TRUE"), (3, "1", "FALSE", 500, 48, "TRUE"),
         (4, "1", "FALSE", 300, 48, "TRUE"), (2, "1, 2", "TRUE", 200, 44, "TRUE"), (3, "1, 2", "TRUE", 200, 48, "TRUE"),
         (2, "1", "FALSE", 300, 48, "FALSE", "1", "AllAnswers"), (3, "1", "FALSE", 800, 52, "FALSE", "1, 2", "AllAnswers"),
         (4, "1", "FALSE", 500, 52, "FALSE", "1, 2, 3", "AllAnswers"), (3, "1, 2", "TRUE", 300, 52, "FALSE", "1, 2, 3", "AllAnswers"),
         (4, "1, 2", "TRUE", 200, 52, "FALSE", "1, 2", "ActiveAnswers"), (3, "1", "FALSE", 300, 52, "TRUE", "1, 2", "AllAnswers"),
         (4, "1, 2", "TRUE", 200, 52, "TRUE", "1, 2, 3", "AllAnswers")])

    def gen_plan(p):
        fam, n, ov = p[:3]
        ka, pn, ft = (p[3], p[4], p[5]) if len(p) > 3 else ("FALSE", "FALSE", "FALSE")
        reg0, ans = (p[6], p[7]) if len(p) > 6 else (", ".join(str(e) for e in range(1, n + 1)), "NoAnswers")
        stale = p[8] if len(p) > 8 else "FALSE"
        r = tlc.run(ctx, SPEC, "Plan_Failover", cfg="Plan_run.cfg", workers=1, timeout=300, name="plan-%s-%d-%s" % (fam, n, pn),
                    extra_files={"Plan_run.cfg": tmpl("Plan.cfg.tmpl", N=n, F=fam, OV=ov, KA=ka, PN=pn, FT=ft, REG0=reg0, ANS=ans, ST=stale)})
        if not r.success:
            raise Inconclusive("plan generation %s failed:\n%s" % (p, "\n".join(r.out.splitlines()[-30:])))
        out = behaviours_of(r.out, False)
        for b in out:
            b["src"] = "plan %s N=%d" % (fam, n)
        return out, r

    def gen_sim(k_s):
        k, s = k_s
        n, calls, ov, num, depth = s[:5]
        ft = s[5] if len(s) > 5 else "FALSE"
        reg0, ans = (s[6], s[7]) if len(s) > 6 else (", ".join(str(e) for e in range(1, n + 1)), "NoAnswers")
        r = tlc.run(ctx, SPEC, "Gen_Failover", cfg="Gen_run.cfg", workers=1, timeout=600, name="gen-%d" % k,
                    extra_files={"Gen_run.cfg": tmpl("Gen.cfg.tmpl", N=n, CALLS=calls, OV=ov, KA="FALSE", D=depth, PB=85, PG=10, FT=ft, REG0=reg0, ANS=ans, ST="FALSE")},
                    simulate="num=%d" % num, depth=depth, seed=ctx.seed * 1000 + k)
        out = behaviours_of(r.out, True)
        if not out:
            raise Inconclusive("behaviour generation %s produced nothing:\n%s" % (s, "\n".join(r.out.splitlines()[-30:])))
        for b in out:
            b["src"] = "walk N=%d slots={%s} overlap=%s faults=%s registry={%s}/%s seed=%d" % (n, calls, ov, ft, reg0, ans, ctx.seed * 1000 + k)
        return out, r

    scripts = []
    gen_states = 0
    with ThreadPoolExecutor(max_workers=4) as ex:
        pf = [ex.submit(gen_plan, p) for p in plans]
        kf = [ex.submit(gen_plan, p) for p in ka_plans]
        stf = [ex.submit(gen_plan, p) for p in stale_plans]
        sf = [ex.submit(gen_sim, ks) for ks in enumerate(sims)]
        nplans = 0
        for f in pf:
            out, r = f.result()
            scripts += out
            nplans += len(out)
            gen_states += r.distinct
        for f in sf:
            out, r = f.result()
            scripts += out
            m = re.search(r"The number of states generated: (\d+)", r.out)
            gen_states += int(m.group(1)) if m else 0
    ka_coded, r1 = kf[0].result()
    ka_fixed, r2 = kf[1].result()
    gen_states += r1.distinct + r2.distinct
    stale_scripts = []
    for f in stf:
        out, r = f.result()
        stale_scripts += out
        gen_states += r.distinct
    ctx.log("behaviours: %d planned + %d walks + 2 x %d keep-alive plans" % (nplans, len(scripts) - nplans, len(ka_coded)))
    try:
        exe = build_f.result()
    except Inconclusive as e:
        if "VerifFailover" in str(e):
            raise Inconclusive("test-only exports of C15 are missing from the tree (apply /verif/patches/C15-hooks.diff): %s" % str(e)[-600:])
        raise

    # ---- 3b. exhaustive model checking of the design (runs beside the replay)
    cfgs = ctx.pick(["one_seq", "one_ovl", "two_quick", "one_keepalive", "one_keepalive_fixed", "one_faults", "one_keepalive_faults",
                     "two_faults_quick", "two_refresh_quick", "two_stale"],
                    ["one_seq", "one_ovl", "two_seq", "two_ovl", "two_conc", "two_fine", "three", "one_keepalive", "one_keepalive_fixed",
                     "keepalive", "one_faults", "one_keepalive_faults", "two_faults",
                     "two_refresh_quick", "two_refresh", "two_refresh_ovl", "two_refresh_faults", "three_refresh", "two_stale", "two_stale_rest"])
    # the model of the code AS IT IS with keep-alive configured must exhibit the recorded deviation, and nothing else
    expect_broken = {"one_keepalive": "AllFailingLeavesAlways", "keepalive": "AllFailingLeaves"}
    # the model of the code AS IT IS through answers that withdraw an endpoint with a queued admission must exhibit the recorded deviation
    # (an endpoint the registry does not name in rotation), and, without that invariant, nothing else (two_stale_rest)
    expect_inv_broken = {"two_stale": "RotationIsRegistered"}
    mc_pool = ThreadPoolExecutor(max_workers=ctx.pick(3, 2))
    mc_futs = {c: mc_pool.submit(tlc.run, ctx, SPEC, "MC_Failover", cfg="MC_%s.cfg" % c, workers=4, timeout=ctx.pick(300, 840),
                                 name="mc-" + c, coverage=False) for c in cfgs}

    feats = {}
    for b in scripts:
        for x in features(b):
            feats[x] = feats.get(x, 0) + 1
    need = ["endpoint_blocked", "blocked_by_consecutive_rule", "endpoint_reinstated", "probe_call", "fallback_call", "strategy_choice",
            "probe_admitted", "all_blocked", "partly_blocked", "two_in_probe_queue", "kind_rr", "kind_mod", "kind_ch", "call_ok", "call_failed",
            "check_during_call", "healthy_endpoint_in_probe_queue",
            # endpoints that stop listening and come back
            "endpoint_down", "endpoint_back", "connection_lost", "refused_call", "refused_probe", "refused_fallback_call", "refused_first_use",
            "strategy_choice_refused", "reconnect_failed_no_admission", "blocked_while_down", "reinstated_after_coming_back", "nothing_listens",
            # the registry is asked again
            "refresh_same_list", "refresh_same_endpoints_other_weight", "refresh_other_weight_while_blocked", "refresh_empty_answer", "refresh_noop_while_blocked", "refresh_list_gains", "refresh_list_loses",
            "refresh_changed_while_blocked_endpoint_listed", "refresh_gains_other_while_blocked", "refresh_loses_other_while_blocked",
            "refresh_between_admission_and_probe", "refresh_during_probe_call", "refresh_during_call", "adapter_kept_on_inactive_list",
            "adapter_dropped", "endpoint_disappears_and_comes_back", "blocked_back_from_inactive_stays_out", "new_endpoint_joins",
            "refresh_leaves_nothing_in_rotation", "refresh_ends_all_blocked", "blocked_withdrawn_and_named_again_joins"]
    missing = [x for x in need if feats.get(x, 0) < 3]
    if missing:
        raise Inconclusive("generated behaviours never exercise %s (vacuous replay)" % missing)

    # ---- 4. directed replay on the real objects
    res = replay(ctx, exe, scripts, "main", timeout_every=10)
    counts = judge(ctx, scripts, res)
    res_coded = replay(ctx, exe, ka_coded, "ka-coded", timeout_every=0, keepalive_ms=5000)
    res_fixed = replay(ctx, exe, ka_fixed, "ka-fixed", timeout_every=0, keepalive_ms=5000)
    ka = judge_keepalive(ctx, ka_coded, res_coded, ka_fixed, res_fixed)
    res_stale = replay(ctx, exe, stale_scripts, "stale", timeout_every=0)
    stale_obs = judge_stale(ctx, stale_scripts, res_stale)
    judged = counts.get("ok", 0) + counts.get("truncated", 0) + counts.get("diverged", 0)
    not_judged = len(scripts) - judged
    diverging = bool(ctx.violations)
    if not diverging and not_judged > max(5, len(scripts) // 20):
        raise Inconclusive("%d of %d behaviours could not be judged (slow / unstable / harness error): %s" % (not_judged, len(scripts), counts))
    if not diverging and counts.get("truncated", 0) > len(scripts) // 4:
        raise Inconclusive("%d of %d behaviours were cut short because the real strategy could not be steered" % (counts.get("truncated", 0), len(scripts)))

    # ---- 5. the binding is demonstrated: a corrupted projection must be flagged, at the corrupted step
    okidx = [r["idx"] for r in res if r["outcome"] == "ok"]
    selftest = {}
    bad_scripts, expect = [], []
    for kind in ("blocked-claimed-in-rotation", "failure-not-counted", "refusal-not-counted", "probe-admission-dropped",
                 "reinstatement-denied", "call-elsewhere", "time-not-passed", "refresh-reinstates-blocked", "refresh-not-installed"):
        for i in okidx:
            if scripts[i].get("overlap"):
                continue
            c, step, fields = corrupt(scripts[i], kind)
            if c is not None:
                bad_scripts.append(c)
                expect.append((kind, step, fields))
                break
        else:
            selftest[kind] = "no candidate behaviour"
    if "refusal-not-counted" in selftest and not diverging:
        raise Inconclusive("binding self-test: no replayed behaviour with a refused call to corrupt")
    if "refresh-reinstates-blocked" in selftest and not diverging:
        raise Inconclusive("binding self-test: no replayed behaviour with a registry refresh past a blocked endpoint to corrupt")
    if len(bad_scripts) < 4 and not diverging:
        raise Inconclusive("binding self-test: too few corruptible behaviours: %s" % selftest)
    # (when the real code diverges on most behaviours there may be nothing clean left to corrupt: the divergences are the verdict)
    sres = replay(ctx, exe, bad_scripts, "selftest", timeout_every=0) if bad_scripts else []
    for r in sres:
        kind, step, fields = expect[r["idx"]]
        if r["outcome"] == "diverged" and r["step"] == step and r["field"] in fields:
            selftest[kind] = "flagged at step %d (%s: expected %s, got %s)" % (step, r["field"], r["expected"], r["got"])
        else:
            selftest[kind] = "NOT FLAGGED: %s" % json.dumps({k: v for k, v in r.items() if k != "stats"})
            raise Inconclusive("binding self-test failed: corrupted projection (%s at step %d) was not flagged: %s" % (kind, step, selftest[kind]))

    # ---- 6. the model itself
    mc, mc_states, mc_trans = {}, 0, 0
    for c, f in mc_futs.items():
        r = f.result()
        if c in expect_inv_broken:
            if r.success or r.inv_violated != [expect_inv_broken[c]] or r.prop_violated:
                raise Inconclusive("MC_%s: the model of the code as it is (Stale) should violate exactly %s:\n%s"
                                   % (c, expect_inv_broken[c], "\n".join(r.out.splitlines()[-40:])))
            mc[c] = {"distinct": r.distinct, "generated": r.generated, "wall_s": round(r.wall, 1),
                     "expected_counterexample": expect_inv_broken[c] + " violated (a probe admitted before the registry withdrew the endpoint "
                                                "puts it into rotation)"}
            mc_states += r.distinct
            mc_trans += r.generated
            continue
        if c in expect_broken:
            if r.success or r.prop_violated != [expect_broken[c]] or r.inv_violated:
                raise Inconclusive("MC_%s: the model of keep-alive as coded should violate exactly %s:\n%s"
                                   % (c, expect_broken[c], "\n".join(r.out.splitlines()[-40:])))
            mc[c] = {"distinct": r.distinct, "generated": r.generated, "wall_s": round(r.wall, 1),
                     "expected_counterexample": expect_broken[c] + " violated (keep-alive ping booked as a successful call)"}
            mc_states += r.distinct
            mc_trans += r.generated
            continue
        r = tlc.require_clean(r, "MC_Failover/" + c)
        mc[c] = {"distinct": r.distinct, "generated": r.generated, "depth": r.depth, "wall_s": round(r.wall, 1)}
        mc_states += r.distinct
        mc_trans += r.generated
    mc_pool.shutdown()
    ctx.log("model checking done", mc)

    stats = {}
    for r in res:
        for k, v in r["stats"].items():
            stats[k] = stats.get(k, 0) + v
    steps_done = sum(r["steps_done"] for r in res)
    sample = next((s for s in scripts if "endpoint_reinstated" in features(s) and s["n"] == 2 and len(s["steps"]) < 40), scripts[0])
    fsample = next((s for s in scripts if "reinstated_after_coming_back" in features(s) and "blocked_while_down" in features(s)
                    and len(s["steps"]) < 40), None)
    close_calls = sum(probe_call_gaps(b) for b in scripts)
    ctx.coverage = {
        "states": mc_states + gen_states,
        "transitions": mc_trans + gen_states,
        "traces_validated_against_impl": judged,
        "samples": [{"kind": "replayed model behaviour (%s); st = model state after the step: h = per endpoint [status, failCount, "
                             "min(lastFailCount,5), sendCount, age(lastSuccessTime)<=5, age(lastBlockTime)<=30, age(lastCheckTime)<=60], "
                             "cr created, ac in rotation, pq probe queue, li probe-listed, fl in-flight [endpoint, probe], up endpoints whose "
                             "server listens" % sample.get("src"),
                     "script": sample}] + ([{"kind": "replayed model behaviour with an endpoint that stops listening and comes back (%s)"
                                                      % fsample.get("src"), "script": fsample}] if fsample else []),
        "model_checking": mc,
        "mc_distinct_states": mc_states,
        "properties_checked_by_tlc": PROPS + ["RefreshRespectsHealth (refresh configs)"] + ["TypeOK", "RotationIsHealthy", "ProbeQueueSingle", "ProbesTargetBlocked (sequential configs)",
                                              "FailuresCounted"],
        "directed_replay": {
            "behaviours": len(scripts), "planned": nplans, "random_walks": len(scripts) - nplans,
            "outcomes": counts, "steps_compared": steps_done, "real_object_stats": stats,
            "generator_states": gen_states,
            "behaviours_exercising": feats,
            "endpoints": sorted({b["n"] for b in scripts}),
            "timeout_mode_behaviours": sum(1 for r in res if r["mode"] == "timeout"),
        },
        "keep_alive_configured": ka,
        "registry_withdraws_endpoint_with_queued_probe (code as it is, statement silent)": stale_obs,
        "selftest_corrupted_projections": selftest,
        "observations": {
            "probe_calls_closer_than_30s_although_admissions_are_not": close_calls,
            "healthy_endpoint_in_probe_queue_behaviours (checks overlapping calls)": feats.get("healthy_endpoint_in_probe_queue", 0),
            "activeEp_differs_from_selectors_steps (real code, overlap behaviours)": stats.get("obs_activeEp_differs_from_selectors", 0),
            "duplicate_in_activeEp_steps (real code)": stats.get("obs_duplicate_in_activeEp", 0),
            "activeEp_keeps_blocked_endpoint_after_weight_change_steps (real code; selectors correct, no call goes there)":
                stats.get("obs_activeEp_differs_from_selectors_after_weight_change", 0),
            "unread_timestamp_differs_steps": stats.get("obs_unread_age_differs", 0),
            "blocked_endpoint_withdrawn_by_the_registry_and_named_again_joins_rotation_behaviours": feats.get("blocked_withdrawn_and_named_again_joins", 0),
            "registry_refreshes_performed (real code)": stats.get("refreshes", 0),
            "note": "C15 is judged on probe admissions (>= 30 s apart in model and code); with sparse traffic two probe calls can be closer. "
                    "When a status check runs during a probe call whose admission waited >= 30 s, the endpoint is admitted again and, once "
                    "reinstated, is still queued for a probe: its next success resets the counters again and adds it to activeEp twice "
                    "(selectors unaffected).  C15 does not forbid either; recorded, not reported.",
        },
        "evaluations": judged,
        "distinct_nontrivial": len(scripts),
        "rule": "TLC-generated behaviours of Failover (enumerated threshold plans F1-F6, F8-F9, F11-F13, F15-F16 + seeded biased random walks over 1-4 endpoints, 1-2 "
                "concurrent calls, with and without status checks during calls, with and without endpoints that stop listening and come "
                "back, with and without a registry whose answers change) replayed step by step on the real ServantProxy / "
                "endpointManager / AdapterProxy; after every step the projection (status, counters, ages, activeEp, members of the three "
                "selectors, probe queue and its guard set, in-flight targets, the registry's list as installed) is compared; a divergence counts only if it reproduces 3 times",
        "exhaustive": False,
    }


def replay(ctx, exe, scripts, name, timeout_every, keepalive_ms=0):
    sfile = os.path.join(ctx.work, "scripts-%s.ndjson" % name)
    with open(sfile, "w") as f:
        for s in scripts:
            f.write(json.dumps({k: v for k, v in s.items() if k not in ("src", "plan")}) + "\n")
    rfile = os.path.join(ctx.work, "results-%s.ndjson" % name)
    sh([exe, "replay", "-in", sfile, "-out", rfile, "-par", "12", "-timeout-every", str(timeout_every),
        "-keepalive-ms", str(keepalive_ms)], timeout=800)
    res = [json.loads(l) for l in open(rfile)]
    res.sort(key=lambda r: r["idx"])
    if len(res) != len(scripts):
        raise Inconclusive("driver returned %d results for %d behaviours" % (len(res), len(scripts)))
    return res


def broken_clauses(sc, upto):
    out = []
    for i, st in enumerate(sc["steps"][:upto]):
        for b in st.get("breaks", []):
            out.append((i, b))
    return out


def judge_keepalive(ctx, coded, res_coded, fixed, res_fixed):
    """Keep-alive configured.  The real code must follow one of the two models; following the model of the code as it is
    through a step TLC marks as breaking a clause of C15 is a reproduced violation."""
    by_plan = {json.dumps(b["plan"], sort_keys=True): (b, r) for b, r in zip(fixed, res_fixed)}
    out = {"plans": len(coded), "follows_model_of_code_as_is": 0, "follows_model_of_repair": 0, "follows_neither": 0,
           "reproduced_clause_breaks": 0}
    for b, r in zip(coded, res_coded):
        fb, fr = by_plan[json.dumps(b["plan"], sort_keys=True)]
        if r["outcome"] == "ok":
            out["follows_model_of_code_as_is"] += 1
            for i, br in broken_clauses(b, len(b["steps"])):
                out["reproduced_clause_breaks"] += 1
                ctx.violate("C15:keepalive-ping-booked-as-success:%s" % br,
                            "with client keep-alive configured the real objects follow, step by step, a behaviour that breaks C15 at step %d "
                            "(%s): the ping sent by the status check is booked as a successful call, so an endpoint whose calls all "
                            "fail is not taken out of rotation" % (i, br),
                            {"kind": "replay", "keepalive": True, "script": b, "result": r})
        elif fr["outcome"] == "ok":
            out["follows_model_of_repair"] += 1
            for i, br in broken_clauses(fb, len(fb["steps"])):
                ctx.violate("C15:clause-broken:%s" % br, "real objects follow a behaviour that breaks C15 at step %d (%s)" % (i, br),
                            {"kind": "replay", "keepalive": True, "script": fb, "result": fr})
        else:
            out["follows_neither"] += 1
            bad = fr if fr["outcome"] == "diverged" else r
            if bad["outcome"] == "diverged":
                ctx.violate("C15:replay-diverged:keepalive:%s:%s" % (bad.get("action"), bad.get("field")),
                            "keep-alive configured: real objects follow neither model at step %d: %s; expected %s, got %s"
                            % (bad["step"], bad.get("why"), bad.get("expected"), bad.get("got")),
                            {"kind": "replay", "keepalive": True, "script": fb, "result": bad})
    return out


STALE_BREAKS = ("withdrawn-endpoint-put-into-rotation-by-a-probe-admitted-earlier", "all-failing-withdrawn-endpoint-stays-in-rotation-unchecked")


def judge_stale(ctx, scripts, res):
    """Registry answers that withdraw an endpoint while an admission for its probe is queued.  C15 does not speak about endpoints
    the registry has withdrawn: what the real code does is RECORDED (does it follow the model of the code as it is? through which
    of the steps TLC marks?), never reported.  Breaks of the clauses C15 does state are judged as everywhere."""
    out = {"plans": len(scripts), "follows_model_of_code_as_is": 0, "does_not_follow": 0, "marked_steps_followed": {}}
    for b, r in zip(scripts, res):
        if r["outcome"] in ("ok", "truncated"):
            out["follows_model_of_code_as_is"] += 1
            for i, br in broken_clauses(b, r["steps_done"]):
                if br in STALE_BREAKS:
                    out["marked_steps_followed"][br] = out["marked_steps_followed"].get(br, 0) + 1
                    if br == STALE_BREAKS[1] and "sample" not in out:
                        out["sample"] = {"what": "real objects follow this behaviour step by step: the registry withdraws an endpoint whose probe was "
                                                 "admitted, the probe is still carried out and its success puts the endpoint into rotation; all its "
                                                 "calls fail (5 in a row, 5 s) and the status check at step %d leaves it in rotation -- it only "
                                                 "visits endpoints the registry names" % i,
                                         "script": {k: v for k, v in b.items() if k != "plan"}}
                else:
                    ctx.violate("C15:clause-broken:%s" % br, "real failover objects follow, step by step, a behaviour that breaks C15 at step %d (%s)" % (i, br),
                                {"kind": "replay", "script": b, "result": r})
        else:
            out["does_not_follow"] += 1
            out.setdefault("first_not_followed", {k: v for k, v in r.items() if k != "stats"})
    return out


def judge(ctx, scripts, res):
    counts = {}
    for r in res:
        counts[r["outcome"]] = counts.get(r["outcome"], 0) + 1
        if r["outcome"] in ("ok", "truncated"):
            sc = scripts[r["idx"]]
            for i, br in broken_clauses(sc, r["steps_done"]):
                ctx.violate("C15:clause-broken:%s" % br,
                            "real failover objects follow, step by step, a behaviour that breaks C15 at step %d (%s)" % (i, br),
                            {"kind": "replay", "script": sc, "result": r})
        if r["outcome"] != "diverged":
            continue
        sc = scripts[r["idx"]]
        st = sc["steps"][r["step"]] if 0 <= r["step"] < len(sc["steps"]) else {"a": "Init"}
        ctx.violate("C15:replay-diverged:%s:%s%s" % (r.get("action"), r.get("field"), status_class(sc, r)),
                    "real failover objects (%d endpoints) diverge from Failover at step %d (%s): %s; expected %s, got %s"
                    % (sc["n"], r["step"], st.get("a"), r.get("why"), r.get("expected"), r.get("got")),
                    {"kind": "replay", "script": {k: v for k, v in sc.items()}, "result": r})
    return counts


def status_class(sc, r):
    """For a status divergence at a status check: which way, and which rule the model applied (from the model's state before the check)."""
    if r.get("field") != "status" or r.get("action") != "Check" or r["step"] < 1:
        return ""
    m = re.match(r"ep(\d+) status=(\w+)", r.get("expected", ""))
    if not m:
        return ""
    e, model_healthy = int(m.group(1)), m.group(2) == "true"
    st, fail, last_fail, send, a_succ, a_block, a_check = sc["steps"][r["step"] - 1]["st"]["h"][e - 1][:7]
    if not st:
        return ":blocked-endpoint-changed-status"
    if model_healthy:
        ratio = "ratio>=1/2" if fail >= 2 and 2 * fail >= send else "ratio<1/2" if fail >= 2 else "failures<2"
        return ":left-rotation-though-no-rule-applies(run=%d%s,%s%s)" % (
            last_fail, "" if a_succ >= 5 else ",success<5s-ago", ratio, "" if a_check >= 60 else ",reinstated<60s-ago")
    rule = "consecutive-failures" if last_fail >= 5 and a_succ >= 5 else "failure-ratio"
    return ":stayed-in-rotation-though-%s-rule-applies" % rule
