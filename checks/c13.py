"""C13 — endpoint selection: members only, strict rotation, weight-proportional, total, concurrent.

Spec: spec/Selector
  Selector.tla          member list, StaticWeightList (the code's builder transliterated) and the statement's
                        formula, four strategies, Refresh/Add/Remove/Select, the properties as invariants
  MC_Selector + MC_*.cfg   exhaustive state graphs (every history over the universe)
  MC_Weights + MC_weights*.cfg   builder == formula on a weight-vector scope
  Gen_Selector          every history of length D over an operation alphabet (+ simulated deeper ones)
  Oracle_Selector       judges the real selectors' observations after every operation (B2) and
                        BuildStaticWeightList's output (B3)
  Trace_Selector        places concurrent operations atomically between their begin/end events (B1)
Driver: harness/cmd/seldrive (hist | weights | conc), also built with -race for the concurrent scenario.
Endpoints are [host, weight, weight type]: the groups conhash-lowweights (weights 1..3, 5, 8 around the w/4 boundary of the
weighted ring) and mixed-types (members that carry no static weight under the weighted mode: no static weights apply while
such a member is installed, they apply again once it is removed) are part of both tiers; the driver overwrites the list it
handed to Refresh once Refresh has returned (the caller's list is not the selector's); the concurrent burst starts its
goroutines together and is judged as T consecutive positions of the rotation.
Endpoint manager (tars/endpointmanager.go, "seldrive mgr"): Gen_Mgr enumerates every history of registry replies (same set /
one endpoint more / one less, always in a random order that is not sorted by host), endpoints blocked by the status check and
brought back by a probe, to a depth, and samples deeper ones; the driver carries them out on a real registry-fed ServantProxy
(the manager's own refresher asks the registry; five unanswered calls + status check with virtual time; answered probe), makes a
window of plain one-way calls after every operation and records which scripted server received each; Oracle_Selector!MgrJudge
turns the history into Refresh (the list the manager reports) / Remove / Add / nothing and judges the windows: members of the
current set only, strict rotation over it (with static weights: the cycle counts).
"""
import json
import os
import re
import threading
from concurrent.futures import ThreadPoolExecutor

from lib import gobuild, tlc, tracecheck
from lib.core import Inconclusive, VERIF, sh, env_go

SPEC = "Selector"
# many short TLC runs on a shared machine: keep each JVM's helper threads few (GC, JIT); the launcher reads this
os.environ.setdefault("JDK_JAVA_OPTIONS", "-XX:ParallelGCThreads=2 -XX:CICompilerCount=2")
ORACLE_CFG = "Oracle_run.cfg"

# generation groups: name -> (cfg substitutions, strategies in shards, weighted modes, window sizes)
GROUPS = {
    "plain3": dict(HOSTS="G3", WEIGHTS="GOne", LISTS="PlainLists3", ADD="GAddPlain3", REMOVE="GAddPlain3", CANON="TRUE"),
    "plain4": dict(HOSTS="G4", WEIGHTS="GOne", LISTS="PlainLists", ADD="GAddPlain4", REMOVE="GAddPlain4", CANON="TRUE"),
    "weighted": dict(HOSTS="G3", WEIGHTS="WW", LISTS="WLists", ADD="GAddW", REMOVE="GRemW", CANON="FALSE"),
    "weighted-canon": dict(HOSTS="G3", WEIGHTS="WW", LISTS="WLists", ADD="GAddW", REMOVE="GRemW", CANON="TRUE"),
    "conhash-weights": dict(HOSTS="G3", WEIGHTS="CW", LISTS="CLists", ADD="GAddC", REMOVE="GAddC", CANON="TRUE"),
    "conhash-weights-free": dict(HOSTS="G3", WEIGHTS="CW", LISTS="CLists", ADD="GAddC", REMOVE="GAddC", CANON="FALSE"),
    # small positive weights under the weighted consistent hash (w/4 rounds of ring points: 0 rounds for 1..3, yet eligible)
    "conhash-lowweights": dict(HOSTS="G3", WEIGHTS="CWL", LISTS="CLLists", ADD="GAddCL", REMOVE="GRemCL", CANON="TRUE"),
    "conhash-lowweights-free": dict(HOSTS="G3", WEIGHTS="CWL", LISTS="CLLists", ADD="GAddCL", REMOVE="GRemCLFree", CANON="FALSE"),
    # weighted mode over sets in which some endpoint carries no static weight (weight type "loop")
    "mixed-types": dict(HOSTS="G3", WEIGHTS="TW", LISTS="TLists", ADD="GAddT", REMOVE="GRemW", CANON="FALSE"),
}
# families: which groups feed which real selectors
FAMILIES = {
    "plain": dict(shards=[["rr"], ["random"], ["modhash"], ["conhash"], ["conhashd"]], quick_shards=[["rr", "random"], ["modhash", "conhash"]],
                  wt="0", k={"rr": 8, "random": 12, "modhash": 8, "conhash": 12}),
    "weighted": dict(shards=[["rr"], ["random"], ["modhash"]], quick_shards=[["rr"], ["random", "modhash"]], wt="1",
                     k={"rr": 40, "random": 16, "modhash": 32, "conhash": 16}),
    "conhash-weights": dict(shards=[["conhash"], ["conhashd"]], wt="1",
                            k={"rr": 8, "random": 8, "modhash": 8, "conhash": 32}),
}

_tlc_slots = threading.Semaphore(4)      # at most 4 TLC processes at a time (shared machine)


def tlc_run(ctx, *a, **kw):
    with _tlc_slots:
        r = tlc.run(ctx, *a, **kw)
    ctx.log("tlc %s: %.1fs" % (kw.get("name"), r.wall))
    return r


def tmpl(name, **kw):
    s = open(os.path.join(VERIF, "spec", SPEC, name)).read()
    for k, v in kw.items():
        s = s.replace("@%s@" % k, str(v))
    return s


def read_nd(path):
    with open(path) as f:
        return [json.loads(l) for l in f if l.strip()]


def dump_nd(recs):
    return "".join(json.dumps(r, separators=(",", ":")) + "\n" for r in recs)


# ---------------------------------------------------------------------------------------------- generation

def generate(ctx, group, depth, simulate=None, seed=None):
    """Histories of length `depth` of one group, enumerated (BFS) or sampled (-simulate) by TLC."""
    sub = dict(GROUPS[group])
    sub["D"] = depth
    name = "gen-%s-%d%s" % (group, depth, "-sim" if simulate else "")
    r = tlc_run(ctx, SPEC, "Gen_Selector", cfg="Gen_run.cfg", workers=1, timeout=900,
                extra_files={"Gen_run.cfg": tmpl("Gen.cfg.tmpl", **sub)}, name=name,
                simulate=("num=%d" % simulate) if simulate else None, depth=(depth + 1) if simulate else None,
                seed=seed if simulate else None)
    out = {}
    for line in r.out.splitlines():
        if line.startswith('"{'):
            try:
                s = json.loads(json.loads(line))
            except ValueError:
                continue
            if len(s["ops"]) == depth:
                out[json.dumps(s, sort_keys=True)] = s
    if not out or (not simulate and not r.success):
        raise Inconclusive("history generation failed for %s:\n%s" % (name, "\n".join(r.out.splitlines()[-30:])))
    return list(out.values()), r


def generate_mgr(ctx, depth, simulate=None, seed=None):
    """Histories of the endpoint manager (Gen_Mgr): all of length `depth`, or `simulate` sampled ones."""
    name = "gen-manager-%d%s" % (depth, "-sim" if simulate else "")
    r = tlc_run(ctx, SPEC, "Gen_Mgr", cfg="GenMgr_run.cfg", workers=1, timeout=900,
                extra_files={"GenMgr_run.cfg": tmpl("GenMgr.cfg.tmpl", D=depth)}, name=name,
                simulate=("num=%d" % simulate) if simulate else None, depth=(depth + 1) if simulate else None,
                seed=seed if simulate else None)
    out = {}
    for line in r.out.splitlines():
        if line.startswith('"{'):
            try:
                sc = json.loads(json.loads(line))
            except ValueError:
                continue
            if len(sc["ops"]) == depth:
                out[json.dumps(sc, sort_keys=True)] = sc
    if not out or (not simulate and not r.success):
        raise Inconclusive("history generation failed for %s:\n%s" % (name, "\n".join(r.out.splitlines()[-30:])))
    return list(out.values()), r


MGR_WEIGHT = {1: 1, 2: 3, 3: 2, 4: 3, 5: 1}      # static weight of host k in the weighted copies of the manager histories


def mgr_walk(ops):
    """Per step: (operation name, named set, blocked set) -- the bookkeeping of Gen_Mgr, used to word signatures and to
    pick records for the self-test; the judgement is TLC's (Oracle_Selector!MgrJudge)."""
    named, blocked, out = set(), set(), []
    for op in ops:
        if op["o"] == "K":
            hs = {e["h"] for e in op["l"]}
            nm = "first-registry-reply" if not named else "registry-tick-with-unchanged-set" if hs == named else "registry-refresh"
            if nm == "registry-refresh" and (named - hs) and (named - hs) <= blocked:
                nm += "-dropping-a-blocked-endpoint"
            if hs != named and blocked & hs:
                nm += "-while-a-blocked-endpoint-is-still-named"
            named, blocked = hs, blocked & hs
        elif op["o"] == "B":
            nm = "endpoint-blocked"
            blocked = blocked | {op["h"]}
        else:
            nm = "endpoint-recovered"
            blocked = blocked - {op["h"]}
        out.append((nm, set(named), set(blocked)))
    return out


def mgr_op_str(op):
    if op["o"] == "K":
        return "Registry{%s}" % ",".join("h%d" % e["h"] for e in op["l"])
    return "%s(h%d)" % ("Block" if op["o"] == "B" else "Recover", op["h"])


# ---------------------------------------------------------------------------------------------- oracle

VERDICT_RE = re.compile(r'<<\s*(\d+),\s*<<\s*(\d+),\s*"([^"]*)",\s*(\d+),\s*"([^"]*)"\s*>>\s*>>')
WVERDICT_RE = re.compile(r'<<\s*(\d+),\s*<<\s*"([^"]*)",\s*"([^"]*)"\s*>>\s*>>')


def oracle(ctx, name, scripts_text, obs_lines, wrecs):
    """Run Oracle_Selector; returns ({obs index -> (pstep, pclass, rstep, rclass)}, {wrec index -> (p, r)}, TLCResult)."""
    r = tlc_run(ctx, SPEC, "Oracle_Selector", cfg=ORACLE_CFG, workers=1, timeout=1500, name="oracle-" + name,
                extra_files={"scripts.ndjson": scripts_text, "obs.ndjson": "".join(obs_lines), "wrecs.ndjson": dump_nd(wrecs),
                             ORACLE_CFG: tmpl("Oracle.cfg.tmpl", RFULL="FALSE" if ctx.quick else "TRUE")})
    flat = re.sub(r"<<\s+", "<<", " ".join(r.out.split()))
    m = re.search(r'<<"STATS", (\d+), (\d+), (\d+)>>', flat)
    if not r.success or not m or '<<"NOTOK",' not in flat or '<<"WNOTOK",' not in flat:
        raise Inconclusive("oracle run %s did not complete:\n%s" % (name, "\n".join(r.out.splitlines()[-40:])))
    if int(m.group(2)) != len(obs_lines) or int(m.group(3)) != len(wrecs):
        raise Inconclusive("oracle %s read %s records, expected %d/%d" % (name, m.groups(), len(obs_lines), len(wrecs)))
    a = flat.index('<<"NOTOK",')
    b = flat.index('<<"WNOTOK",')
    c = flat.find("Computing initial states", b)
    bad = {int(i) - 1: (int(ps), pc, int(rs), rc) for i, ps, pc, rs, rc in VERDICT_RE.findall(flat[a:b])}
    wbad = {int(i) - 1: (p, rr) for i, p, rr in WVERDICT_RE.findall(flat[b:c if c > 0 else len(flat)])}
    return bad, wbad, r


def msg_class(msg):
    if "divide by zero" in msg:
        return "divide-by-zero"
    if "makeslice" in msg:
        return "makeslice-" + ("cap" if "cap out of range" in msg else "len")
    if "index out of range" in msg:
        return "index-out-of-range"
    if "slice bounds out of range" in msg:
        return "slice-bounds"
    if "nil pointer" in msg:
        return "nil-dereference"
    return re.sub(r"[^a-z]+", "-", re.sub(r"\d+", "", msg.lower())).strip("-")[:48] or "panic"


def members_after(ops):
    m = []
    for op in ops:
        if op["o"] == "F":
            m = []
            for e in op["l"]:
                if all(x["h"] != e["h"] for x in m):
                    m.append(dict(e))
        elif op["o"] == "A":
            if all(x["h"] != op["h"] for x in m):
                m.append({"h": op["h"], "w": op["w"], "t": op["t"]})
        else:
            m = [x for x in m if x["h"] != op["h"]]
    return m


def op_detail(ops, step):
    """Names the operation at the failing step (only used to word the signature; the judgement is TLC's)."""
    op = ops[step - 1]
    before = members_after(ops[:step - 1])
    if op["o"] == "R":
        st = [x for x in before if x["h"] == op["h"]]
        if st and st[0]["w"] != op["w"]:
            return "Remove(arg-weight-differs-from-stored)"
        return "Remove" if st else "Remove(absent-host)"
    if op["o"] == "A":
        return "Add(present-host)" if any(x["h"] == op["h"] for x in before) else "Add"
    return "Refresh"


def removal_detail(ops, step, sel):
    """For a non-member result: how the returned host left the set (names the input class in the signature)."""
    mem = {x["h"] for x in members_after(ops[:step])}
    alien = next((x for x in sel if x not in mem and x != 0), None)
    if alien is None or alien < 0:
        return "alien-endpoint"
    if alien == 9:
        # the driver overwrites the list it handed to Refresh with host 9 once Refresh has returned
        return "endpoint-written-into-the-callers-list-after-Refresh"
    for k in range(step, 0, -1):
        before = {x["h"] for x in members_after(ops[:k - 1])}
        after = {x["h"] for x in members_after(ops[:k])}
        if alien in before and alien not in after:
            return "host-left-by-" + op_detail(ops, k)
    return "host-never-added"


def ep_str(e):
    return "{h%d,w=%d%s}" % (e["h"], e["w"], "" if e["t"] == 1 else ",no-static-weight")


def op_str(op):
    if op["o"] == "F":
        return "Refresh([%s])" % ", ".join(ep_str(e) for e in op["l"])
    return "%s(%s)" % ("Add" if op["o"] == "A" else "Remove", ep_str(op))


def set_class(ops, step, sn):
    """Names the class of the member set at the failing step where that is what makes the input special (wording of the
    signature only): a member without a static weight under the weighted mode; only small positive weights (< 4: less
    than one round of four ring points) under the weighted consistent hash."""
    m = members_after(ops[:step])
    if not sn.endswith("+weights") or not m:
        return ""
    if any(x["t"] != 1 for x in m) and not sn.startswith("conhash"):
        return ":member-without-static-weight"
    if sn.startswith("conhash"):
        pos = [x["w"] for x in m if x["w"] > 0]
        if pos and max(pos) < 4:
            return ":only-weights-below-4"
    return ""


def sname(s, wt):
    s = "conhash" if s == "conhashd" else s
    return s + ("+weights" if wt else "")


# ---------------------------------------------------------------------------------------------- check

def run(ctx):
    ctx.level = "model_checking"
    ctx.assumptions = [
        "hosts are named 10.0.0.k so that the order of Endpoint.String() is the numeric order of k (tie-break of the weight builder)",
        "the consistent-hash ring is abstracted to 'any eligible member' here (ring placement is property C14)",
        "violations are drawn only from what the statement demands (membership, error iff none eligible, rotation by host, "
        "weighted cycle counts for positive weights, no crash); order/slot refinements of Selector.tla are recorded as observations",
        "concurrent runs: events are ordered by the shared recorder's lock; each operation takes effect atomically between its "
        "begin and end event; a data-race report alone is an observation",
        "weights stay small (|w| <= 1000); endpoints carry WeightType static, or (dedicated groups / a quarter of the weighted "
        "concurrent runs) 'loop' = no static weight: with such a member no static weights apply and round robin is held to "
        "plain rotation, mod-hash/random to membership (slot as an observation); the weighted consistent hash ignores the type",
    ]
    cov = {}
    samples = []
    quick = ctx.quick

    # ---- 0. builds in the background
    builds = {}

    def do_build(race):
        try:
            builds[race] = gobuild.build(ctx, "seldrive", race=race)
        except Exception as e:  # noqa: BLE001
            builds[race] = e

    gobuild.stage_harness(ctx)
    bthreads = [threading.Thread(target=do_build, args=(False,)), threading.Thread(target=do_build, args=(True,))]
    for t in bthreads:
        t.start()

    pool = ThreadPoolExecutor(max_workers=12)

    # ---- 2. histories (B2): TLC enumerates, the driver applies, TLC judges
    plan = ctx.pick(
        {"plain": [("plain3", 4, None), ("plain4", 3, None), ("plain4", 8, 200)],
         "weighted": [("weighted", 3, None), ("mixed-types", 3, None)],
         "conhash-weights": [("conhash-weights", 3, None), ("conhash-lowweights", 3, None), ("mixed-types", 2, None)]},
        {"plain": [("plain3", 5, None), ("plain4", 4, None), ("plain4", 9, 3000)],
         "weighted": [("weighted", 3, None), ("weighted-canon", 4, None), ("weighted", 7, 3000),
                      ("mixed-types", 3, None), ("mixed-types", 7, 3000)],
         "conhash-weights": [("conhash-weights-free", 3, None), ("conhash-weights-free", 7, 5000),
                             ("conhash-lowweights-free", 3, None), ("conhash-lowweights-free", 7, 5000),
                             ("mixed-types", 3, None), ("mixed-types", 7, 3000)]})
    gen_f = {}
    gen_once = {}       # a group that feeds two families is generated once
    for fam, gl in plan.items():
        for k, (g, d, sim) in enumerate(gl):
            if (g, d, sim) not in gen_once:
                gen_once[(g, d, sim)] = pool.submit(generate, ctx, g, d, sim, ctx.seed * 1000 + len(gen_once))
            gen_f[(fam, k)] = gen_once[(g, d, sim)]

    # endpoint manager histories: (depth, simulated number or None = all)
    mgr_plan = ctx.pick([(3, None), (8, 40)], [(4, None), (9, 300)])
    mgr_gen_f = [pool.submit(generate_mgr, ctx, d, sim, ctx.seed * 1000 + 500 + k) for k, (d, sim) in enumerate(mgr_plan)]

    # ---- 1. model checking of the design
    mc_cfgs = ctx.pick(["rr_plain", "rr_weighted_q", "rr_degenerate_q", "others_q", "mixed_q", "conhash_q"],
                       ["rr_plain", "rr_weighted_q", "rr_degenerate_q", "others_q", "conhash_q", "mixed_q",
                        "rr_weighted", "rr_degenerate", "others", "conhash", "mixed"])
    mc_f = {c: pool.submit(tlc_run, ctx, SPEC, "MC_Selector", cfg="MC_%s.cfg" % c, workers=ctx.pick(3, 4), timeout=1500,
                           name="mc-" + c) for c in mc_cfgs}
    wcfg = ctx.pick("weights13", "weights20")
    mc_f[wcfg] = pool.submit(tlc_run, ctx, SPEC, "MC_Weights", cfg="MC_%s.cfg" % wcfg, workers=ctx.pick(2, 4), timeout=1500,
                             name="mc-" + wcfg)

    # B3 vectors (python enumerates the inputs; the judgement is TLC's)
    S = [-200, -101, -100, -99, -1, 0, 1, 2, 3, 9, 10, 11, 99, 100, 101, 1000]
    vectors = []
    for a in S:
        vectors.append([a])
        for b in S:
            vectors.append([a, b])
    P = [1, 2, 3, 4, 5, 6, 7, 9, 10, 11, 12, 19, 20, 21, 50, 99, 100, 101, 250, 1000]
    nrand = ctx.pick(500, 20000)
    for i in range(nrand):
        n = ctx.rng.choice([2, 3, 3, 3, 4, 4, 5])
        kind = ctx.rng.random()
        if kind < 0.70:
            vectors.append([ctx.rng.choice(P) for _ in range(n)])
        elif kind < 0.85:
            vectors.append([ctx.rng.choice(P + [0, 0, -1]) for _ in range(n)])
        else:
            vectors.append([ctx.rng.choice(S) for _ in range(n)])
    vectors.append([])
    vrecs = []
    for w in vectors:
        ordr = ctx.rng.sample(range(1, 10), len(w))
        vrecs.append({"w": w, "t": [1] * len(w), "ord": ordr})
    # lists holding an endpoint without a static weight (every position, with positive / zero / negative weights around it)
    for n in (1, 2, 3, 4):
        for pos in range(n):
            for _ in range(ctx.pick(4, 40)):
                w = [ctx.rng.choice(P + [0, -1, -200]) for _ in range(n)]
                t = [1 if ctx.rng.random() < 0.7 else 0 for _ in range(n)]
                t[pos] = 0
                vrecs.append({"w": w, "t": t, "ord": ctx.rng.sample(range(1, 10), n)})

    for t in bthreads:
        t.join()
    for race in (False, True):
        if isinstance(builds.get(race), Exception):
            raise builds[race] if isinstance(builds[race], Inconclusive) else Inconclusive("build failed: %s" % builds[race])
    exe, exe_race = builds[False], builds[True]
    ctx.log("driver built")

    wdir = ctx.sub("b3")
    open(os.path.join(wdir, "vectors.ndjson"), "w").write(dump_nd(vrecs))
    sh([exe, "weights", "-in", os.path.join(wdir, "vectors.ndjson"), "-out", os.path.join(wdir, "wrecs.ndjson")], timeout=600)
    wrecs = read_nd(os.path.join(wdir, "wrecs.ndjson"))
    if len(wrecs) != len(vrecs):
        raise Inconclusive("weights driver returned %d records for %d vectors" % (len(wrecs), len(vrecs)))

    # ---- 2m. endpoint manager histories: generated by TLC, carried out on a registry-fed ServantProxy, judged by TLC
    mdir = ctx.sub("b2m")

    def drive_mgr():
        base, mstats = [], {}
        mg_states = mg_trans = 0
        for (d, sim), f in zip(mgr_plan, mgr_gen_f):
            scs, r = f.result()
            if sim:
                scs = sorted(scs, key=lambda x: json.dumps(x, sort_keys=True))
                import random
                random.Random(ctx.seed * 31 + d).shuffle(scs)
                scs = scs[:sim]
            mstats["depth%d%s" % (d, "/simulated" if sim else "/all")] = len(scs)
            mg_states += r.distinct
            mg_trans += r.generated
            base.extend(scs)
        # two copies: endpoints without static weights (as the registry gives them: weight 0), and with a static weight per host
        scripts = []
        for wtd in (False, True):
            for sc in base:
                def ep(e):
                    return {"h": e["h"], "w": MGR_WEIGHT[e["h"]] if wtd else 0, "t": 1 if wtd else 0}
                scripts.append({"ops": [dict(op, l=[ep(e) for e in op["l"]], w=(MGR_WEIGHT[op["h"]] if wtd and op["h"] else 0),
                                             t=1 if wtd and op["h"] else 0) for op in sc["ops"]]})
        nb = len(base)
        lines = []
        nshards = ctx.pick(4, 6)
        jobs = []
        for wtd in (False, True):
            sp_ = os.path.join(mdir, "mgr-scripts-%d.ndjson" % wtd)
            open(sp_, "w").write(dump_nd(scripts[nb:] if wtd else scripts[:nb]))
            for k in range(nshards):
                jobs.append((wtd, k, sp_))

        def one(job):
            wtd, k, sp_ = job
            outp = os.path.join(mdir, "mgr-obs-%d-%d.ndjson" % (wtd, k))
            rc, so, se = sh([exe, "mgr", "-in", sp_, "-out", outp, "-wt=%s" % ("true" if wtd else "false"), "-seed", str(ctx.seed),
                             "-shard", str(k), "-shards", str(nshards), "-k", "8", "-kw", "40"], timeout=ctx.pick(300, 1500), check=False)
            if rc != 0:
                raise Inconclusive("manager driver failed (weighted=%s shard %d): rc=%d %s" % (wtd, k, rc, se[-2000:]))
            st = json.loads(so.strip().splitlines()[-1])
            recs = read_nd(outp)
            for r_ in recs:
                if wtd:
                    r_["i"] += nb            # index into the combined script file
            return recs, st
        import time
        t0 = time.time()
        with ThreadPoolExecutor(max_workers=len(jobs)) as tp:
            res = list(tp.map(one, jobs))
        ctx.log("manager histories driven: %d in %.1fs" % (len(scripts), time.time() - t0))
        recs = [r_ for rs, _ in res for r_ in rs]
        recs.sort(key=lambda r_: r_["i"])
        tot = {}
        for _, st in res:
            for kk, v in st.items():
                tot[kk] = tot.get(kk, 0) + v
        return scripts, recs, tot, mstats, mg_states, mg_trans

    mgr_f = pool.submit(drive_mgr)

    # ---- 3. concurrent scenario (B1), plain and -race builds
    combos = [(s, wt) for s in ("rr", "random", "modhash", "conhash", "conhashd") for wt in (False, True)]
    runs_per = ctx.pick(5, 50)
    cdir = ctx.sub("b1")
    race_log = os.path.join(cdir, "race")

    def conc(args):
        (s, wt), race = args
        out = os.path.join(cdir, "trace-%s-%d-%s.ndjson" % (s, wt, "race" if race else "plain"))
        env = env_go({"GORACE": "log_path=%s exitcode=0 halt_on_error=0" % race_log})
        seed = ctx.seed * 100 + combos.index((s, wt)) * 2 + (1 if race else 0)
        rc, so, se = sh([exe_race if race else exe, "conc", "-strat", s, "-wt=%s" % ("true" if wt else "false"),
                         "-seed", str(seed), "-runs", str(runs_per), "-out", out,
                         "-updaters", "3", "-selectors", "4", "-ops", "10", "-sels", "30", "-burst", "250"],
                        env=env, timeout=ctx.pick(900, 1800), check=False)
        if rc != 0:
            raise Inconclusive("concurrent driver failed (%s wt=%s race=%s): rc=%d %s" % (s, wt, race, rc, se[-2000:]))
        return (s, wt, race), out

    conc_f = [pool.submit(conc, (c, race)) for race in (False, True) for c in combos]

    # ---- 3b. selections at full speed from 32 goroutines, nothing recorded in between (with and without an updater):
    # the recorder of the scenario above keeps selections apart; what shows only when many of them are inside the selector
    # at the same instant (a generator or cursor shared without a lock) shows here, as a panic or a foreign endpoint
    def stress():
        out = os.path.join(cdir, "stress.ndjson")
        rc, so, se = sh([exe, "stress", "-out", out, "-seed", str(ctx.seed), "-ms", str(ctx.pick(250, 2000)),
                         "-ms-random", str(ctx.pick(2500, 20000))], timeout=1500, check=False)
        if rc != 0:
            raise Inconclusive("stress driver failed: rc=%d %s" % (rc, se[-2000:]))
        return [json.loads(l) for l in open(out)]

    stress_f = pool.submit(stress)

    # ---- 2b. drive the histories and judge them
    fam_scripts = {}
    gen_stats = {}
    gen_states = gen_trans = 0
    for (fam, k), f in gen_f.items():
        scripts, r = f.result()
        g, d, sim = plan[fam][k]
        gkey = "%s/depth%d%s" % (g, d, "/simulated" if sim else "/all")
        if gkey not in gen_stats:
            gen_states += r.distinct
            gen_trans += r.generated
        gen_stats[gkey] = len(scripts)
        fam_scripts.setdefault(fam, []).extend(scripts)
    ctx.log("histories generated", gen_stats)

    hdir = ctx.sub("b2")
    shard_jobs = []     # (name, fam, scripts_text, obs lines (one JSON record per line, parsed on demand))
    nsel = 0
    for fam, scripts in fam_scripts.items():
        F = FAMILIES[fam]
        sp = os.path.join(hdir, "scripts-%s.ndjson" % fam)
        stext = dump_nd(scripts)
        open(sp, "w").write(stext)
        shards = F.get("quick_shards", F["shards"]) if ctx.quick else F["shards"]
        strats = [s for sh_ in shards for s in sh_]
        rc, so, se = sh([exe, "hist", "-in", sp, "-out", os.path.join(hdir, "obs-" + fam), "-strats", ",".join(strats), "-wt", F["wt"],
                         "-k-rr", str(F["k"]["rr"]), "-k-random", str(F["k"]["random"]), "-k-modhash", str(F["k"]["modhash"]),
                         "-k-conhash", str(F["k"]["conhash"]), "-par", "12"], timeout=1500)
        nsel += json.loads(so.strip().splitlines()[-1])["selections"]
        for sh_ in shards:
            lines = []
            for s in sh_:
                with open(os.path.join(hdir, "obs-%s.%s" % (fam, s))) as f:
                    lines.extend(f.readlines())
            shard_jobs.append(("%s-%s" % (fam, "+".join(sh_)), fam, stext, lines))
    ctx.log("histories driven: %d records, %d selections" % (sum(len(j[3]) for j in shard_jobs), nsel))

    # self-test material: corrupted copies of accepted-looking records are appended to the shard they come from
    def last_members(scripts, r):
        return members_after(scripts[r["i"]]["ops"][:len(r["obs"])])

    def find_rec(k, pred):
        scripts = fam_scripts[shard_jobs[k][1]]
        for line in shard_jobs[k][3]:
            r = json.loads(line)
            if not r["hang"] and len(r["obs"]) == len(scripts[r["i"]]["ops"]) and all(o["p"] == "" and o["sp"] == "" for o in r["obs"]) \
                    and pred(r, last_members(scripts, r)):
                return r
        return None

    def shard_of(prefix):
        return next((k for k, j in enumerate(shard_jobs) if j[0].startswith(prefix)), None)

    st_plan = {}        # shard index -> [(label, corrupted record, class the oracle must give)]
    base = find_rec(0, lambda r, m: r["s"] == "rr" and len(set(r["obs"][-1]["sel"])) >= 2 and 0 not in r["obs"][-1]["sel"])
    if base is None:
        raise Inconclusive("no record suitable for the binding self-test")
    c1 = json.loads(json.dumps(base))
    c1["obs"][-1]["sel"][1] = 9                                 # a host that is not a member
    c2 = json.loads(json.dumps(base))
    c2["obs"][-1]["sel"][1] = c2["obs"][-1]["sel"][0]            # breaks the rotation, still a member
    c3 = json.loads(json.dumps(base))
    c3["obs"][-1]["sel"] = [0] * len(c3["obs"][-1]["sel"])      # errors although endpoints are eligible
    st_plan[0] = [("non-member", c1, "non-member"), ("rotation-broken", c2, "rotation"), ("spurious-error", c3, "error-though-eligible")]
    # weighted round robin over a set with a member that carries no static weight: plain rotation is demanded
    kw = shard_of("weighted-rr")
    basem = None if kw is None else find_rec(kw, lambda r, m: r["s"] == "rr" and r["wt"] and len(m) >= 2 and any(x["t"] != 1 for x in m))
    if basem is None:
        raise Inconclusive("no record suitable for the binding self-test (weighted mode, member without a static weight)")
    c4 = json.loads(json.dumps(basem))
    c4["obs"][-1]["sel"][1] = c4["obs"][-1]["sel"][0]
    st_plan.setdefault(kw, []).append(("no-static-weight-member-rotation-broken", c4, "rotation"))
    # weighted consistent hash over a set whose positive weights are all below 4: an error there is spurious
    kc = shard_of("conhash-weights-")
    basec = None if kc is None else find_rec(kc, lambda r, m: r["wt"] and any(x["w"] > 0 for x in m) and max(x["w"] for x in m) < 4)
    if basec is None:
        raise Inconclusive("no record suitable for the binding self-test (weighted consistent hash, small positive weights)")
    c5 = json.loads(json.dumps(basec))
    c5["obs"][-1]["sel"] = [0] * len(c5["obs"][-1]["sel"])
    st_plan.setdefault(kc, []).append(("small-positive-weights-spurious-error", c5, "error-though-eligible"))
    st_n0 = {k: len(shard_jobs[k][3]) for k in st_plan}

    def obs_ext(k):
        return shard_jobs[k][3] + [json.dumps(c, separators=(",", ":")) + "\n" for _, c, _ in st_plan.get(k, [])]

    wbase = next((i for i, r in enumerate(wrecs) if r["p"] == "" and len(r["w"]) >= 2 and min(r["w"]) > 0 and min(r["t"]) == 1
                  and len(set(r["out"])) >= 2), None)
    if wbase is None:
        raise Inconclusive("no weight record suitable for the binding self-test")
    wc = json.loads(json.dumps(wrecs[wbase]))
    wc["out"][0] = next(x for x in wc["out"] if x != wc["out"][0])   # one slot moved to another endpoint
    wrecs_ext = wrecs + [wc]

    orc_f = [None] * len(shard_jobs)
    for k in sorted(range(len(shard_jobs)), key=lambda k: -sum(len(x) for x in shard_jobs[k][3])):
        name, fam, stext, obs = shard_jobs[k]           # the most expensive shard first
        orc_f[k] = pool.submit(oracle, ctx, name, stext, obs_ext(k), wrecs_ext if k == len(shard_jobs) - 1 else [])

    # manager histories: own oracle run, with two corrupted copies of accepted records appended (binding self-test)
    def judge_mgr():
        scripts, recs, tot, mstats, mg_states, mg_trans = mgr_f.result()
        if len(recs) != len(scripts):
            raise Inconclusive("manager driver returned %d records for %d histories" % (len(recs), len(scripts)))
        skipped = [r_ for r_ in recs if r_["skip"]]
        if len(skipped) * 5 > len(recs):
            raise Inconclusive("manager driver could not carry out %d of %d histories, e.g. %s"
                               % (len(skipped), len(recs), [r_["skip"] for r_ in skipped[:3]]))
        # classes of histories the run must contain
        cls = {"refresh-with-changed-set-while-a-blocked-endpoint-is-still-named": 0, "tick-with-unchanged-set-after-a-recovery": 0,
               "refresh-dropping-a-blocked-endpoint": 0, "tick-with-unchanged-set-while-an-endpoint-is-blocked": 0}
        st_c = []
        for r_ in recs:
            ops = scripts[r_["i"]]["ops"][:len(r_["obs"])]
            w = mgr_walk(ops)
            seen_v = False
            for j, (nm, named, blocked) in enumerate(w):
                seen_v = seen_v or nm == "endpoint-recovered"
                if nm.endswith("while-a-blocked-endpoint-is-still-named"):
                    cls["refresh-with-changed-set-while-a-blocked-endpoint-is-still-named"] += 1
                    if len(st_c) == 0 and not r_["skip"] and not r_["wt"] and len(named - blocked) >= 2:
                        c = json.loads(json.dumps(r_))
                        c["obs"] = c["obs"][:j + 1]
                        c["obs"][j]["sel"][1] = sorted(blocked & named)[0]      # a blocked endpoint serves a call after the refresh
                        st_c.append(("manager-blocked-endpoint-selected-after-refresh", c, "non-member"))
                elif nm == "registry-tick-with-unchanged-set" and seen_v:
                    cls["tick-with-unchanged-set-after-a-recovery"] += 1
                elif nm == "registry-tick-with-unchanged-set" and blocked:
                    cls["tick-with-unchanged-set-while-an-endpoint-is-blocked"] += 1
                    if len(st_c) == 1 and not r_["skip"] and not r_["wt"] and len(named - blocked) >= 2:
                        c = json.loads(json.dumps(r_))
                        c["obs"] = c["obs"][:j + 1]
                        c["obs"][j]["sel"][1] = c["obs"][j]["sel"][0]             # the rotation stumbles after the tick
                        st_c.append(("manager-rotation-broken-after-tick", c, "rotation"))
                elif nm.startswith("registry-refresh-dropping-a-blocked-endpoint"):
                    cls["refresh-dropping-a-blocked-endpoint"] += 1
        if min(cls.values()) == 0 or len(st_c) < 2:
            raise Inconclusive("vacuous manager histories: classes %s, self-test records %d" % (cls, len(st_c)))
        lines = [json.dumps(r_, separators=(",", ":")) + "\n" for r_ in recs] + \
                [json.dumps(c, separators=(",", ":")) + "\n" for _, c, _ in st_c]
        bad, _, r = oracle(ctx, "manager", dump_nd(scripts), lines, [])
        return scripts, recs, tot, mstats, mg_states, mg_trans, cls, st_c, bad, skipped

    mgr_j = pool.submit(judge_mgr)

    # ---- 3b. traces -> TLC
    def prep_traces(path):
        evs = read_nd(path)
        runs, cur, pend = [], [], {}
        for e in evs:
            if e["e"] == "Reset":
                runs.append(cur)
                cur, pend = [], {}
                continue
            if e["e"] == "B":
                pend[e["g"]] = e
            elif e["e"] == "E" and e["g"] in pend:
                pend.pop(e["g"])["r"] = e["r"]           # prophecy: the result the operation will report
            cur.append(e)
        return runs

    trace_sets = {}
    for f in conc_f:
        key, out = f.result()
        trace_sets[key] = prep_traces(out)
    stress_recs = stress_f.result()
    stress_sels = sum(r["sels"] for r in stress_recs)
    if len(stress_recs) != 20 or any(r["sels"] == 0 and not r["p"] for r in stress_recs):
        raise Inconclusive("stress stage: %d records, some without selections" % len(stress_recs))
    for r in stress_recs:
        sn = sname(r["s"], r["wt"])
        how = "with" if r["upd"] else "without"
        if r["p"]:
            ctx.violate("C13:panic:%s:%s:concurrent-selections" % (r["sp"] or "?", msg_class(r["p"])),
                        "%s panicked (%s) on the %s selector while 32 goroutines selected at full speed %s concurrent updates "
                        "(after %d selections)" % (r["sp"], r["p"], sn, how, r["sels"]), {"kind": "stress", "record": r})
        if r["foreign"]:
            ctx.violate("C13:%s:non-member:concurrent-selections" % sn,
                        "%d of %d selections on the %s selector returned an endpoint outside the universe while 32 goroutines "
                        "selected at full speed %s concurrent updates" % (r["foreign"], r["sels"], sn, how),
                        {"kind": "stress", "record": r})
    all_runs = [(key, i, t) for key, ts in sorted(trace_sets.items()) for i, t in enumerate(ts)]
    nsh = ctx.pick(2, 4)
    tr_cfg = open(os.path.join(VERIF, "spec", SPEC, "Trace.cfg")).read()

    def val(k):
        mine = all_runs[k::nsh]
        acc, fails, st = tracecheck.validate(ctx, SPEC, "Trace_Selector", tr_cfg, [t for _, _, t in mine],
                                             name="trace-%d" % k, timeout=1500, max_failures=4)
        return mine, acc, fails, st

    def val_locked(k):
        import time
        with _tlc_slots:
            t0 = time.time()
            res = val(k)
        ctx.log("tlc trace-%d: %.1fs" % (k, time.time() - t0))
        return res

    tr_f = [pool.submit(val_locked, k) for k in range(nsh)]

    # self-test of the trace binding: a Select result replaced by a host that never was a member; a burst on one host
    cand = None
    for key, i, t in all_runs:
        if key[0] == "rr" and not key[2]:
            idx = [k for k, e in enumerate(t) if e["e"] == "E" and e["r"] > 0]
            if idx and all(not e.get("p") for e in t):
                cand = (t, idx[len(idx) // 2])
                break
    if cand is None:
        raise Inconclusive("no trace suitable for the trace self-test")
    t, k = cand
    bad_t = [dict(e) for e in t]
    g = bad_t[k]["g"]
    bad_t[k]["r"] = 9
    for j in range(k - 1, -1, -1):
        if bad_t[j]["e"] == "B" and bad_t[j]["g"] == g:
            bad_t[j]["r"] = 9
            break
    st_traces = {"trace-select-result-non-member": bad_t}
    for key, i, t2 in all_runs:
        if key[0] == "rr" and not key[1] and t2 and t2[-1]["e"] == "Burst" and len(set(t2[-1]["sel"])) >= 2 \
                and all(not e.get("p") for e in t2):
            bad_b = [dict(e) for e in t2]
            bad_b[-1]["sel"] = [bad_b[-1]["sel"][0]] * len(bad_b[-1]["sel"])     # all selections of the burst on one host
            st_traces["trace-burst-single-host"] = bad_b
            break

    def st_val(label):
        with _tlc_slots:
            acc, fails, _ = tracecheck.validate(ctx, SPEC, "Trace_Selector", tr_cfg, [st_traces[label]], name="selftest-" + label, timeout=300)
        return bool(fails)

    st_tr_f = {label: pool.submit(st_val, label) for label in st_traces}

    # ---- collect: model checking
    mc = {}
    mc_states = mc_trans = 0
    for c, f in mc_f.items():
        r = tlc.require_clean(f.result(), "MC " + c)
        mc[c] = {"distinct": r.distinct, "generated": r.generated, "depth": r.depth}
        mc_states += r.distinct
        mc_trans += r.generated
    ctx.log("model checking done", mc)

    # ---- collect: oracle verdicts
    judged = 0
    robs = {}
    distinct = set()
    st_res = {}
    wbad_all = {}
    for k, ((name, fam, stext, obs), f) in enumerate(zip(shard_jobs, orc_f)):
        bad, wbad, r = f.result()
        scripts = fam_scripts[fam]
        for j, (label, _, want) in enumerate(st_plan.get(k, [])):
            got = bad.pop(st_n0[k] + j, None)
            st_res[label] = "rejected (%s)" % got[1] if got and got[1] == want else "ACCEPTED/%s" % (got,)
        if k == len(shard_jobs) - 1:
            got = wbad.pop(len(wrecs), None)
            st_res["weight-list-slot-moved"] = "rejected (%s)" % got[0] if got and got[0] == "count" else "ACCEPTED/%s" % (got,)
            wbad_all = wbad
        judged += len(obs)
        for idx, (ps, pc, rs, rc) in sorted(bad.items(), key=lambda kv: (kv[1][0], kv[0])):   # shortest history first
            rec = json.loads(obs[idx])
            ops = scripts[rec["i"]]["ops"]
            sn = sname(rec["s"], rec["wt"])
            if pc != "ok":
                if pc == "hang":
                    ps = len(ops)           # the history did not come back: some operation or selection in it blocks
                o = rec["obs"][ps - 1] if 0 < ps <= len(rec["obs"]) else {}
                hist = [op_str(x) for x in ops[:ps]]
                replay = {"kind": "history", "strategy": rec["s"], "weighted": rec["wt"], "ops": ops[:ps],
                          "observation": o, "class": pc, "step": ps}
                if pc in ("panic", "panic-in-select"):
                    msg, fn = (o["p"], o["pf"]) if pc == "panic" else (o["sp"], o["spf"])
                    ctx.violate("C13:panic:%s:%s%s" % (fn or "?", msg_class(msg), set_class(ops, ps, sn)),
                                "%s panicked (%s) in %s on the %s selector after %s; members then: %s"
                                % ("the operation" if pc == "panic" else "Select", msg, fn, sn, "; ".join(hist),
                                   members_after(ops[:ps])), replay)
                elif pc in ("window-too-short", "malformed", "no-observation"):
                    raise Inconclusive("oracle could not judge record %d of %s (%s)" % (idx, name, pc))
                else:
                    detail = ("history" if pc == "hang" else removal_detail(ops, ps, o.get("sel", [])) if pc == "non-member"
                              else "after-" + op_detail(ops, ps))
                    if pc not in ("hang", "non-member"):
                        detail += set_class(ops, ps, sn)
                    ctx.violate("C13:%s:%s:%s" % (sn, pc, detail),
                                "%s selector (%s): %s after %s; members per specification: %s; selections seen: %s"
                                % (sn, rec["s"], pc, "; ".join(hist), members_after(ops[:ps]), o.get("sel")), replay)
            if rc != "ok":
                e = robs.setdefault("%s:%s" % (sn, rc), {"count": 0})
                e["count"] += 1
                if "example" not in e:
                    e["example"] = {"ops": [op_str(x) for x in ops[:rs]], "sel": rec["obs"][rs - 1]["sel"]}
    for label, res in st_res.items():
        if not res.startswith("rejected"):
            raise Inconclusive("binding self-test failed: corrupted record '%s' was %s" % (label, res))

    # manager histories
    scripts_m, recs_m, mtot, mstats, mg_states, mg_trans, mcls, st_c, mbad, mskipped = mgr_j.result()
    for j, (label, _, want) in enumerate(st_c):
        got = mbad.pop(len(recs_m) + j, None)
        st_res[label] = "rejected (%s)" % got[1] if got and got[1] == want else "ACCEPTED/%s" % (got,)
        if not st_res[label].startswith("rejected"):
            raise Inconclusive("binding self-test failed: corrupted record '%s' was %s" % (label, st_res[label]))
    msel = sum(len(o["sel"]) for r_ in recs_m for o in r_["obs"])
    nsel += msel
    judged += len(recs_m)
    for idx, (ps, pc, rs, rc) in sorted(mbad.items(), key=lambda kv: (kv[1][0], kv[0])):
        rec = recs_m[idx]
        ops = scripts_m[rec["i"]]["ops"]
        sn = "rr+weights" if rec["wt"] else "rr"
        if pc != "ok":
            if pc == "hang":
                ps = len(rec["obs"])
            if pc in ("window-too-short", "malformed", "no-observation"):
                raise Inconclusive("oracle could not judge manager record %d (%s)" % (idx, pc))
            walk = mgr_walk(ops[:ps])
            nm, named, blocked = walk[ps - 1]
            o = rec["obs"][ps - 1] if 0 < ps <= len(rec["obs"]) else {}
            hist = [mgr_op_str(x) for x in ops[:ps]]
            replay = {"kind": "manager-history", "weighted": rec["wt"], "ops": ops[:ps], "observation": o, "class": pc, "step": ps}
            if pc in ("panic", "panic-in-select"):
                ctx.violate("C13:panic:%s:%s:manager" % (o.get("spf") or "?", msg_class(o.get("sp", ""))),
                            "a plain call through the registry-fed proxy panicked (%s) after %s" % (o.get("sp"), "; ".join(hist)), replay)
                continue
            detail = "after-" + nm
            if pc == "non-member":
                act = set(o.get("act", []))
                alien = next((x for x in o.get("sel", []) if x not in act and x != 0), None)
                detail = ("blocked-endpoint-selected" if alien in blocked else "endpoint-the-registry-no-longer-names-selected"
                          if alien is not None and alien > 0 and alien not in named else "endpoint-outside-the-current-set-selected") + ":" + detail
            ctx.violate("C13:manager:%s:%s:%s" % (sn, pc, detail),
                        "endpoint manager, plain calls (%s): %s after %s; the registry names %s, blocked by the status check: %s, the manager's "
                        "own account of its current set: %s; servers that received the calls: %s"
                        % (sn, pc, "; ".join(hist), sorted(named), sorted(blocked), o.get("act"), o.get("sel")), replay)
        if rc != "ok":
            e = robs.setdefault("manager-%s:%s" % (sn, rc), {"count": 0})
            e["count"] += 1
            if "example" not in e:
                e["example"] = {"ops": [mgr_op_str(x) for x in ops[:rs]], "sel": rec["obs"][rs - 1]["sel"], "act": rec["obs"][rs - 1]["act"]}

    # B3 verdicts
    worder = 0
    for idx, (pc, rc) in sorted(wbad_all.items()):
        rec = wrecs[idx]
        if pc == "panic":
            ctx.violate("C13:panic:%s:%s" % (rec["pf"] or "?", msg_class(rec["p"])),
                        "BuildStaticWeightList panicked (%s) for weights %s" % (rec["p"], rec["w"]),
                        {"kind": "weights", "w": rec["w"], "t": rec["t"], "hosts": rec["ord"], "panic": rec["p"]})
        elif pc != "ok":
            ctx.violate("C13:weights:%s" % pc,
                        "BuildStaticWeightList(%s) = %s: %s (a full cycle must hold endpoint i exactly max(1, floor(W_i*R/W_max)) times)"
                        % (rec["w"], rec["out"], pc), {"kind": "weights", "w": rec["w"], "hosts": rec["ord"], "out": rec["out"]})
        elif rc != "ok":
            worder += rc == "order"
            robs.setdefault("weights:" + rc, {"count": 0, "example": {"w": rec["w"], "t": rec["t"], "hosts": rec["ord"], "out": rec["out"]}})["count"] += 1

    # ---- collect: traces
    tstates = ttrans = 0
    truns = tevents = 0
    overlap = 0
    for f in tr_f:
        mine, acc, fails, st = f.result()
        tstates += st["states"]
        ttrans += st["transitions"]
        truns += len(mine)
        for key, i, t in mine:
            tevents += len(t)
            depth = 0
            for e in t:
                if e["e"] == "B":
                    depth += 1
                    overlap += depth > 1
                elif e["e"] == "E":
                    depth -= 1
        for fl in fails:
            (s, wt, race), i, t = mine[fl["index"]]
            ev = fl["event"]
            sn = sname(s, wt)
            replay = {"kind": "concurrent-trace", "strategy": s, "weighted": wt, "race_build": race, "offset": fl["offset"],
                      "trace": t}
            if ev.get("p"):
                ctx.violate("C13:panic:%s:%s" % (ev.get("pf") or "?", msg_class(ev["p"])),
                            "panic (%s) in %s during the concurrent scenario on the %s selector" % (ev["p"], ev.get("pf"), sn), replay)
            elif ev["e"] == "E" and ev.get("r") == 0:
                ctx.violate("C13:concurrent:%s:select-error-though-an-endpoint-is-eligible-between-begin-and-end" % sn,
                            "concurrent Select on the %s selector failed although at every point between its begin and end some "
                            "endpoint was eligible" % sn, replay)
            elif ev["e"] == "E":
                ctx.violate("C13:concurrent:%s:select-result-not-a-member-between-begin-and-end" % sn,
                            "concurrent Select on the %s selector returned %s, which is allowed at no point between its begin and end"
                            % (sn, ev.get("r")), replay)
            elif ev["e"] == "Hang":
                ctx.violate("C13:concurrent:%s:hang" % sn,
                            "an operation on the %s selector never returned during the concurrent scenario (pending: %s)"
                            % (sn, [e for e in t[-12:] if e["e"] == "B"][-3:]), replay)
            elif ev["e"] == "Burst":
                ctx.violate("C13:concurrent:%s:burst-not-a-rotation" % sn,
                            "selections by several goroutines over an unchanged set are not consecutive rotation steps: %s" % ev.get("sel"),
                            replay)
            else:
                raise Inconclusive("trace validation stopped at an unexpected event %s" % json.dumps(ev)[:300])
    if overlap == 0:
        raise Inconclusive("the concurrent scenario produced no overlapping operations (vacuous)")

    for label, f in st_tr_f.items():
        st_res[label] = "rejected" if f.result() else "ACCEPTED"
        if st_res[label] != "rejected":
            raise Inconclusive("binding self-test failed: corrupted trace (%s) was accepted" % label)

    # ---- race detector: an observation
    race_reports = []
    for fn in sorted(os.listdir(cdir)):
        if fn.startswith("race."):
            txt = open(os.path.join(cdir, fn), errors="replace").read()
            for blk in txt.split("WARNING: DATA RACE")[1:]:
                fns = re.findall(r"^\s+(github\.com/TarsCloud/TarsGo/\S+|math/rand\.\S+)\(", blk, re.M)
                race_reports.append(fns[0].split("/")[-1] if fns else "?")
    race_summary = {}
    for x in race_reports:
        race_summary[x] = race_summary.get(x, 0) + 1
    # a data race inside a selector is an observation -- and a lead: the strategy it names is stressed on until the race
    # does damage (a panic, a foreign endpoint) or the budget is used up; only the damage is a verdict
    PKG = {"random.": "random", "rand.": "random", "roundrobin.": "rr", "modhash.": "modhash", "consistenthash.": "conhash"}
    leads = sorted({v for x in race_summary for k, v in PKG.items() if x.startswith(k)})
    chased = {}
    for strat in leads:
        if any(r["p"] or r["foreign"] for r in stress_recs if r["s"] == strat):
            continue
        out = os.path.join(cdir, "stress-%s.ndjson" % strat)
        per = ctx.pick(2500, 5000)
        rc, so, se = sh([exe, "stress", "-only", strat, "-out", out, "-seed", str(ctx.seed + 50), "-ms", str(per), "-ms-random", str(per),
                         "-rounds", str(ctx.pick(4, 15)), "-stop-on-panic"], timeout=1500, check=False)
        if rc != 0:
            raise Inconclusive("stress driver failed: rc=%d %s" % (rc, se[-2000:]))
        more = [json.loads(l) for l in open(out)]
        chased[strat] = {"runs": len(more), "selections": sum(r["sels"] for r in more), "damage": False}
        for r in more:
            sn = sname(r["s"], r["wt"])
            how = "with" if r["upd"] else "without"
            if r["p"]:
                chased[strat]["damage"] = True
                ctx.violate("C13:panic:%s:%s:concurrent-selections" % (r["sp"] or "?", msg_class(r["p"])),
                            "%s panicked (%s) on the %s selector while 32 goroutines selected at full speed %s concurrent updates "
                            "(the race detector had reported a data race there; run %d of the follow-up stress)"
                            % (r["sp"], r["p"], sn, how, len(more)), {"kind": "stress", "record": r})
            if r["foreign"]:
                chased[strat]["damage"] = True
                ctx.violate("C13:%s:non-member:concurrent-selections" % sn,
                            "%d of %d selections on the %s selector returned an endpoint outside the universe (follow-up stress after a "
                            "data race report)" % (r["foreign"], r["sels"], sn), {"kind": "stress", "record": r})
    if race_reports:
        ctx.notes.append("race detector reported %d data race(s) in the concurrent scenario (observation, not a verdict): %s"
                         % (len(race_reports), race_summary))
    if robs:
        ctx.notes.append("refinement observations (allowed by the statement, differ from Selector.tla's deterministic choice): %s"
                         % {k: v["count"] for k, v in robs.items()})

    pool.shutdown(wait=True)

    # ---- samples
    ex = next((r for r in map(json.loads, shard_jobs[0][3][:2000]) if r["s"] == "rr" and len(r["obs"]) >= 3), None)
    if ex:
        samples.append({"kind": "judged history (rr)", "ops": [op_str(o) for o in fam_scripts[shard_jobs[0][1]][ex["i"]]["ops"]],
                        "selections_after_each_op": [o["sel"] for o in ex["obs"]]})
    wex = next((r for r in wrecs if r["p"] == "" and len(r["w"]) == 3 and min(r["w"]) > 0), None)
    if wex:
        samples.append({"kind": "judged weight list", "w": wex["w"], "hosts": wex["ord"], "out": wex["out"]})
    mex = next((r_ for r_ in recs_m if not r_["skip"] and any(op["o"] == "V" for op in scripts_m[r_["i"]]["ops"])), None)
    if mex:
        samples.append({"kind": "judged endpoint-manager history", "weighted": mex["wt"],
                        "ops": [mgr_op_str(o) for o in scripts_m[mex["i"]]["ops"]],
                        "servers_that_received_the_calls_after_each_op": [o["sel"] for o in mex["obs"]],
                        "managers_account_of_its_set_after_each_op": [o["act"] for o in mex["obs"]]})
    if all_runs:
        samples.append({"kind": "validated concurrent run", "strategy": all_runs[0][0][0], "weighted": all_runs[0][0][1],
                        "events": all_runs[0][2][:14]})

    ctx.coverage = {
        "states": mc_states + gen_states + tstates + mg_states,
        "transitions": mc_trans + gen_trans + ttrans + mg_trans,
        "traces_validated_against_impl": judged + len(wrecs) + truns,
        "samples": samples,
        "model_checking": mc,
        "mc_distinct_states": mc_states,
        "histories": {"generated_by_tlc": gen_stats, "records_judged": judged, "selections_judged": nsel,
                      "shards": [j[0] for j in shard_jobs], "tlc_states": gen_states},
        "endpoint_manager": {"histories_generated_by_tlc": mstats, "modes": ["no static weights", "static weight per host"],
                             "records_judged": len(recs_m), "selections_judged": msel, "driver": mtot,
                             "not_carried_out_to_the_end": len(mskipped), "examples_not_carried_out": [r_["skip"] for r_ in mskipped[:3]],
                             "steps_by_class": mcls, "tlc_states": mg_states,
                             "how": "registry replies in random non-sorted order through the manager's own refresher (10 ms ticker, one "
                                    "query let through per scripted reply); block = five unanswered calls + status check (virtual time); "
                                    "recovery = answered probe; selections = which scripted server received each plain one-way call"},
        "weight_vectors": {"judged": len(wrecs), "positive": sum(1 for r in wrecs if r["w"] and min(r["w"]) > 0),
                           "with_an_endpoint_without_static_weight": sum(1 for r in wrecs if r["t"] and min(r["t"]) == 0),
                           "with_zero_or_negative": sum(1 for r in wrecs if r["w"] and min(r["w"]) <= 0),
                           "order_differs_from_reference": worder},
        "concurrent": {"runs": truns, "events": tevents, "begins_while_another_operation_pending": overlap,
                       "tlc_states": tstates, "combos": ["%s%s" % (s, "+weights" if wt else "") for s, wt in combos],
                       "builds": ["plain", "race"]},
        "stress": {"runs": len(stress_recs), "selections": stress_sels, "goroutines": 32,
                   "rule": "selections at full speed with nothing recorded in between, each strategy x weights x with/without an "
                           "updater; verdicts: a panic, an endpoint outside the universe; a strategy named by a data race report is "
                           "stressed on (follow_up) until the race does damage or the budget is used up",
                   "follow_up": chased},
        "race_detector": {"reports": len(race_reports), "by_function": race_summary,
                          "note": "observation only; a violation needs a wrong result or a crash"},
        "refinement_observations": robs,
        "selftest_corrupted_observations": st_res,
        "evaluations": nsel + len(wrecs) + tevents,
        "distinct_nontrivial": judged + len({json.dumps(r["w"]) + json.dumps(r["ord"]) for r in wrecs}) + truns,
        "rule": "every history of the listed depth over the group's operation alphabet (TLC BFS) and simulated deeper ones, applied to "
                "fresh real selectors (rr, random, modhash, conhash ketama/default; plain and static-weight mode; groups with small positive "
                "weights 1..3/5/8 for the weighted ring and with members that carry no static weight under the weighted mode), a window of "
                "selections after every operation judged by Oracle_Selector; weight vectors (all of length<=2 over a boundary set, "
                "random longer ones) through BuildStaticWeightList; concurrent runs (3 updaters, 4 selectors, final burst) validated "
                "by Trace_Selector; endpoint-manager histories (registry replies / block / recover, Gen_Mgr) carried out on a registry-fed "
                "ServantProxy and judged by Oracle_Selector!MgrJudge; distinct = distinct (strategy, mode, history) + distinct vectors + runs",
        "exhaustive": False,
    }
