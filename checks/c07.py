"""C07 — stream framing is independent of TCP segmentation and bounds packet size.

Spec: spec/Framing (Framing.tla: positions model of stream/buffer/scan loop, read timeouts that change nothing,
connections that die anywhere in their stream and are followed by a fresh one; MC over every sequence of <= 3
lengths from {0,3,4,5,6,7} with maxLen 6 and every partition into reads <= 5 bytes, and 4-packet streams around
maxLen 9 with coalescing reads, two successive connections, an illegal header followed by junk or ending the
stream; Trace_Framing).
Binding B1 with a directed peer: the harness feeds the real tcp server recv loop (transport.TarsServer; framing
asked of protocol.TarsRequest or of tars.Protocol.ParsePackage; ReadTimeout 0 or 12 ms) and the real client recv
loop (transport.TarsClient with protocol.TarsRequest, or a real tars.ServantProxy on a direct endpoint so that
the transport asks AdapterProxy.ParsePackage; ReadTimeout 0 or 12 ms) with scripted streams cut into scripted
chunks (single bytes, inside every header, header | body, next to every boundary, all at once, packet-aligned,
random), waiting via the read hook until each chunk was consumed; between chunks it may stay silent for longer
than the read timeout (Pause), and it may close the connection anywhere in the stream (Cut) and feed the next
connection of the same receiver (the client reconnects on its next Send / one-way call).  Hooks (build tag verif)
report every read size, every packet handed to the protocol layer (length, payload id), parse errors; the harness
observes that an illegal length closes that connection and only that one.  TLC validates every trace against
Framing.
"""
import json
import os
from concurrent.futures import ThreadPoolExecutor

from lib import gobuild, tlc, tracecheck
from lib.core import Inconclusive, VERIF, sh

SPEC = "Framing"


def split(path):
    traces, cur = [], []
    for line in open(path):
        e = json.loads(line)
        if e["e"] == "End":
            traces.append(cur)
            cur = []
        else:
            cur.append(e)
    return traces


def run(ctx):
    ctx.level = "model_checking"
    ctx.assumptions = [
        "a packet's identity is carried in every payload byte (index of the packet in its stream); header + uniform payload of the right length = the packet that was sent",
        "read sizes are taken from the hook after conn.Read, so the partition judged is the one the code actually saw",
    ]
    mc = {}
    with ThreadPoolExecutor(max_workers=2) as ex:
        futs = {c: ex.submit(tlc.run, ctx, SPEC, "MC_Framing", cfg="MC_%s.cfg" % c, workers=4, timeout=900, name="mc-" + c) for c in ("m6", "m9")}
        for c, f in futs.items():
            r = tlc.require_clean(f.result(), "MC_Framing/" + c)
            mc[c] = {"distinct": r.distinct, "generated": r.generated}
    exe = gobuild.build(ctx, "vdrive")
    nproc = 6
    per = ctx.pick(45, 700)

    def drive(i):
        out = os.path.join(ctx.work, "fr%d.ndjson" % i)
        args = [exe, "framing-trace", "-seed", str(ctx.seed * 100 + i), "-n", str(per), "-out", out, "-dk", str(i), "-dn", str(nproc)]
        if not ctx.quick:
            args.append("-big")
        rc, so, se = sh(args, timeout=3000)
        if rc != 0:
            raise Inconclusive("the framing driver failed (exit %s): %s" % (rc, se[-600:]))
        return out, [int(x) for x in so.split()[-8:]]

    with ThreadPoolExecutor(max_workers=nproc) as ex:
        outs = list(ex.map(drive, range(nproc)))
    hooks = [sum(o[1][k] for o in outs) for k in range(8)]
    if min(hooks[3:8]) == 0:
        raise Inconclusive("hook self-test: some transport hook never fired: %s" % hooks)
    cfg = open(os.path.join(VERIF, "spec", SPEC, "Trace.cfg")).read()
    alltr = []
    states = trans = 0
    dropped = 0
    for out, _ in outs:
        for t in split(out):
            if any(e["e"] == "HarnessTimeout" for e in t):
                dropped += 1        # the harness gave up waiting (machine load): the run carries no verdict
            else:
                alltr.append(t)
    if dropped * 10 > len(alltr):
        raise Inconclusive("%d of %d framing runs timed out in the harness" % (dropped, dropped + len(alltr)))

    def val(part):
        return tracecheck.validate(ctx, SPEC, "Trace_Framing", cfg, part[1], name="trace-%d" % part[0], reset={"e": "End"})

    k = 4
    parts = [alltr[i::k] for i in range(k)]
    with ThreadPoolExecutor(max_workers=k) as ex:
        results = list(ex.map(val, list(enumerate(parts))))
    rejected = []
    for (acc, fails, st), part in zip(results, parts):
        states += st["states"]
        trans += st["transitions"]
        for f in fails:
            t = part[f["index"]]
            side = t[0].get("side")
            ev = f["event"]
            # the connection of the run in which the model stops, and what had happened on it
            upto = t[:f["offset"] + 1]
            cur = max(i for i, e in enumerate(upto) if e["e"] == "Stream") if any(e["e"] == "Stream" for e in upto) else 0
            hd = t[cur]
            qual = []
            if hd.get("via") in ("proxy", "tars"):
                qual.append("via-" + hd["via"])         # framing asked of AdapterProxy.ParsePackage / tars.Protocol.ParsePackage
            if any(e["e"] == "Pause" for e in upto[cur:]):
                qual.append("after-read-timeout")       # the peer had been silent for longer than the receiver's ReadTimeout
            if hd.get("conn", 1) > 1:
                qual.append("after-reconnect")          # not the first connection of this receiver
            rejected.append((side, ev.get("e"), qual,
                             "%s receive loop (%s, read timeout %s ms, connection %s of the run, case %s): stream %s (maxlen %s) was not framed as sent; "
                             "first event the model cannot follow: %s; events before it: %s"
                             % (side, hd.get("via"), hd.get("rt"), hd.get("conn"), hd.get("kind"), hd.get("lens"), hd.get("maxlen"), json.dumps(ev),
                                json.dumps(f.get("prefix"))), {"trace": t, "offset": f["offset"]}))
    # a circumstance is named in the signature when every rejected run of that side shares it (the failure needs it, as far as this run
    # can tell): the signature of a failure that needs none stays C07:<side>:trace-rejected:<event>
    for side in ("server", "client"):
        mine = [r for r in rejected if r[0] == side]
        common = [q for q in ("via-proxy", "via-tars", "after-read-timeout", "after-reconnect") if mine and all(q in r[2] for r in mine)]
        for _, evn, _, what, replay in mine:
            ctx.violate(":".join(["C07", side, "trace-rejected", str(evn)] + common), what, replay)
    # binding self-test
    base = next((t for t in alltr if sum(1 for e in t if e["e"] == "Pkg") >= 2), None)
    if base is None:
        raise Inconclusive("no trace with two packets")
    pk = [i for i, e in enumerate(base) if e["e"] == "Pkg"]
    m1 = [dict(e) for e in base]
    m1[pk[1]]["len"] += 1
    m2 = [e for i, e in enumerate(base) if i != pk[0]]
    m3 = [dict(e) for e in base]
    m3[pk[0]]["uniform"] = False
    muts = [("pkg-len+1", m1), ("pkg-dropped", m2), ("payload-mixed", m3)]

    def directed(kind):
        return next((t for t in alltr if t[0].get("kind") == kind), None)

    # the partial packet is gone after a read timeout: the rest of it is taken for a header (a protocol error right after the pause)
    b = directed("pause-in-payload")
    if b:
        i = next(i for i, e in enumerate(b) if e["e"] == "Pause")
        muts.append(("error-after-read-timeout", b[:i + 1] + [{"e": "ParseError"}] + b[i + 1:]))
    # bytes of the dead connection in front of the new connection's stream: its first packet is not the one that was sent
    b = directed("cut-in-payload")
    if b:
        j = max(i for i, e in enumerate(b) if e["e"] == "Stream")
        i = next(i for i, e in enumerate(b) if i > j and e["e"] == "Pkg")
        m = [dict(e) for e in b]
        m[i]["len"], m[i]["uniform"] = 16, False
        muts.append(("carried-over-reconnect", m))
        muts.append(("cut-not-noticed", [e for e in b if e["e"] != "Cut"]))
    # an illegal prefix that is complete in the buffer is only reported when more bytes arrive
    b = directed("bad-prefix-alone-then-junk/0")
    if b:
        i = next(i for i, e in enumerate(b) if e["e"] == "ParseError")
        muts.append(("error-only-after-more-bytes", b[:i] + [{"e": "Read", "n": 6}] + b[i:]))
    # a body-less packet that ends the stream is never handed out
    b = directed("min-packet-last-alone")
    if b:
        i = max(i for i, e in enumerate(b) if e["e"] == "Pkg")
        muts.append(("min-packet-withheld", b[:i] + b[i + 1:]))
    if len(muts) < 6:
        raise Inconclusive("directed runs missing from the corpus: only %d of 8 corruptions could be built" % len(muts))
    selftest = {}
    with ThreadPoolExecutor(max_workers=4) as ex:
        verdicts = list(ex.map(lambda m: tracecheck.validate(ctx, SPEC, "Trace_Framing", cfg, [m[1]], name="selftest-" + m[0].replace("+", "p"),
                                                             reset={"e": "End"}), muts))
    for (name, t), (acc, fails, _) in zip(muts, verdicts):
        selftest[name] = "rejected" if fails else "ACCEPTED"
        if not fails:
            raise Inconclusive("binding self-test failed: corrupted trace (%s) accepted" % name)
    sides = {"server": 0, "client": 0}
    vias, kinds = {}, {}
    bad = conns = 0
    pauses = {"buffered": 0, "at-boundary": 0}
    cuts = {"inside-packet": 0, "at-boundary": 0}
    for t in alltr:
        sides[t[0]["side"]] += 1
        v = "%s/%s%s" % (t[0]["side"], t[0]["via"], "/read-timeout" if t[0]["rt"] else "")
        vias[v] = vias.get(v, 0) + 1
        kd = t[0]["kind"].split("/")[0]
        kinds[kd] = kinds.get(kd, 0) + 1
        bad += any(e["e"] == "ParseError" for e in t)
        for e in t:
            if e["e"] == "Stream":
                conns += 1
            elif e["e"] == "Pause":
                pauses["buffered" if e["buffered"] else "at-boundary"] += 1
            elif e["e"] == "Cut":
                cuts["inside-packet" if e["inside"] else "at-boundary"] += 1
    if min(pauses["buffered"], cuts["inside-packet"], vias.get("client/proxy", 0) + vias.get("client/proxy/read-timeout", 0)) == 0:
        raise Inconclusive("vacuous: no pause inside a packet / no connection cut inside a packet / no run through the servant proxy: %s %s %s" % (pauses, cuts, vias))
    ctx.coverage = {
        "states": sum(v["distinct"] for v in mc.values()) + states,
        "transitions": sum(v["generated"] for v in mc.values()) + trans,
        "traces_validated_against_impl": len(alltr),
        "samples": [alltr[0][:25]],
        "evaluations": len(alltr),
        "distinct_nontrivial": len({json.dumps(t) for t in alltr}),
        "rule": "runs of 1-3 successive connections of one receiver (server: framing by protocol.TarsRequest or by tars.Protocol.ParsePackage; client: "
                "transport.TarsClient with TarsRequest, or a real ServantProxy whose AdapterProxy.ParsePackage the transport asks), without / with a "
                "read timeout; per connection a stream of 1-5 packets with lengths around 4, the 4096-byte read buffer and the configured maximum "
                "(16 .. 10 MB), illegal lengths 0/1/3/max+1 followed by 6 or 0 bytes, cut into chunks (single bytes, inside headers, header | body, "
                "next to every boundary, all at once, packet aligned, random), with silences longer than the read timeout between chunks and "
                "connections cut at / next to / inside packets; plus a fixed list of directed boundary cases on each of the four receivers; "
                "distinct = distinct event traces",
        "model_checking": mc, "runs_dropped_for_harness_timeout": dropped, "by_side": sides, "by_receiver": vias, "by_case": kinds,
        "connections": conns, "pauses_longer_than_read_timeout": pauses, "connections_cut": cuts, "traces_with_protocol_error": bad,
        "hook_hits": dict(zip(["directed", "scenarios", "-", "tcp.recv.read", "tcp.handleConn", "client.recv.read", "client.recv.pkg", "parseError"], hooks)),
        "selftest_corrupted_traces": selftest, "exhaustive": False,
    }
