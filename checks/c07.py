"""C07 — stream framing is independent of TCP segmentation and bounds packet size.

Spec: spec/Framing (Framing.tla: positions model of stream/buffer/scan loop; MC over every sequence of <= 3
lengths from {0,3,4,5,6,7} with maxLen 6 and every partition into reads <= 5 bytes, and 4-packet streams around
maxLen 9 with coalescing reads; Trace_Framing).
Binding B1 with a directed peer: the harness feeds the real tcp server recv loop (transport.TarsServer) and the
real client recv loop (transport.TarsClient), both with the real protocol.TarsRequest as ParsePackage, with
scripted streams cut into scripted chunks (single bytes, inside every header, all at once, packet-aligned,
random), waiting via the read hook until each chunk was consumed.  Hooks (build tag verif) report every read
size, every packet handed to the protocol layer (length, payload id), parse errors; the harness observes that an
illegal length closes that connection and only that one.  TLC validates every trace against Framing.
"""
import json
import os
from concurrent.futures import ThreadPoolExecutor

from lib import gobuild, tlc, tracecheck
from lib.core import Inconclusive, VERIF, sh

SPEC = "Framing"


def split(path):
    traces, cur = [], []
    for line in open(path):
        e = json.loads(line)
        if e["e"] == "End":
            traces.append(cur)
            cur = []
        else:
            cur.append(e)
    return traces


def run(ctx):
    ctx.level = "model_checking"
    ctx.assumptions = [
        "a packet's identity is carried in every payload byte (index of the packet in its stream); header + uniform payload of the right length = the packet that was sent",
        "read sizes are taken from the hook after conn.Read, so the partition judged is the one the code actually saw",
    ]
    mc = {}
    with ThreadPoolExecutor(max_workers=2) as ex:
        futs = {c: ex.submit(tlc.run, ctx, SPEC, "MC_Framing", cfg="MC_%s.cfg" % c, workers=4, timeout=900, name="mc-" + c) for c in ("m6", "m9")}
        for c, f in futs.items():
            r = tlc.require_clean(f.result(), "MC_Framing/" + c)
            mc[c] = {"distinct": r.distinct, "generated": r.generated}
    exe = gobuild.build(ctx, "vdrive")
    nproc = 6
    per = ctx.pick(45, 700)

    def drive(i):
        out = os.path.join(ctx.work, "fr%d.ndjson" % i)
        args = [exe, "framing-trace", "-seed", str(ctx.seed * 100 + i), "-n", str(per), "-out", out]
        if not ctx.quick:
            args.append("-big")
        rc, so, se = sh(args, timeout=3000)
        return out, [int(x) for x in so.split()[-7:]]

    with ThreadPoolExecutor(max_workers=nproc) as ex:
        outs = list(ex.map(drive, range(nproc)))
    hooks = [sum(o[1][k] for o in outs) for k in range(7)]
    if min(hooks[2:7]) == 0:
        raise Inconclusive("hook self-test: some transport hook never fired: %s" % hooks)
    cfg = open(os.path.join(VERIF, "spec", SPEC, "Trace.cfg")).read()
    alltr = []
    states = trans = 0
    dropped = 0
    for out, _ in outs:
        for t in split(out):
            if any(e["e"] == "HarnessTimeout" for e in t):
                dropped += 1        # the harness gave up waiting (machine load): the run carries no verdict
            else:
                alltr.append(t)
    if dropped * 10 > len(alltr):
        raise Inconclusive("%d of %d framing runs timed out in the harness" % (dropped, dropped + len(alltr)))

    def val(part):
        return tracecheck.validate(ctx, SPEC, "Trace_Framing", cfg, part[1], name="trace-%d" % part[0], reset={"e": "End"})

    k = 8
    parts = [alltr[i::k] for i in range(k)]
    with ThreadPoolExecutor(max_workers=k) as ex:
        results = list(ex.map(val, list(enumerate(parts))))
    for (acc, fails, st), part in zip(results, parts):
        states += st["states"]
        trans += st["transitions"]
        for f in fails:
            t = part[f["index"]]
            side = t[0].get("side")
            ev = f["event"]
            ctx.violate("C07:%s:trace-rejected:%s" % (side, ev.get("e")),
                        "%s receive loop: stream %s (maxlen %s) was not framed as sent; first event the model cannot follow: %s"
                        % (side, t[0].get("lens"), t[0].get("maxlen"), json.dumps(ev)), {"trace": t, "offset": f["offset"]})
    # binding self-test
    base = next((t for t in alltr if sum(1 for e in t if e["e"] == "Pkg") >= 2), None)
    if base is None:
        raise Inconclusive("no trace with two packets")
    pk = [i for i, e in enumerate(base) if e["e"] == "Pkg"]
    m1 = [dict(e) for e in base]
    m1[pk[1]]["len"] += 1
    m2 = [e for i, e in enumerate(base) if i != pk[0]]
    m3 = [dict(e) for e in base]
    m3[pk[0]]["uniform"] = False
    selftest = {}
    for name, t in (("pkg-len+1", m1), ("pkg-dropped", m2), ("payload-mixed", m3)):
        acc, fails, _ = tracecheck.validate(ctx, SPEC, "Trace_Framing", cfg, [t], name="selftest-" + name, reset={"e": "End"})
        selftest[name] = "rejected" if fails else "ACCEPTED"
        if not fails:
            raise Inconclusive("binding self-test failed: corrupted trace (%s) accepted" % name)
    sides = {"server": 0, "client": 0}
    bad = 0
    for t in alltr:
        sides[t[0]["side"]] += 1
        bad += any(e["e"] == "ParseError" for e in t)
    ctx.coverage = {
        "states": sum(v["distinct"] for v in mc.values()) + states,
        "transitions": sum(v["generated"] for v in mc.values()) + trans,
        "traces_validated_against_impl": len(alltr),
        "samples": [alltr[0][:25]],
        "evaluations": len(alltr),
        "distinct_nontrivial": len({json.dumps(t) for t in alltr}),
        "rule": "streams of 1-5 packets with lengths around 4, the 4096-byte read buffer and the configured maximum (16 .. 10 MB), "
                "illegal lengths 0/1/3/max+1, cut into chunks (single bytes, inside headers, all at once, packet aligned, random); "
                "distinct = distinct event traces",
        "model_checking": mc, "runs_dropped_for_harness_timeout": dropped, "by_side": sides, "traces_with_protocol_error": bad,
        "hook_hits": dict(zip(["scenarios", "-", "tcp.recv.read", "tcp.handleConn", "client.recv.read", "client.recv.pkg", "parseError"], hooks)),
        "selftest_corrupted_traces": selftest, "exhaustive": False,
    }
