"""C20 — flush writes every log entry logged before it, once and in order.

Spec: spec/LogFlush (LogFlush.tla: queue, flusher with its two selects under Go select semantics, flush
handshake; MC exhaustive with 2 goroutines x 2 entries; Trace_LogFlush trace validation).
Binding B1 + directed schedules: a gate hook between the flusher's two selects (rogger.flush.between, build
tag verif) lets the harness hold the flusher in the window where both select cases can become ready; entries
are logged and the flush requested while it is held, then it is released.  Free-running scenarios with 1-3
logging goroutines are recorded as well.  Every scenario's event trace (LogCall/LogRet, Write from a recording
LogWriter, Between, FlushCall/FlushRet) must be a behaviour of LogFlush with FlushComplete / OnceEach /
OrderPerGoroutine holding in every state.
Window scenarios with a slow writer (driver -window N): the flusher is held at the gate having found the queue empty, 1-5
entries are logged, the flush is requested, the flusher is released -- both cases of the blocking select are ready.  The
recording writer emits Write at the hand-over and then stays inside Write (3 ms, or until FlushLogger has returned), so
that "handed to the writer before the flush returns" is decided by the order of the recorded events at the return of
FlushLogger (FlushRet before a Write of an entry of the snapshot = rejected), not by what the writer holds some time later.
Every 20th of them runs in a child process that leaves through the panic path.  MC_drain_SIGNALFIRST is the guard model of
that class (completion signalled before the final drain): it must violate FlushComplete.
"""
import json
import os

from lib import gobuild, tlc, tracecheck
from lib.core import Inconclusive, VERIF, sh

SPEC = "LogFlush"


def split(path):
    traces, cur = [], []
    for line in open(path):
        e = json.loads(line)
        if e["e"] == "Reset":
            traces.append(cur)
            cur = []
        else:
            cur.append(e)
    return traces


def run(ctx):
    ctx.level = "model_checking"
    ctx.assumptions = [
        "Go select/channel semantics as modelled in LogFlush.tla",
        "events are ordered by the recorder's lock; the Between event is an observation of the flusher's position, the silent steps are placed by TLC",
        "flush timeout raised to 10 s in the harness so that only the handshake, not the timer, ends FlushLogger",
    ]
    r = tlc.require_clean(tlc.run(ctx, SPEC, "MC_LogFlush", cfg="MC_drain_TRUE.cfg", workers=4, timeout=600, name="mc"), "MC_LogFlush")
    # the model of the unrepaired loop must exhibit the loss (guards against a vacuous FlushComplete)
    r0 = tlc.run(ctx, SPEC, "MC_LogFlush", cfg="MC_drain_FALSE.cfg", workers=4, timeout=600, name="mc-nodrain")
    if "FlushComplete" not in r0.inv_violated:
        raise Inconclusive("the model without the drain does not violate FlushComplete: the property would be vacuous")
    # the model of "completion signalled when the request is seen, the queue emptied afterwards" must violate FlushComplete
    # as well (and only that: every entry still reaches the writer once and in order)
    r1 = tlc.run(ctx, SPEC, "MC_LogFlush", cfg="MC_drain_SIGNALFIRST.cfg", workers=4, timeout=600, name="mc-signalfirst")
    if r1.inv_violated[:1] != ["FlushComplete"]:
        raise Inconclusive("the model that signals completion before the final drain does not violate FlushComplete (%s)" % r1.inv_violated)
    exe = gobuild.build(ctx, "vdrive")
    out = os.path.join(ctx.work, "lf.ndjson")
    n = ctx.pick(300, 6000)
    nwin = ctx.pick(260, 3000)
    rc, so, se = sh([exe, "logflush-trace", "-seed", str(ctx.seed), "-n", str(n), "-window", str(nwin), "-out", out], timeout=3000)
    nscen, hooks, leftover, win_runs, win_drained, win_child, win_child_drained, win_stalled = [int(x) for x in so.split()[-8:]]
    if hooks < nscen:
        raise Inconclusive("hook rogger.flush.between fired %d times in %d scenarios (hook self-test)" % (hooks, nscen))
    # the window scenarios are about the blocking select taking the flush case while entries are queued: Go chooses at
    # random between the two ready cases, so about half of the runs must have gone that way
    if win_drained < win_runs // 5 and not win_stalled:
        raise Inconclusive("the blocking select took the flush case with a non-empty queue in only %d of %d window scenarios "
                           "(the schedule is not being driven)" % (win_drained, win_runs))
    traces = split(out)
    cfg_t = open(os.path.join(VERIF, "spec", SPEC, "Trace.cfg")).read()
    cfg = cfg_t.replace("@K@", "10000")
    # shard the traces over several TLC processes, in groups of equal queue capacity (a constant of the specification)
    from concurrent.futures import ThreadPoolExecutor
    bycap = {}
    for t in traces:
        if not t or t[0]["e"] != "Config":
            raise Inconclusive("trace without its Config event")
        bycap.setdefault(t[0]["k"], []).append(t)
    parts, cfgs = [], []
    for cap, ts in sorted(bycap.items()):
        k = 6 if len(ts) > 60 else 2
        for i in range(k):
            if ts[i::k]:
                parts.append(ts[i::k])
                cfgs.append(cfg_t.replace("@K@", str(cap)))
    states = trans = 0
    with ThreadPoolExecutor(max_workers=8) as ex:
        results = list(ex.map(lambda ip: tracecheck.validate(ctx, SPEC, "Trace_LogFlush", cfgs[ip[0]], ip[1], name="trace-%d" % ip[0]),
                              list(enumerate(parts))))
    for (acc, fails, st), part in zip(results, parts):
        states += st["states"]
        trans += st["transitions"]
        for f in fails:
            ev = f["event"]
            t = part[f["index"]]
            kind = str(t[0].get("kind", ""))
            # the scenarios through the window with the slow writer get their own class: the flush request met a non-empty queue
            win = ":flush-request-meets-queued-entries" if kind.startswith("window") or kind == "panic-exit-window" else ""
            ctx.violate("C20:trace-rejected:%s%s%s" % (ev.get("e"), ":" + f["invariant"][0] if f["invariant"] else "", win),
                        "recorded logger run (%s) is not a behaviour of LogFlush at event %s (an entry logged before the flush request "
                        "had not been handed to the writer when FlushLogger returned, or order/duplication)" % (kind, json.dumps(ev)),
                        {"trace": t, "offset": f["offset"]})
    # binding self-test
    def covered_last_write(t):
        """The last written entry's logging call returned before a flush was requested whose return follows the write."""
        wi_ = [i for i, e in enumerate(t) if e["e"] == "Write"]
        if t[0]["k"] != 10000 or len(wi_) < 2:
            return False
        w = t[wi_[-1]]
        ret = next((i for i, e in enumerate(t) if e["e"] == "LogRet" and e.get("g") == w.get("g") and e.get("i") == w.get("i")), None)
        if ret is None:
            return False
        fc = next((i for i, e in enumerate(t) if e["e"] == "FlushCall" and i > ret), None)
        fr = next((i for i, e in enumerate(t) if e["e"] == "FlushRet" and fc is not None and i > fc), None)
        return fc is not None and fr is not None and wi_[-1] < fr

    base = next((t for t in traces if covered_last_write(t)), None)
    if base is None:
        raise Inconclusive("no trace with two writes, the last of them covered by a flush, for the self-test")
    selftest = {}
    wi = [i for i, e in enumerate(base) if e["e"] == "Write"]
    drop = [e for i, e in enumerate(base) if i != wi[-1]]           # last written entry never reaches the writer
    dup = base[:wi[0] + 1] + [base[wi[0]]] + base[wi[0] + 1:]       # written twice
    # a window scenario in which the last hand-over is recorded after the return of FlushLogger (completion signalled early)
    wbase = next((t for t in traces if t[0]["k"] == 10000 and str(t[0].get("kind", "")).startswith("window")
                  and sum(1 for e in t if e["e"] == "Write") >= 2 and t[-1]["e"] == "FlushRet"), None)
    if wbase is None:
        raise Inconclusive("no window scenario with two writes for the self-test")
    lw = max(i for i, e in enumerate(wbase) if e["e"] == "Write")
    late = wbase[:lw] + wbase[lw + 1:] + [wbase[lw]]
    for name, t in (("drop-write", drop), ("dup-write", dup), ("write-after-flush-returned", late)):
        acc, fails, _ = tracecheck.validate(ctx, SPEC, "Trace_LogFlush", cfg, [t], name="selftest-" + name)
        selftest[name] = "rejected" if fails else "ACCEPTED"
        if not fails:
            raise Inconclusive("binding self-test failed: corrupted trace (%s) accepted" % name)
    held = sum(1 for t in traces if any(e["e"] == "Between" for e in t))
    ctx.coverage = {
        "states": r.distinct + states, "transitions": r.generated + trans,
        "traces_validated_against_impl": len(traces),
        "samples": [traces[0][:30]],
        "evaluations": len(traces), "distinct_nontrivial": len({json.dumps(t) for t in traces}),
        "rule": "scenarios: (a) flusher held between its selects, entries logged, flush requested before/after the release; "
                "(b) 1-3 goroutines logging 1-6 entries concurrently with one flush; (c) queue capacity 2 (test export), flusher held, "
                "1-2 goroutines log more than the queue holds (calls block), release, flush; (d) every 25th scenario: a child process "
                "logs 5-40 entries to a slow file writer and panics under tars.CheckPanic -- the file must hold every entry, once, in "
                "order, when the process is gone; half of all scenarios log through Infof (text path, with and without prefix), half "
                "through WriteLog, a third through Trace; (e) every 25th scenario: the framework's size-rolled file writer across a re-open "
                "(the clock of the writer is moved on by 11 s between two flushes), the writes are what the file holds; the panic exits "
                "alternate between a panic under tars.CheckPanic and tars.Run panicking while it reads a configuration with an unusable "
                "TLS key; (f) window scenarios with a slow writer (the Write event is recorded at the hand-over, the writer then stays "
                "inside Write for 3 ms or until FlushLogger has returned): the flusher is held between its selects having found the "
                "queue empty (at its first poll, or after 1-2 entries went through), 1-5 entries are logged by one or two goroutines "
                "(sequentially or concurrently; with queue capacity 2 exactly two), the flush is requested, then the flusher is released: "
                "both cases of the blocking select are ready, Go picks one at random; window_scenarios.flush_case_taken counts the runs "
                "in which no arrival at the gate was seen between the release and the return of FlushLogger, i.e. the select took the "
                "flush case while the entries were queued; every 20th of them inside a child process that exits through the panic path "
                "(flusher held at the gate while 1-40 entries are logged, released 4 ms after the last logging call returned); "
                "distinct = distinct event sequences",
        "scenarios_by_queue_capacity": {str(k): len(v) for k, v in bycap.items()},
        "panic_exit_scenarios": sum(1 for t in traces if t[0].get("kind") == "panic-exit"),
        "window_scenarios": {"in_process": win_runs, "flush_case_taken": win_drained, "logging_call_blocked_while_held": win_stalled,
                             "child_process_panic_exit": win_child, "child_flush_case_taken": win_child_drained},
        "model_checking": {"drain": {"distinct": r.distinct, "generated": r.generated},
                           "no_drain_violates_FlushComplete": True,
                           "completion_signalled_before_final_drain_violates_FlushComplete": True},
        "hook_fired": hooks, "scenarios_with_entries_left_in_queue": leftover, "traces_with_between_event": held,
        "selftest_corrupted_traces": selftest, "exhaustive": False,
    }
