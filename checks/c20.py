"""C20 — flush writes every log entry logged before it, once and in order.

Spec: spec/LogFlush (LogFlush.tla: queue, flusher with its two selects under Go select semantics, flush
handshake; MC exhaustive with 2 goroutines x 2 entries; Trace_LogFlush trace validation).
Binding B1 + directed schedules: a gate hook between the flusher's two selects (rogger.flush.between, build
tag verif) lets the harness hold the flusher in the window where both select cases can become ready; entries
are logged and the flush requested while it is held, then it is released.  Free-running scenarios with 1-3
logging goroutines are recorded as well.  Every scenario's event trace (LogCall/LogRet, Write from a recording
LogWriter, Between, FlushCall/FlushRet) must be a behaviour of LogFlush with FlushComplete / OnceEach /
OrderPerGoroutine holding in every state.
"""
import json
import os

from lib import gobuild, tlc, tracecheck
from lib.core import Inconclusive, VERIF, sh

SPEC = "LogFlush"


def split(path):
    traces, cur = [], []
    for line in open(path):
        e = json.loads(line)
        if e["e"] == "Reset":
            traces.append(cur)
            cur = []
        else:
            cur.append(e)
    return traces


def run(ctx):
    ctx.level = "model_checking"
    ctx.assumptions = [
        "Go select/channel semantics as modelled in LogFlush.tla",
        "events are ordered by the recorder's lock; the Between event is an observation of the flusher's position, the silent steps are placed by TLC",
        "flush timeout raised to 10 s in the harness so that only the handshake, not the timer, ends FlushLogger",
    ]
    r = tlc.require_clean(tlc.run(ctx, SPEC, "MC_LogFlush", cfg="MC_drain_TRUE.cfg", workers=4, timeout=600, name="mc"), "MC_LogFlush")
    # the model of the unrepaired loop must exhibit the loss (guards against a vacuous FlushComplete)
    r0 = tlc.run(ctx, SPEC, "MC_LogFlush", cfg="MC_drain_FALSE.cfg", workers=4, timeout=600, name="mc-nodrain")
    if "FlushComplete" not in r0.inv_violated:
        raise Inconclusive("the model without the drain does not violate FlushComplete: the property would be vacuous")
    exe = gobuild.build(ctx, "vdrive")
    out = os.path.join(ctx.work, "lf.ndjson")
    n = ctx.pick(300, 6000)
    rc, so, se = sh([exe, "logflush-trace", "-seed", str(ctx.seed), "-n", str(n), "-out", out], timeout=3000)
    nscen, hooks, leftover = [int(x) for x in so.split()[-3:]]
    if hooks < nscen:
        raise Inconclusive("hook rogger.flush.between fired %d times in %d scenarios (hook self-test)" % (hooks, nscen))
    traces = split(out)
    cfg_t = open(os.path.join(VERIF, "spec", SPEC, "Trace.cfg")).read()
    cfg = cfg_t.replace("@K@", "10000")
    # shard the traces over several TLC processes, in groups of equal queue capacity (a constant of the specification)
    from concurrent.futures import ThreadPoolExecutor
    bycap = {}
    for t in traces:
        if not t or t[0]["e"] != "Config":
            raise Inconclusive("trace without its Config event")
        bycap.setdefault(t[0]["k"], []).append(t)
    parts, cfgs = [], []
    for cap, ts in sorted(bycap.items()):
        k = 6 if len(ts) > 60 else 2
        for i in range(k):
            if ts[i::k]:
                parts.append(ts[i::k])
                cfgs.append(cfg_t.replace("@K@", str(cap)))
    states = trans = 0
    with ThreadPoolExecutor(max_workers=8) as ex:
        results = list(ex.map(lambda ip: tracecheck.validate(ctx, SPEC, "Trace_LogFlush", cfgs[ip[0]], ip[1], name="trace-%d" % ip[0]),
                              list(enumerate(parts))))
    for (acc, fails, st), part in zip(results, parts):
        states += st["states"]
        trans += st["transitions"]
        for f in fails:
            ev = f["event"]
            t = part[f["index"]]
            windowed = sum(1 for e in t if e["e"] == "Between") > 0
            ctx.violate("C20:trace-rejected:%s%s" % (ev.get("e"), ":" + f["invariant"][0] if f["invariant"] else ""),
                        "recorded logger run is not a behaviour of LogFlush at event %s (an entry logged before the flush request "
                        "was not written when FlushLogger returned, or order/duplication)" % json.dumps(ev),
                        {"trace": t, "offset": f["offset"]})
    # binding self-test
    base = next((t for t in traces if t[0]["k"] == 10000 and sum(1 for e in t if e["e"] == "Write") >= 2 and any(e["e"] == "FlushRet" for e in t)), None)
    if base is None:
        raise Inconclusive("no trace with two writes for the self-test")
    selftest = {}
    wi = [i for i, e in enumerate(base) if e["e"] == "Write"]
    drop = [e for i, e in enumerate(base) if i != wi[-1]]           # last written entry never reaches the writer
    dup = base[:wi[0] + 1] + [base[wi[0]]] + base[wi[0] + 1:]       # written twice
    for name, t in (("drop-write", drop), ("dup-write", dup)):
        acc, fails, _ = tracecheck.validate(ctx, SPEC, "Trace_LogFlush", cfg, [t], name="selftest-" + name)
        selftest[name] = "rejected" if fails else "ACCEPTED"
        if not fails:
            raise Inconclusive("binding self-test failed: corrupted trace (%s) accepted" % name)
    held = sum(1 for t in traces if any(e["e"] == "Between" for e in t))
    ctx.coverage = {
        "states": r.distinct + states, "transitions": r.generated + trans,
        "traces_validated_against_impl": len(traces),
        "samples": [traces[0][:30]],
        "evaluations": len(traces), "distinct_nontrivial": len({json.dumps(t) for t in traces}),
        "rule": "scenarios: (a) flusher held between its selects, entries logged, flush requested before/after the release; "
                "(b) 1-3 goroutines logging 1-6 entries concurrently with one flush; (c) queue capacity 2 (test export), flusher held, "
                "1-2 goroutines log more than the queue holds (calls block), release, flush; (d) every 25th scenario: a child process "
                "logs 5-40 entries to a slow file writer and panics under tars.CheckPanic -- the file must hold every entry, once, in "
                "order, when the process is gone; half of all scenarios log through Infof (text path, with and without prefix), half "
                "through WriteLog, a third through Trace; (e) every 25th scenario: the framework's size-rolled file writer across a re-open "
                "(the clock of the writer is moved on by 11 s between two flushes), the writes are what the file holds; the panic exits "
                "alternate between a panic under tars.CheckPanic and tars.Run panicking while it reads a configuration with an unusable "
                "TLS key; distinct = distinct event sequences",
        "scenarios_by_queue_capacity": {str(k): len(v) for k, v in bycap.items()},
        "panic_exit_scenarios": sum(1 for t in traces if t[0].get("kind") == "panic-exit"),
        "model_checking": {"drain": {"distinct": r.distinct, "generated": r.generated},
                           "no_drain_violates_FlushComplete": True},
        "hook_fired": hooks, "scenarios_with_entries_left_in_queue": leftover, "traces_with_between_event": held,
        "selftest_corrupted_traces": selftest, "exhaustive": False,
    }
