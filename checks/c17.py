"""C17 — config parser: complete and exact, or an error; never silently partial; never panics.

Spec: spec/Conf — Conf.tla (reference semantics of the configuration document: domain stack + tree, typed
getters, concrete syntax; plus a declarative characterisation), MC_Conf (exhaustive small-scope check of the
reference against that characterisation and the laws of the statement), Gen_Conf (TLC enumerates / samples the
documents to run), Oracle_Conf (TLC judges what the real package answered).
Binding (B3 both ways): TLC-enumerated documents are rendered to text by harness/cmd/confdrive (blanks, line
ends, API chosen by seed), parsed by the real tars/util/conf and queried with every getter on every path; TLC
checks that the text is the rendering of the abstract lines and compares every answer with the reference.
Arbitrary byte strings are run for panics.  The binding is demonstrated on every run by corrupting records.
Lines without '=' (the statement does not say whether they define a key): both readings are admitted, one per
document (Conf!RunR); the shard "bare" writes the same key in every combination of the forms k=v / k= / k, in one
block and in a re-opened one, beside a bare key that is bound nowhere, each document in three layouts (seeded,
plain, inline <a>k</a>); answers that fit neither reading are a wrong result.
Lines with an empty key ('= v', '==', '=', blanks around the '='): written lines, hence entries of the line listing of
their domain (Conf!EmptyKeyLinesAreLinesOnly); the shard "emptykey" writes every form between, before and after
bindings, nested and in re-opened domains, in three layouts; a success that answers like the document without these
lines is silent-partial:line-with-empty-key-not-listed.  Whether "" is a key is not judged, only recorded.
Second observation: after the first pass of questions the driver does to every listing / map it received what a
caller may do to a value it owns (sort, rewrite, reuse, clear; also to the buffer it had handed to InitFromBytes)
and asks again; Oracle_Conf!Again requires the same answers (Conf.tla, "Sessions").
Second code area (tars/application.go): AppConf.tla is the reading table of parseServerConfig/parseClientConfig
(field, domain, key, getter, supplied default -- a constant, the host address, or another setting as configured);
Gen_AppConf enumerates documents in which every key is present (well-formed / malformed / empty value) or absent;
each is given to a fresh process as its server configuration and Oracle_AppConf compares the public configuration
structs with AppConf!Eval.
"""
import json
import os
import random
from concurrent.futures import ThreadPoolExecutor

from lib import gobuild, tlc
from lib.core import Inconclusive, REPO, VERIF, sh

SPEC = "Conf"
N1 = '{"app"}'
N2 = '{"app", "Obj.Adapter"}'
N3 = '{"app", "Obj.Adapter", "db-2"}'
K1 = '{"k1"}'
K2 = '{"k1", "k2"}'
TYPED = '{"0", "1", "12", "-7", "3000000000", "1.5", "true", "false", "abc", "", "x=y", "a=b=c", "a b", "a#b"}'


def shard(name, names, keys, vals, hos="HosNone", noise="NoiseNone", maxlen=6, depth=2, opens=2, kv=2, nnoise=0,
          tail=1, unclosed=2, mismatch=False, keep=None, simulate=None, must_contain=None, lays=("",)):
    return dict(name=name, NAMES=names, KEYS=keys, VALS=vals, HOS=hos, NOISE=noise, MAXLEN=maxlen, MAXDEPTH=depth,
                MAXOPEN=opens, MAXKV=kv, MAXNOISE=nnoise, MAXTAIL=tail, UNCLOSED=unclosed,
                MISMATCH="TRUE" if mismatch else "FALSE", keep=keep, simulate=simulate, must_contain=must_contain, lays=lays)


def shards(ctx):
    q = ctx.quick
    return [
        # nesting, re-opened domains, later duplicates across domains
        shard("nest", N2, K1, '{"1", "x=y"}', maxlen=7, depth=2, opens=3, kv=3, unclosed=3),
        shard("nest2", N2, K2, '{"1", "x=y"}', maxlen=7 if q else 8, depth=2, opens=3, kv=3, unclosed=2,
              keep=900 if q else None),
        shard("deep", N2, K1, '{"1"}', maxlen=8 if q else 10, depth=3 if q else 4, opens=4, kv=2, unclosed=2,
              keep=500 if q else 12000),
        # the line level: values with '=', blanks, empty; comments, blank lines, lines without '=' / without key
        shard("lines", N1, K2, '{"1", "x=y", "", "a b"}', noise="NoiseAll", maxlen=5 if q else 6, depth=1, opens=2, kv=3,
              nnoise=2, unclosed=2, keep=1800 if q else None),
        # one key written several times in the forms k=v / k= / k (bare), in one block and in a re-opened one, beside a
        # bare key bound nowhere; every document in three layouts
        shard("bare", N1, K1, '{"12", ""}', noise="NoiseBare", maxlen=7, depth=1, opens=2, kv=3, nnoise=3, unclosed=0,
              keep=450 if q else None, lays=("", "plain", "inline")),
        # lines whose key part is empty or blanks only ("=", "==", "= v", "= x=y", "=#c", ...) between bindings, nested and in
        # re-opened domains; every document in three layouts
        shard("emptykey", N2, K1, '{"1", ""}', noise="NoiseEmptyKey", maxlen=6, depth=2, opens=2, kv=2, nnoise=2, unclosed=3,
              keep=400 if q else None, lays=("", "plain", "inline")),
        # typed getters over the whole vocabulary
        shard("typed", N1, K2, TYPED, maxlen=4, depth=1, opens=1, kv=2, unclosed=1),
        # XML-hostile characters inside values and comments
        shard("hostile", N2, K2, '{"1"}', hos="HosAll", noise="NoiseSome", maxlen=5 if q else 6, depth=2, opens=2, kv=2,
              nnoise=1, tail=2, unclosed=3, keep=700 if q else None),
        # a close that matches nothing
        shard("mismatch", N2, K1, '{"1"}', maxlen=6, depth=2, opens=2, kv=2, unclosed=0, mismatch=True,
              keep=500 if q else None),
        # a line longer than 64 KiB
        shard("long", N1, K2, '{"@LONG", "1"}', maxlen=4, depth=1, opens=1, kv=2, unclosed=0, keep=5 if q else None,
              must_contain="@LONG"),
        # random longer documents (TLC simulation mode)
        shard("sim", N3, K2, '{"1", "x=y", "", "a b", "12", "a#b"}', noise="NoiseAllBare", maxlen=16, depth=3, opens=6, kv=7,
              nnoise=3, unclosed=3, simulate=ctx.pick(400, 8000), keep=ctx.pick(500, 15000)),
        shard("simbad", N3, K2, '{"1", "x=y"}', hos="HosTwo", noise="NoiseSome", maxlen=12, depth=3, opens=4, kv=4,
              nnoise=1, tail=2, unclosed=3, mismatch=True, simulate=ctx.pick(300, 4000), keep=ctx.pick(300, 4000)),
    ]


def cfg_text(sh_):
    s = open(os.path.join(VERIF, "spec", SPEC, "Gen.cfg.tmpl")).read()
    for k, v in sh_.items():
        if k.isupper():
            s = s.replace("@%s@" % k, str(v))
    return s


def generate(ctx, sh_):
    kw = {}
    if sh_["simulate"]:
        kw = dict(simulate="num=%d" % sh_["simulate"], depth=sh_["MAXLEN"] + 6, seed=ctx.seed)
    r = tlc.run(ctx, SPEC, "Gen_Conf", cfg="Gen_run.cfg", workers=1 if sh_["simulate"] else 2, timeout=800,
                extra_files={"Gen_run.cfg": cfg_text(sh_)}, name="gen-" + sh_["name"], **kw)
    if r.errors() or (not sh_["simulate"] and not r.success):
        raise Inconclusive("document enumeration failed (%s):\n%s" % (sh_["name"], "\n".join(r.out.splitlines()[-30:])))
    docs = {}
    for line in r.out.splitlines():
        if line.startswith('"['):
            try:
                d = json.loads(json.loads(line))
            except ValueError:
                continue
            if sh_["must_contain"] and not any(l["v"] == sh_["must_contain"] for l in d):
                continue
            docs[json.dumps(d, sort_keys=True)] = d
    docs = [docs[k] for k in sorted(docs)]
    total = len(docs)
    if sh_["keep"] is not None and total > sh_["keep"]:
        docs = random.Random(ctx.seed * 7919 + len(sh_["name"])).sample(docs, sh_["keep"])
    if not docs:
        raise Inconclusive("document enumeration produced nothing (%s)" % sh_["name"])
    return docs, {"enumerated": total, "run": len(docs), "tlc_states": r.distinct, "tlc_generated": r.generated,
                  "mode": "simulate" if sh_["simulate"] else "exhaustive"}


def oracle(ctx, lines, name):
    """lines: list of serialized records.  Returns (verdicts, TLCResult)."""
    r = tlc.run(ctx, SPEC, "Oracle_Conf", cfg="Oracle.cfg", workers=1, timeout=900,
                extra_files={"recs.ndjson": "".join(lines)}, name=name)
    vpath = os.path.join(r.workdir, "verdicts.ndjson")
    if not r.success or not os.path.exists(vpath):
        raise Inconclusive("oracle did not complete (%s):\n%s" % (name, "\n".join(r.out.splitlines()[-40:])))
    vs = [json.loads(l) for l in open(vpath) if l.strip()]
    if len(vs) != len(lines) or [v["i"] for v in vs] != list(range(1, len(lines) + 1)):
        raise Inconclusive("oracle judged %d of %d records (%s)" % (len(vs), len(lines), name))
    return vs, r


def generate_app(ctx, name, modeset, sparse, simulate=None):
    kw = {}
    if simulate:
        kw = dict(simulate="num=%d" % simulate, depth=200, seed=ctx.seed)
    cfg = open(os.path.join(VERIF, "spec", SPEC, "GenApp.cfg.tmpl")).read()
    cfg = cfg.replace("@SPARSE@", "TRUE" if sparse else "FALSE").replace("@MODESET@", modeset)
    r = tlc.run(ctx, SPEC, "Gen_AppConf", cfg="GenApp_run.cfg", workers=1 if simulate else 2, timeout=800,
                extra_files={"GenApp_run.cfg": cfg}, name="genapp-" + name, **kw)
    if r.errors() or (not simulate and not r.success):
        raise Inconclusive("application document enumeration failed (%s):\n%s" % (name, "\n".join(r.out.splitlines()[-30:])))
    docs = {}
    for line in r.out.splitlines():
        if line.startswith('"{'):
            try:
                d = json.loads(json.loads(line))
            except ValueError:
                continue
            docs.setdefault(d["m"], {})[json.dumps(d["d"], sort_keys=True)] = d["d"]
    if not docs:
        raise Inconclusive("application document enumeration produced nothing (%s)" % name)
    return {m: [v[k] for k in sorted(v)] for m, v in docs.items()}, r


def app_oracle(ctx, lines, name):
    r = tlc.run(ctx, SPEC, "Oracle_AppConf", cfg="Oracle.cfg", workers=1, timeout=900,
                extra_files={"apprecs.ndjson": "".join(lines)}, name=name)
    vpath = os.path.join(r.workdir, "appverdicts.ndjson")
    if not r.success or not os.path.exists(vpath):
        raise Inconclusive("application oracle did not complete (%s):\n%s" % (name, "\n".join(r.out.splitlines()[-40:])))
    vs = [json.loads(l) for l in open(vpath) if l.strip()]
    if len(vs) != len(lines) or [v["i"] for v in vs] != list(range(1, len(lines) + 1)):
        raise Inconclusive("application oracle judged %d of %d records (%s)" % (len(vs), len(lines), name))
    return vs, r


def app_report(ctx, v, rec):
    sig = v["sig"]
    if sig.startswith("harness:"):
        raise Inconclusive("the oracle refused an application record as malformed (%s): %s" % (sig, json.dumps(rec)[:800]))
    if sig == "app-config:panic":
        what = "a process given this well-formed document as its server configuration panicked while reading it: %s" % rec.get("err")
    elif sig == "app-config:wellformed-document-not-loaded":
        what = "a process given this well-formed document as its server configuration did not load it"
    else:
        what = ("the application's configuration does not represent the document: %s; expected %s, observed %s (host address %s)"
                % (", ".join(v["fs"]), v["exp"], v["obs"], rec.get("host")))
    ctx.violate("C17:" + sig, "%s; server configuration file %r" % (what, short(rec)), {"kind": "app", "record": rec, "verdict": v})


def app_selftest(ctx, accepted):
    """Corrupt recorded application observations; the oracle must flag exactly those."""
    cases = [("original", json.loads(accepted), "")]

    def variant(name, want, f):
        c = json.loads(accepted)
        f(c)
        cases.append((name, c, want))

    def node_from_host(c):                # what reading node_name before localip looks like
        c["obs"]["svr.NodeName"] = c["host"]

    def ctx_stale(c):
        c["obs"]["clt.context.node_name"] = ""

    def int_default(c):
        c["obs"]["svr.AcceptTimeout"] = "501" if c["obs"]["svr.AcceptTimeout"] != "501" else "500"

    def extra_adapter(c):
        c["adapters"].append({"name": "Z.Adapter", "Obj": "", "Protocol": "", "Threads": "0"})

    def other_text(c):
        c["text"] = c["text"].replace("=", " =", 1) + " "

    variant("node-name-from-host-address", "app-config:svr.NodeName:key-absent", node_from_host)
    variant("client-context-node-name", "app-config:clt.context.node_name:key-derived", ctx_stale)
    variant("integer-setting", None, int_default)
    variant("adapter-not-in-document", "app-config:Adapters", extra_adapter)
    variant("text-not-rendering", "harness:app-record-not-sane", other_text)
    vs, _ = app_oracle(ctx, [json.dumps(c[1]) + "\n" for c in cases], "app-selftest")
    out = {}
    for (nm, _, want), v in zip(cases, vs):
        ok = v["sig"] == want if want is not None else v["sig"].startswith("app-config:svr.AcceptTimeout:")
        out[nm] = ("accepted" if want == "" else "rejected as " + v["sig"]) if ok else "UNEXPECTED sig=%r want=%r" % (v["sig"], want)
        if not ok:
            raise Inconclusive("binding self-test failed: application case %s judged %r, expected %r" % (nm, v["sig"], want))
    return out


def app_selftest_target(rec):
    """A record in which localip is written (and is not the host address) while node_name is not."""
    ks = {l["k"]: l["v"] for l in rec["lines"] if l["t"] == "kv"}
    return (rec["class"] == "ok" and "node_name" not in ks and ks.get("localip") not in (None, rec["host"])
            and "=" in rec["text"])


WHAT = {
    "silent-partial:xml-token-error": "success returned for a document with '&', '<' or a control character inside a value or "
                                      "comment, but the rest of the document is missing (the XML tokenizer's error is discarded)",
    "silent-partial:mismatched-close": "success returned although a closing tag matches no open domain, and bindings written "
                                       "after it are retrievable nowhere",
    "silent-partial:line-with-empty-key-not-listed": "success returned, but the written lines whose key part is empty ('= v', '==', "
                                                     "'=', blanks before the '=') are missing from the line listing of their domain "
                                                     "while everything else is answered as written: part of the document was "
                                                     "dropped silently",
    "silent-partial:unclosed-domain": "success returned for a document that ends inside a domain, with part of it missing",
    "silent-partial:line-over-64KiB": "success returned for a well-formed document with a line longer than 64 KiB, but that line "
                                      "and the rest of its block are missing (the line scanner's error is discarded)",
    "spurious-error:wellformed-document": "a well-formed document was rejected with an error",
    "panic:arbitrary-bytes": "parsing (or querying after parsing) an arbitrary byte string panicked",
}


def short(rec):
    t = rec.get("text", "")
    return t if len(t) <= 300 else t[:140] + "...(%d bytes)..." % len(t) + t[-100:]


def selftest_target(rec):
    """Index of an entry fit for every corruption below (two judged keys, getter results, lines), or None."""
    if any(l["t"] in ("key", "nokey", "hos", "hcomment") for l in rec["lines"]) or len(rec["text"]) > 2000:
        return None
    for n, e in enumerate(rec["q"]):
        if len(e["keys"]) >= 2 and e["g"] and e["g"][0][0] in ("k1", "k2") and e["lines"] and "=" in rec["text"]:
            return n
    return None


def bare_target(rec):
    """A record whose document binds k1 with '=' to a non-empty value, writes k1 bare afterwards (last) and k3 bare."""
    ls = [l for l in rec["lines"] if l["t"] in ("kv", "key") and l["k"] == "k1"]
    return (len(ls) >= 2 and ls[-1]["t"] == "key" and any(l["t"] == "kv" and l["v"] == "12" for l in ls[:-1])
            and any(l["t"] == "key" and l["k"] == "k3" for l in rec["lines"])
            and len({l["k"] for l in rec["lines"] if l["t"] == "open"}) == 1)


def nokey_target(rec):
    """A record whose document has a line with an empty key and a binding in the same domain, parsed successfully."""
    return (rec["class"] == "ok" and not any(l["t"] in ("key", "hos", "hcomment") for l in rec["lines"])
            and any(any(x.startswith("=") for x in e["lines"]) and any(not x.startswith("=") for x in e["lines"])
                    for e in rec["q"]))


def selftest(ctx, accepted_doc, fuzz_line, bare_doc=None, nokey_doc=None):
    """Corrupt recorded observations; the oracle must flag exactly the corrupted records."""
    base = json.loads(accepted_doc)
    n = selftest_target(base)
    cases = [("original", base, "")]

    def variant(name, want, f):
        c = json.loads(accepted_doc)
        f(c, c["q"][n])
        cases.append((name, c, want))

    def set_int(c, e):
        e["g"][0][1][2] = "41"            # GetInt

    def set_str(c, e):
        e["g"][0][1][0] += "x"            # GetString

    def drop_line(c, e):
        e["lines"] = e["lines"][:-1]

    def drop_key(c, e):
        e["keys"] = e["keys"][1:]

    def other_text(c, e):                 # the text is no longer the rendering of the lines
        c["text"] = c["text"].replace("=", " =", 1) + " "

    variant("getter-result", "wrong-result:GetInt", set_int)
    variant("string-result", "wrong-result:GetString", set_str)
    variant("line-listing", "wrong-result:GetDomainLine", drop_line)
    variant("key-listing", "wrong-result:GetDomainKey", drop_key)
    def flip_class(c, e):
        c["class"], c["q"], c["q2"], c["shared"] = "err", [], [], []

    def again_lines(c, e):                # the second observation lists the lines in another order / other lines
        e2 = [x for x in c["q2"] if x["p"] == e["p"]][0]
        e2["lines"] = sorted(e2["lines"], reverse=True) if sorted(e2["lines"], reverse=True) != e2["lines"] else e2["lines"] + ["~"]

    def again_map(c, e):
        e2 = [x for x in c["q2"] if x["p"] == e["p"]][0]
        e2["map"][0][1] += "~"

    variant("class-ok-to-err", "spurious-error:wellformed-document", flip_class)
    variant("second-observation-lines", "result-aliases-configuration:GetDomainLine", again_lines)
    variant("second-observation-map", "result-aliases-configuration:GetMap", again_map)
    variant("text-not-rendering", "harness:record-not-sane", other_text)
    if bare_doc is not None:
        b0 = json.loads(bare_doc)
        cases.append(("bare-original", b0, ""))
        b1 = json.loads(bare_doc)           # the earlier k1=12 kept although k1 is written bare afterwards
        for q_ in (b1["q"], b1["q2"]):
            for e in q_:
                for g in e["g"]:
                    if g[0] == "k1":
                        g[1] = ["12", "12", "12", "12", "12", "true", "false", "12"]
                e["map"] = [[k, "12" if k == "k1" else x] for k, x in e["map"]]
        # (which getter names the signature depends on the reading the answers are closer to)
        cases.append(("bare-duplicate-keeps-earlier-value", b1, ("wrong-result:", ":document-with-key-only-lines")))
        b2 = json.loads(bare_doc)           # k3, written bare and bound nowhere, listed as a key but absent from the map
        for q_ in (b2["q"], b2["q2"]):
            for e in q_:
                e["map"] = [[k, x] for k, x in e["map"] if k != "k3"]
        cases.append(("bare-key-listed-but-not-in-map", b2, ("wrong-result:", ":document-with-key-only-lines")))
    if nokey_doc is not None:
        n0 = json.loads(nokey_doc)
        cases.append(("emptykey-original", n0, ""))
        n1 = json.loads(nokey_doc)          # every line with an empty key missing from the line listings (both passes)
        for q_ in (n1["q"], n1["q2"]):
            for e in q_:
                e["lines"] = [x for x in e["lines"] if not x.startswith("=")]
        cases.append(("emptykey-lines-not-listed", n1, "silent-partial:line-with-empty-key-not-listed"))
        n2 = json.loads(nokey_doc)          # only the first of them missing / one of them listed twice: not that class
        for q_ in (n2["q"], n2["q2"]):
            for e in q_:
                j = [i for i, x in enumerate(e["lines"]) if x.startswith("=")]
                if j:
                    e["lines"] = e["lines"][:j[0]] + [e["lines"][j[0]]] * 2 + e["lines"][j[0] + 1:]
        cases.append(("emptykey-line-listed-twice", n2, ("wrong-result:GetDomainLine", "")))
        n3 = json.loads(nokey_doc)          # a key "" in the key listing and the map: recorded, not judged
        for q_ in (n3["q"], n3["q2"]):
            for e in q_:
                if any(x.startswith("=") for x in e["lines"]):
                    e["keys"] = [""] + e["keys"]
                    e["map"] = [["", "zz"]] + e["map"]
        cases.append(("emptykey-listed-as-key-is-not-judged", n3, ""))
    if fuzz_line is not None:
        f0 = json.loads(fuzz_line)
        cases.append(("fuzz-original", f0, ""))
        f1 = dict(f0)
        f1["class"] = "panic"
        cases.append(("fuzz-class-panic", f1, "panic:arbitrary-bytes"))
    vs, _ = oracle(ctx, [json.dumps(c[1]) + "\n" for c in cases], "selftest")
    out = {}
    for (nm, _, want), v in zip(cases, vs):
        ok = v["sig"] == want if isinstance(want, str) else (v["sig"].startswith(want[0]) and v["sig"].endswith(want[1]))
        out[nm] = ("accepted" if want == "" else "rejected as " + v["sig"]) if ok else "UNEXPECTED sig=%r want=%r" % (v["sig"], want)
        if not ok:
            raise Inconclusive("binding self-test failed: case %s judged %r, expected %r" % (nm, v["sig"], want))
    return out


def replay(ctx, exe):
    rp = json.load(open(ctx.replay))["replay"]
    d = ctx.sub("replay")
    if rp.get("kind") == "app":
        rec = rp["record"]
        open(os.path.join(d, "doc.ndjson"), "w").write(json.dumps({"fixed": True, "lines": rec["lines"]}) + "\n")
        sh([exe, "app", "-in", os.path.join(d, "doc.ndjson"), "-out", os.path.join(d, "apprecs.ndjson"),
            "-dir", os.path.join(d, "children")], timeout=300)
        lines = open(os.path.join(d, "apprecs.ndjson")).readlines()
        vs, r = app_oracle(ctx, lines, "replay")
        for v, l in zip(vs, lines):
            if v["sig"]:
                app_report(ctx, v, json.loads(l))
        ctx.coverage = {"states": r.distinct, "transitions": r.generated, "traces_validated_against_impl": len(lines),
                        "samples": [{"replayed": vs}], "evaluations": len(lines), "distinct_nontrivial": len(lines),
                        "rule": "replay of one recorded input"}
        return
    if rp.get("kind") == "fuzz":
        open(os.path.join(d, "in.hex"), "w").write(rp["input_hex"] + "\n")
        sh([exe, "fuzz", "-hexin", os.path.join(d, "in.hex"), "-out", os.path.join(d, "recs.ndjson"),
            "-inputs", os.path.join(d, "out.hex")], timeout=120)
    else:
        rec = rp["record"]
        open(os.path.join(d, "doc.ndjson"), "w").write(json.dumps({"fixed": True, "api": rec["api"], "mut": rec.get("mut", ""), "lines": rec["lines"]}) + "\n")
        sh([exe, "docs", "-in", os.path.join(d, "doc.ndjson"), "-out", os.path.join(d, "recs.ndjson")], timeout=120)
    lines = open(os.path.join(d, "recs.ndjson")).readlines()
    vs, r = oracle(ctx, lines, "replay")
    for v, l in zip(vs, lines):
        if v["sig"]:
            report(ctx, v, json.loads(l), rp.get("input_hex"))
    ctx.coverage = {"states": r.distinct, "transitions": r.generated, "traces_validated_against_impl": len(lines),
                    "samples": [{"replayed": vs}], "evaluations": len(lines), "distinct_nontrivial": len(lines),
                    "rule": "replay of one recorded input"}


def report(ctx, v, rec, hexin=None):
    sig = v["sig"]
    if sig.startswith("harness:"):
        raise Inconclusive("the oracle refused a record as malformed (%s): %s" % (sig, json.dumps(rec)[:600]))
    what = WHAT.get(sig)
    if what is None and sig.startswith("wrong-result:"):
        what = "%s document parsed successfully but %s differ(s) from the reference" % (v.get("cls"), ", ".join(v.get("fs") or [sig[13:]]))
        if v.get("rd") == "neither":
            what += (" under either reading of its lines without '=' (such a line defines its key with the empty value, so that a "
                     "later bare duplicate wins over an earlier k=v / such a line defines nothing)")
    if what is None and sig.startswith("result-aliases-configuration:"):
        what = ("the configuration answered, the caller then changed the values it had received (%s), and the same questions "
                "now get different answers from %s: what a getter hands out is still part of the parsed tree"
                % (rec.get("mut"), ", ".join(v.get("fs") or [sig.split(":", 1)[1]])))
    if what is None:
        what = sig
    if rec.get("kind") == "fuzz":
        ctx.violate("C17:" + sig, "%s: %s (input %d bytes, generator %s)" % (what, rec.get("err"), rec.get("n", -1), rec.get("gen")),
                    {"kind": "fuzz", "input_hex": hexin, "record": rec})
    else:
        ctx.violate("C17:" + sig, "%s; Init via %s of %r -> %s %s; failing getters %s"
                    % (what, rec["api"], short(rec), rec["class"], rec.get("err", ""), v.get("fs")),
                    {"kind": "doc", "record": rec if len(rec.get("text", "")) < 5000 else
                     dict(rec, text="(long)", q="(omitted)"), "verdict": v})


def run(ctx):
    ctx.level = "model_checking"
    ctx.assumptions = [
        "documents of the verdict grammar: keys only inside domains; key names, sub-domain names disjoint; lines without '=' "
        "(key-only) are entries of the line listing; whether they define a key (with the empty value, taking part in 'later "
        "duplicates win') or not is not fixed by the statement: either reading is accepted, but one reading for all answers about "
        "one document; lines with an empty key ('= v', '==', '=', blanks before the '=') are written lines: entries of the line "
        "listing of their domain, each of them, in place; that the empty text is a key the statement does not say: an entry '' of a "
        "key listing / map and the answer to <domain><> are recorded (empty_key_observations), not judged",
        "typed getters are judged over a vocabulary with undisputed parses (decimal integers, true/false, plain decimals); "
        "\"0\"/\"1\" as booleans are not judged; int is 64-bit (amd64)",
        "the oracle trusts the driver only for the calls themselves: the parsed text must equal the TLA+ rendering of the abstract lines",
        "unclosed and XML-hostile documents: error, or success with the complete tree; a mismatched close accepted with "
        "nothing observably missing is recorded as an observation only",
        "a value handed out by a getter belongs to the caller: whatever the caller does to it, the configuration answers the same "
        "again; two callers finding each other's appended element in the spare capacity of 'their' listing is only an observation",
        "application settings: the supplied defaults are the documented constants of tars/setting.go, the host address "
        "(tools.GetLocalIP) for localip, and -- where the code passes another setting as the default (node_name <- localip, "
        "client context node_name <- node_name) -- that setting as configured by the same document; log size (unit grammar), "
        "TLS files, endpoint grammar (C18) and the per-adapter transport configuration (not reachable through the public API) "
        "are not judged; each document is read by a fresh process through tars.ServerConfigPath / GetServerConfig / GetClientConfig",
    ]
    # with the test-only export of patches/C17-hooks.diff in the tree the per-servant transport configuration is observed too
    hooked = os.path.exists(os.path.join(REPO, "tars", "verif_export_conf.go"))
    exe = gobuild.build(ctx, "confdrive", tags="verif,c17hooks" if hooked else "verif")
    ctx.log("driver built", "(with tars.VerifServerConfs)" if hooked else "")
    if ctx.replay:
        return replay(ctx, exe)

    pool = ThreadPoolExecutor(max_workers=3)      # at most 3 TLC processes here + 1 model-checking run
    mc_pool = ThreadPoolExecutor(max_workers=1)
    # ---- 1. the reference checked on its own, exhaustively in a small scope (runs in the background)
    mcs = ctx.pick(["small"], ["small", "deep", "wide"])
    mc_futs = {c: mc_pool.submit(tlc.run, ctx, SPEC, "MC_Conf", cfg="MC_%s.cfg" % c, workers=ctx.pick(3, 4), timeout=1500,
                              name="mc-" + c, heap="2g") for c in mcs}

    # ---- 2. TLC enumerates the documents
    shs = shards(ctx)
    app_jobs = [("exhaustive", "exhaustive", False, None), ("random", "all", True, ctx.pick(150, 3000))]
    if not ctx.quick:
        app_jobs.append(("pairs", "pairs", False, None))
    app_futs = [pool.submit(generate_app, ctx, *j) for j in app_jobs]
    gens = list(pool.map(lambda s: generate(ctx, s), shs))
    docs, corpus, origin, lays = [], {}, [], []
    gstates = gtrans = 0
    seen = set()
    for s, (ds, st) in zip(shs, gens):
        corpus[s["name"]] = st
        gstates += st["tlc_states"]
        gtrans += st["tlc_generated"]
        for d in ds:
            for lay in s["lays"]:
                key = lay + json.dumps(d, sort_keys=True)
                if key in seen:
                    continue
                seen.add(key)
                docs.append(d)
                origin.append(s["name"])
                lays.append(lay)
    ctx.log("documents", {k: v["run"] for k, v in corpus.items()}, "total", len(docs))
    ddir = ctx.sub("drive")
    dpath = os.path.join(ddir, "docs.ndjson")
    with open(dpath, "w") as f:
        for d, lay in zip(docs, lays):
            f.write(json.dumps({"lay": lay, "lines": d} if lay else d) + "\n")

    # ---- 2b. documents for the application's reading (every key present / absent)
    rnd = random.Random(ctx.seed * 104729 + 17)
    app_docs, app_origin, app_corpus = [], [], {}
    app_keep = {"single": None, "dep-nodename": None, "dep-set": None, "dep-adapters": None,
                "adapter": ctx.pick(60, None), "random": ctx.pick(150, 3000), "pairs": 6000}
    aseen = set()
    for fu in app_futs:
        by_mode, r = fu.result()
        gstates += r.distinct
        gtrans += r.generated
        for m in sorted(by_mode):
            ds = by_mode[m]
            total = len(ds)
            if app_keep.get(m) is not None and total > app_keep[m]:
                ds = rnd.sample(ds, app_keep[m])
            n = 0
            for d in ds:
                key = json.dumps(d, sort_keys=True)
                if key in aseen:
                    continue
                aseen.add(key)
                app_docs.append(d)
                app_origin.append(m)
                n += 1
            app_corpus[m] = {"enumerated": total, "run": n}
    for m in ("single", "dep-nodename", "dep-set", "dep-adapters", "adapter", "random"):
        if not app_corpus.get(m, {}).get("run"):
            raise Inconclusive("no application documents of class %s were enumerated" % m)
    ctx.log("application documents", {k: v["run"] for k, v in app_corpus.items()}, "total", len(app_docs))
    adpath, arpath = os.path.join(ddir, "appdocs.ndjson"), os.path.join(ddir, "apprecs.ndjson")
    with open(adpath, "w") as f:
        for d in app_docs:
            f.write(json.dumps(d) + "\n")

    # ---- 3. the real package parses and answers
    rpath = os.path.join(ddir, "recs.ndjson")
    app_fut = pool.submit(sh, [exe, "app", "-in", adpath, "-out", arpath, "-dir", os.path.join(ddir, "children"),
                               "-seed", str(ctx.seed), "-j", "6"], timeout=1500)
    sh([exe, "docs", "-in", dpath, "-out", rpath, "-seed", str(ctx.seed)], timeout=1200)
    nfuzz = ctx.pick(20000, 200000)
    fpath, hpath = os.path.join(ddir, "fuzz.ndjson"), os.path.join(ddir, "fuzz.hex")
    sh([exe, "fuzz", "-n", str(nfuzz), "-seed", str(ctx.seed), "-out", fpath, "-inputs", hpath,
        "-sample", os.path.join(REPO, "tars", "util", "conf", "MMGR.TestServer.conf"), "-texts", rpath], timeout=1200)
    rec_lines = open(rpath).readlines()
    fuzz_lines = open(fpath).readlines()
    ctx.log("real package driven: %d documents, %d arbitrary inputs" % (len(rec_lines), len(fuzz_lines)))
    if len(rec_lines) != len(docs) or len(fuzz_lines) != nfuzz:
        raise Inconclusive("driver wrote %d/%d records" % (len(rec_lines), len(fuzz_lines)))
    app_fut.result()
    app_lines = open(arpath).readlines()
    if len(app_lines) != len(app_docs):
        raise Inconclusive("driver wrote %d application records for %d documents" % (len(app_lines), len(app_docs)))
    ctx.log("application driven: %d processes, one per document" % len(app_lines))

    # ---- 4. TLC judges every record
    chunks = []
    big = [i for i, l in enumerate(rec_lines) if len(l) > 20000]
    small = [i for i, l in enumerate(rec_lines) if len(l) <= 20000]
    per = ctx.pick(1700, 5000)
    for a in range(0, len(small), per):
        chunks.append(("doc", small[a:a + per]))
    for a in range(0, len(big), 8):
        chunks.append(("doc", big[a:a + 8]))
    for a in range(0, nfuzz, 50000):
        chunks.append(("fuzz", list(range(a, min(nfuzz, a + 50000)))))

    def judge(ch):
        kind, idx = ch
        src = rec_lines if kind == "doc" else fuzz_lines
        vs, r = oracle(ctx, [src[i] for i in idx], "oracle-%s-%d" % (kind, idx[0]))
        return kind, idx, vs, r

    aper = 4000
    app_chunks = [list(range(a, min(len(app_lines), a + aper))) for a in range(0, len(app_lines), aper)]
    app_res = [pool.submit(app_oracle, ctx, [app_lines[i] for i in idx], "oracle-app-%d" % idx[0]) for idx in app_chunks]
    results = list(pool.map(judge, chunks))
    ctx.log("oracle done: %d chunks" % len(chunks))
    ostates = otrans = 0
    tally = {}
    observations = {}
    judged_full = 0
    nontrivial = set()
    accepted_doc = bare_doc = nokey_doc = None
    ek_obs = {}
    readings = {}
    samples = []
    hexes = None
    per_origin = {}
    for kind, idx, vs, r in results:
        ostates += r.distinct
        otrans += r.generated
        for i, v in zip(idx, vs):
            k = "%s/%s" % (v["cls"], v["impl"])
            tally[k] = tally.get(k, 0) + 1
            if v["obs"]:
                observations[v["obs"]] = observations.get(v["obs"], 0) + 1
            if kind == "doc":
                if v.get("rd"):
                    readings[v["rd"]] = readings.get(v["rd"], 0) + 1
                    if bare_doc is None and v["sig"] == "" and v["rd"] == "defines" and origin[i] == "bare" \
                            and bare_target(json.loads(rec_lines[i])):
                        bare_doc = rec_lines[i]
                if v.get("ek"):
                    ek_obs[v["ek"]] = ek_obs.get(v["ek"], 0) + 1
                    if nokey_doc is None and v["sig"] == "" and v["cls"] == "wellformed" and origin[i] == "emptykey" \
                            and nokey_target(json.loads(rec_lines[i])):
                        nokey_doc = rec_lines[i]
                po = per_origin.setdefault(origin[i], {"judged": 0, "rejected": 0})
                po["judged"] += 1
                if v["sig"]:
                    po["rejected"] += 1
                if v["impl"] == "ok" and v["cls"] != "mismatch":
                    judged_full += 1
                    rec = None
                    if any(l["t"] in ("kv", "hos") for l in docs[i]):
                        nontrivial.add(i)
                    if v["sig"] == "" and v["cls"] == "wellformed" and accepted_doc is None:
                        rec = json.loads(rec_lines[i])
                        if selftest_target(rec) is not None:
                            accepted_doc = rec_lines[i]
                            samples.append({"kind": "accepted record", "text": rec["text"], "api": rec["api"],
                                            "class": rec["class"], "observed": rec["q"], "verdict": v})
            if v["sig"]:
                if kind == "fuzz":
                    if hexes is None:
                        hexes = open(hpath).read().split("\n")
                    report(ctx, v, json.loads(fuzz_lines[i]), hexes[i])
                else:
                    rec = json.loads(rec_lines[i])
                    if len([s for s in samples if s.get("kind") == "rejected record"]) < 3:
                        samples.append({"kind": "rejected record", "text": short(rec), "api": rec["api"], "class": rec["class"],
                                        "verdict": v})
                    report(ctx, v, rec)
    # ---- 4b. the application records
    app_tally, app_by_mode, app_accepted, app_hosts = {}, {}, None, set()
    app_nontrivial = 0
    for idx, fu in zip(app_chunks, app_res):
        vs, r = fu.result()
        ostates += r.distinct
        otrans += r.generated
        for i, v in zip(idx, vs):
            k = "%s/%s" % (v["impl"], "rejected" if v["sig"] else "accepted")
            app_tally[k] = app_tally.get(k, 0) + 1
            bm = app_by_mode.setdefault(app_origin[i], {"judged": 0, "rejected": 0})
            bm["judged"] += 1
            if any(l["t"] == "kv" for l in app_docs[i]):
                app_nontrivial += 1
            if v["sig"]:
                bm["rejected"] += 1
                rec = json.loads(app_lines[i])
                if len([s_ for s_ in samples if s_.get("kind") == "rejected application record"]) < 2:
                    samples.append({"kind": "rejected application record", "text": short(rec), "verdict": v})
                app_report(ctx, v, rec)
            elif app_accepted is None or app_origin[i] == "dep-nodename":
                rec = json.loads(app_lines[i])
                app_hosts.add(rec.get("host"))
                if app_selftest_target(rec) and (app_accepted is None or app_origin[i] == "dep-nodename"):
                    app_accepted = app_lines[i]
    ctx.log("application oracle done", app_tally)
    if accepted_doc is None:
        # no well-formed document was accepted at all: the comparison is vacuous unless violations explain it
        if not ctx.violations:
            raise Inconclusive("no well-formed document was parsed and accepted: vacuous run")
    wf_ok = tally.get("wellformed/ok", 0)
    if wf_ok == 0 and not ctx.violations:
        raise Inconclusive("no well-formed document reached the getter comparison")

    if bare_doc is None and not ctx.violations:
        raise Inconclusive("no accepted document writes a key with '=' and bare afterwards beside a bare key bound nowhere: "
                           "the duplicate forms of the shard 'bare' were not exercised (readings %s)" % readings)

    if nokey_doc is None and not ctx.violations:
        raise Inconclusive("no accepted well-formed document has a line with an empty key beside a binding: the shard "
                           "'emptykey' was not exercised (%s)" % ek_obs)

    # ---- 5. binding self-test: corrupted records must be rejected, and only those
    st = st_fut = None
    if accepted_doc is not None:
        st_fut = pool.submit(selftest, ctx, accepted_doc, next((l for l in fuzz_lines if '"class":"panic"' not in l), None), bare_doc, nokey_doc)

    app_st = None
    if app_accepted is not None:
        app_st = app_selftest(ctx, app_accepted)
        a0 = json.loads(app_accepted)
        samples.append({"kind": "accepted application record", "text": a0["text"], "host": a0["host"],
                        "NodeName": a0["obs"]["svr.NodeName"], "LocalIP": a0["obs"]["svr.LocalIP"]})
    elif not ctx.violations:
        raise Inconclusive("no application document with a configured local ip other than the host address and no "
                           "node_name was accepted: the dependent default was not exercised")
    if st_fut is not None:
        st = st_fut.result()
    ctx.log("self-test done", st, app_st)
    # ---- 6. the model-only results
    mc = {}
    mstates = mtrans = 0
    for c, f in mc_futs.items():
        r = tlc.require_clean(f.result(), "MC_Conf/" + c)
        mc[c] = {"distinct": r.distinct, "generated": r.generated, "depth": r.depth}
        mstates += r.distinct
        mtrans += r.generated
    pool.shutdown()
    mc_pool.shutdown()

    fuzz_tally = {}
    for l in fuzz_lines:
        fr = json.loads(l)
        k = "%s/%s" % (fr["gen"], fr["class"])
        fuzz_tally[k] = fuzz_tally.get(k, 0) + 1
    ctx.coverage = {
        "states": mstates + gstates + ostates,
        "transitions": mtrans + gtrans + otrans,
        "traces_validated_against_impl": len(rec_lines) + len(fuzz_lines) + len(app_lines),
        "samples": samples[:6],
        "model_checking": mc,
        "mc_distinct_states": mstates,
        "mc_invariants": ["Agree (stack machine = declarative characterisation: tree, key/sub-domain/line listings, fault)",
                          "IgnoreNoise", "Merge (re-opened domains: right-biased union)", "Retrievable (later duplicate wins)",
                          "TypedOK", "FaultFrozen"],
        "corpus": corpus,
        "documents_run": len(rec_lines),
        "records_by_reference_class_and_outcome": tally,
        "documents_by_shard": per_origin,
        "documents_fully_compared": judged_full,
        "getter_paths_per_document": "every sequence over the document's domain names up to its number of opens (<= 4), "
                                     "8 scalar getters per key + GetDomain/GetDomainKey/GetDomainLine/GetMap per path",
        "observations_not_judged": observations,
        "key_only_line_readings": dict(readings, note="documents with lines without '=': the reading (such a line defines its key with "
                                                      "the empty value / is only a line) under which every answer agrees with the "
                                                      "reference; 'either' = the two readings coincide on the document; 'neither' is a "
                                                      "wrong result"),
        "empty_key_observations": dict(ek_obs, note="documents with lines whose key is empty ('= v', '==', '='), parsed successfully: "
                                                     "whether a key listing / map names a key '' and what <domain><> answers "
                                                     "(GetStringWithDef with default); recorded, not judged -- that every such line is "
                                                     "in the line listing of its domain IS judged"),
        "random_inputs": {"n": nfuzz, "by_generator_and_outcome": fuzz_tally},
        "selftest_corrupted_records": st,
        "second_observation": "every document parsed successfully is asked everything twice; in between the driver sorts / "
                              "rewrites / reuses / clears every listing and map it received (and the buffer or file it had "
                              "handed to the parser)",
        "application_documents": app_corpus,
        "application_records_by_outcome": app_tally,
        "application_documents_by_class": app_by_mode,
        "application_settings_compared_per_document": "53 settings of the server / client configuration + the adapters",
        "application_host_addresses": sorted(h for h in app_hosts if h),
        "application_transport_configuration_observed": hooked,
        "selftest_corrupted_application_records": app_st,
        "evaluations": len(rec_lines) + len(fuzz_lines) + len(app_lines),
        "distinct_nontrivial": len(nontrivial) + app_nontrivial,
        "rule": "documents enumerated by TLC from Gen_Conf (exhaustive bounded shards, seeded samples of the larger ones in the "
                "quick tier, simulation for long documents), rendered with seeded blanks/line ends; distinct_nontrivial = distinct "
                "documents with at least one binding whose every getter answer was compared with the reference",
        "exhaustive": False,
    }
