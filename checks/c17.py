"""C17 — config parser: complete and exact, or an error; never silently partial; never panics.

Spec: spec/Conf — Conf.tla (reference semantics of the configuration document: domain stack + tree, typed
getters, concrete syntax; plus a declarative characterisation), MC_Conf (exhaustive small-scope check of the
reference against that characterisation and the laws of the statement), Gen_Conf (TLC enumerates / samples the
documents to run), Oracle_Conf (TLC judges what the real package answered).
Binding (B3 both ways): TLC-enumerated documents are rendered to text by harness/cmd/confdrive (blanks, line
ends, API chosen by seed), parsed by the real tars/util/conf and queried with every getter on every path; TLC
checks that the text is the rendering of the abstract lines and compares every answer with the reference.
Arbitrary byte strings are run for panics.  The binding is demonstrated on every run by corrupting records.
"""
import json
import os
import random
from concurrent.futures import ThreadPoolExecutor

from lib import gobuild, tlc
from lib.core import Inconclusive, REPO, VERIF, sh

SPEC = "Conf"
N1 = '{"app"}'
N2 = '{"app", "Obj.Adapter"}'
N3 = '{"app", "Obj.Adapter", "db-2"}'
K1 = '{"k1"}'
K2 = '{"k1", "k2"}'
TYPED = '{"0", "1", "12", "-7", "3000000000", "1.5", "true", "false", "abc", "", "x=y", "a=b=c", "a b", "a#b"}'


def shard(name, names, keys, vals, hos="HosNone", noise="NoiseNone", maxlen=6, depth=2, opens=2, kv=2, nnoise=0,
          tail=1, unclosed=2, mismatch=False, keep=None, simulate=None, must_contain=None):
    return dict(name=name, NAMES=names, KEYS=keys, VALS=vals, HOS=hos, NOISE=noise, MAXLEN=maxlen, MAXDEPTH=depth,
                MAXOPEN=opens, MAXKV=kv, MAXNOISE=nnoise, MAXTAIL=tail, UNCLOSED=unclosed,
                MISMATCH="TRUE" if mismatch else "FALSE", keep=keep, simulate=simulate, must_contain=must_contain)


def shards(ctx):
    q = ctx.quick
    return [
        # nesting, re-opened domains, later duplicates across domains
        shard("nest", N2, K1, '{"1", "x=y"}', maxlen=7, depth=2, opens=3, kv=3, unclosed=3),
        shard("nest2", N2, K2, '{"1", "x=y"}', maxlen=7 if q else 8, depth=2, opens=3, kv=3, unclosed=2,
              keep=900 if q else None),
        shard("deep", N2, K1, '{"1"}', maxlen=8 if q else 10, depth=3 if q else 4, opens=4, kv=2, unclosed=2,
              keep=500 if q else 12000),
        # the line level: values with '=', blanks, empty; comments, blank lines, lines without '=' / without key
        shard("lines", N1, K2, '{"1", "x=y", "", "a b"}', noise="NoiseAll", maxlen=5 if q else 6, depth=1, opens=2, kv=3,
              nnoise=2, unclosed=2, keep=1800 if q else None),
        # typed getters over the whole vocabulary
        shard("typed", N1, K2, TYPED, maxlen=4, depth=1, opens=1, kv=2, unclosed=1),
        # XML-hostile characters inside values and comments
        shard("hostile", N2, K2, '{"1"}', hos="HosAll", noise="NoiseSome", maxlen=5 if q else 6, depth=2, opens=2, kv=2,
              nnoise=1, tail=2, unclosed=3, keep=700 if q else None),
        # a close that matches nothing
        shard("mismatch", N2, K1, '{"1"}', maxlen=6, depth=2, opens=2, kv=2, unclosed=0, mismatch=True,
              keep=500 if q else None),
        # a line longer than 64 KiB
        shard("long", N1, K2, '{"@LONG", "1"}', maxlen=4, depth=1, opens=1, kv=2, unclosed=0, keep=5 if q else None,
              must_contain="@LONG"),
        # random longer documents (TLC simulation mode)
        shard("sim", N3, K2, '{"1", "x=y", "", "a b", "12", "a#b"}', noise="NoiseAll", maxlen=16, depth=3, opens=6, kv=7,
              nnoise=3, unclosed=3, simulate=ctx.pick(400, 8000), keep=ctx.pick(500, 15000)),
        shard("simbad", N3, K2, '{"1", "x=y"}', hos="HosTwo", noise="NoiseSome", maxlen=12, depth=3, opens=4, kv=4,
              nnoise=1, tail=2, unclosed=3, mismatch=True, simulate=ctx.pick(300, 4000), keep=ctx.pick(300, 4000)),
    ]


def cfg_text(sh_):
    s = open(os.path.join(VERIF, "spec", SPEC, "Gen.cfg.tmpl")).read()
    for k, v in sh_.items():
        if k.isupper():
            s = s.replace("@%s@" % k, str(v))
    return s


def generate(ctx, sh_):
    kw = {}
    if sh_["simulate"]:
        kw = dict(simulate="num=%d" % sh_["simulate"], depth=sh_["MAXLEN"] + 6, seed=ctx.seed)
    r = tlc.run(ctx, SPEC, "Gen_Conf", cfg="Gen_run.cfg", workers=1 if sh_["simulate"] else 2, timeout=800,
                extra_files={"Gen_run.cfg": cfg_text(sh_)}, name="gen-" + sh_["name"], **kw)
    if r.errors() or (not sh_["simulate"] and not r.success):
        raise Inconclusive("document enumeration failed (%s):\n%s" % (sh_["name"], "\n".join(r.out.splitlines()[-30:])))
    docs = {}
    for line in r.out.splitlines():
        if line.startswith('"['):
            try:
                d = json.loads(json.loads(line))
            except ValueError:
                continue
            if sh_["must_contain"] and not any(l["v"] == sh_["must_contain"] for l in d):
                continue
            docs[json.dumps(d, sort_keys=True)] = d
    docs = [docs[k] for k in sorted(docs)]
    total = len(docs)
    if sh_["keep"] is not None and total > sh_["keep"]:
        docs = random.Random(ctx.seed * 7919 + len(sh_["name"])).sample(docs, sh_["keep"])
    if not docs:
        raise Inconclusive("document enumeration produced nothing (%s)" % sh_["name"])
    return docs, {"enumerated": total, "run": len(docs), "tlc_states": r.distinct, "tlc_generated": r.generated,
                  "mode": "simulate" if sh_["simulate"] else "exhaustive"}


def oracle(ctx, lines, name):
    """lines: list of serialized records.  Returns (verdicts, TLCResult)."""
    r = tlc.run(ctx, SPEC, "Oracle_Conf", cfg="Oracle.cfg", workers=1, timeout=900,
                extra_files={"recs.ndjson": "".join(lines)}, name=name)
    vpath = os.path.join(r.workdir, "verdicts.ndjson")
    if not r.success or not os.path.exists(vpath):
        raise Inconclusive("oracle did not complete (%s):\n%s" % (name, "\n".join(r.out.splitlines()[-40:])))
    vs = [json.loads(l) for l in open(vpath) if l.strip()]
    if len(vs) != len(lines) or [v["i"] for v in vs] != list(range(1, len(lines) + 1)):
        raise Inconclusive("oracle judged %d of %d records (%s)" % (len(vs), len(lines), name))
    return vs, r


WHAT = {
    "silent-partial:xml-token-error": "success returned for a document with '&', '<' or a control character inside a value or "
                                      "comment, but the rest of the document is missing (the XML tokenizer's error is discarded)",
    "silent-partial:mismatched-close": "success returned although a closing tag matches no open domain, and bindings written "
                                       "after it are retrievable nowhere",
    "silent-partial:unclosed-domain": "success returned for a document that ends inside a domain, with part of it missing",
    "silent-partial:line-over-64KiB": "success returned for a well-formed document with a line longer than 64 KiB, but that line "
                                      "and the rest of its block are missing (the line scanner's error is discarded)",
    "spurious-error:wellformed-document": "a well-formed document was rejected with an error",
    "panic:arbitrary-bytes": "parsing (or querying after parsing) an arbitrary byte string panicked",
}


def short(rec):
    t = rec.get("text", "")
    return t if len(t) <= 300 else t[:140] + "...(%d bytes)..." % len(t) + t[-100:]


def selftest_target(rec):
    """Index of an entry fit for every corruption below (two judged keys, getter results, lines), or None."""
    if any(l["t"] in ("key", "nokey", "hos", "hcomment") for l in rec["lines"]) or len(rec["text"]) > 2000:
        return None
    for n, e in enumerate(rec["q"]):
        if len(e["keys"]) >= 2 and e["g"] and e["g"][0][0] in ("k1", "k2") and e["lines"] and "=" in rec["text"]:
            return n
    return None


def selftest(ctx, accepted_doc, fuzz_line):
    """Corrupt recorded observations; the oracle must flag exactly the corrupted records."""
    base = json.loads(accepted_doc)
    n = selftest_target(base)
    cases = [("original", base, "")]

    def variant(name, want, f):
        c = json.loads(accepted_doc)
        f(c, c["q"][n])
        cases.append((name, c, want))

    def set_int(c, e):
        e["g"][0][1][2] = "41"            # GetInt

    def set_str(c, e):
        e["g"][0][1][0] += "x"            # GetString

    def drop_line(c, e):
        e["lines"] = e["lines"][:-1]

    def drop_key(c, e):
        e["keys"] = e["keys"][1:]

    def flip_class(c, e):
        c["class"], c["q"] = "err", []

    def other_text(c, e):                 # the text is no longer the rendering of the lines
        c["text"] = c["text"].replace("=", " =", 1) + " "

    variant("getter-result", "wrong-result:GetInt", set_int)
    variant("string-result", "wrong-result:GetString", set_str)
    variant("line-listing", "wrong-result:GetDomainLine", drop_line)
    variant("key-listing", "wrong-result:GetDomainKey", drop_key)
    variant("class-ok-to-err", "spurious-error:wellformed-document", flip_class)
    variant("text-not-rendering", "harness:record-not-sane", other_text)
    if fuzz_line is not None:
        f0 = json.loads(fuzz_line)
        cases.append(("fuzz-original", f0, ""))
        f1 = dict(f0)
        f1["class"] = "panic"
        cases.append(("fuzz-class-panic", f1, "panic:arbitrary-bytes"))
    vs, _ = oracle(ctx, [json.dumps(c[1]) + "\n" for c in cases], "selftest")
    out = {}
    for (nm, _, want), v in zip(cases, vs):
        ok = v["sig"] == want
        out[nm] = ("accepted" if want == "" else "rejected as " + v["sig"]) if ok else "UNEXPECTED sig=%r want=%r" % (v["sig"], want)
        if not ok:
            raise Inconclusive("binding self-test failed: case %s judged %r, expected %r" % (nm, v["sig"], want))
    return out


def replay(ctx, exe):
    rp = json.load(open(ctx.replay))["replay"]
    d = ctx.sub("replay")
    if rp.get("kind") == "fuzz":
        open(os.path.join(d, "in.hex"), "w").write(rp["input_hex"] + "\n")
        sh([exe, "fuzz", "-hexin", os.path.join(d, "in.hex"), "-out", os.path.join(d, "recs.ndjson"),
            "-inputs", os.path.join(d, "out.hex")], timeout=120)
    else:
        rec = rp["record"]
        open(os.path.join(d, "doc.ndjson"), "w").write(json.dumps({"fixed": True, "api": rec["api"], "lines": rec["lines"]}) + "\n")
        sh([exe, "docs", "-in", os.path.join(d, "doc.ndjson"), "-out", os.path.join(d, "recs.ndjson")], timeout=120)
    lines = open(os.path.join(d, "recs.ndjson")).readlines()
    vs, r = oracle(ctx, lines, "replay")
    for v, l in zip(vs, lines):
        report(ctx, v, json.loads(l), rp.get("input_hex"))
    ctx.coverage = {"states": r.distinct, "transitions": r.generated, "traces_validated_against_impl": len(lines),
                    "samples": [{"replayed": vs}], "evaluations": len(lines), "distinct_nontrivial": len(lines),
                    "rule": "replay of one recorded input"}


def report(ctx, v, rec, hexin=None):
    sig = v["sig"]
    if sig.startswith("harness:"):
        raise Inconclusive("the oracle refused a record as malformed (%s): %s" % (sig, json.dumps(rec)[:600]))
    what = WHAT.get(sig)
    if what is None and sig.startswith("wrong-result:"):
        what = "%s document parsed successfully but %s differ(s) from the reference" % (v.get("cls"), ", ".join(v.get("fs") or [sig[13:]]))
    if what is None:
        what = sig
    if rec.get("kind") == "fuzz":
        ctx.violate("C17:" + sig, "%s: %s (input %d bytes, generator %s)" % (what, rec.get("err"), rec.get("n", -1), rec.get("gen")),
                    {"kind": "fuzz", "input_hex": hexin, "record": rec})
    else:
        ctx.violate("C17:" + sig, "%s; Init via %s of %r -> %s %s; failing getters %s"
                    % (what, rec["api"], short(rec), rec["class"], rec.get("err", ""), v.get("fs")),
                    {"kind": "doc", "record": rec if len(rec.get("text", "")) < 5000 else
                     dict(rec, text="(long)", q="(omitted)"), "verdict": v})


def run(ctx):
    ctx.level = "model_checking"
    ctx.assumptions = [
        "documents of the verdict grammar: keys only inside domains; key names, sub-domain names disjoint; lines without '=' "
        "(key-only) and lines with an empty key are entries of the line listing but whether they define a key is not judged",
        "typed getters are judged over a vocabulary with undisputed parses (decimal integers, true/false, plain decimals); "
        "\"0\"/\"1\" as booleans are not judged; int is 64-bit (amd64)",
        "the oracle trusts the driver only for the calls themselves: the parsed text must equal the TLA+ rendering of the abstract lines",
        "unclosed and XML-hostile documents: error, or success with the complete tree; a mismatched close accepted with "
        "nothing observably missing is recorded as an observation only",
    ]
    exe = gobuild.build(ctx, "confdrive")
    ctx.log("driver built")
    if ctx.replay:
        return replay(ctx, exe)

    pool = ThreadPoolExecutor(max_workers=3)      # at most 3 TLC processes here + 1 model-checking run
    mc_pool = ThreadPoolExecutor(max_workers=1)
    # ---- 1. the reference checked on its own, exhaustively in a small scope (runs in the background)
    mcs = ctx.pick(["small"], ["small", "deep", "wide"])
    mc_futs = {c: mc_pool.submit(tlc.run, ctx, SPEC, "MC_Conf", cfg="MC_%s.cfg" % c, workers=ctx.pick(3, 4), timeout=1500,
                              name="mc-" + c, heap="2g") for c in mcs}

    # ---- 2. TLC enumerates the documents
    shs = shards(ctx)
    gens = list(pool.map(lambda s: generate(ctx, s), shs))
    docs, corpus, origin = [], {}, []
    gstates = gtrans = 0
    seen = set()
    for s, (ds, st) in zip(shs, gens):
        corpus[s["name"]] = st
        gstates += st["tlc_states"]
        gtrans += st["tlc_generated"]
        for d in ds:
            key = json.dumps(d, sort_keys=True)
            if key in seen:
                continue
            seen.add(key)
            docs.append(d)
            origin.append(s["name"])
    ctx.log("documents", {k: v["run"] for k, v in corpus.items()}, "total", len(docs))
    ddir = ctx.sub("drive")
    dpath = os.path.join(ddir, "docs.ndjson")
    with open(dpath, "w") as f:
        for d in docs:
            f.write(json.dumps(d) + "\n")

    # ---- 3. the real package parses and answers
    rpath = os.path.join(ddir, "recs.ndjson")
    sh([exe, "docs", "-in", dpath, "-out", rpath, "-seed", str(ctx.seed)], timeout=1200)
    nfuzz = ctx.pick(20000, 200000)
    fpath, hpath = os.path.join(ddir, "fuzz.ndjson"), os.path.join(ddir, "fuzz.hex")
    sh([exe, "fuzz", "-n", str(nfuzz), "-seed", str(ctx.seed), "-out", fpath, "-inputs", hpath,
        "-sample", os.path.join(REPO, "tars", "util", "conf", "MMGR.TestServer.conf"), "-texts", rpath], timeout=1200)
    rec_lines = open(rpath).readlines()
    fuzz_lines = open(fpath).readlines()
    ctx.log("real package driven: %d documents, %d arbitrary inputs" % (len(rec_lines), len(fuzz_lines)))
    if len(rec_lines) != len(docs) or len(fuzz_lines) != nfuzz:
        raise Inconclusive("driver wrote %d/%d records" % (len(rec_lines), len(fuzz_lines)))

    # ---- 4. TLC judges every record
    chunks = []
    big = [i for i, l in enumerate(rec_lines) if len(l) > 20000]
    small = [i for i, l in enumerate(rec_lines) if len(l) <= 20000]
    per = ctx.pick(1700, 5000)
    for a in range(0, len(small), per):
        chunks.append(("doc", small[a:a + per]))
    for a in range(0, len(big), 8):
        chunks.append(("doc", big[a:a + 8]))
    for a in range(0, nfuzz, 50000):
        chunks.append(("fuzz", list(range(a, min(nfuzz, a + 50000)))))

    def judge(ch):
        kind, idx = ch
        src = rec_lines if kind == "doc" else fuzz_lines
        vs, r = oracle(ctx, [src[i] for i in idx], "oracle-%s-%d" % (kind, idx[0]))
        return kind, idx, vs, r

    results = list(pool.map(judge, chunks))
    ctx.log("oracle done: %d chunks" % len(chunks))
    ostates = otrans = 0
    tally = {}
    observations = {}
    judged_full = 0
    nontrivial = set()
    accepted_doc = None
    samples = []
    hexes = None
    per_origin = {}
    for kind, idx, vs, r in results:
        ostates += r.distinct
        otrans += r.generated
        for i, v in zip(idx, vs):
            k = "%s/%s" % (v["cls"], v["impl"])
            tally[k] = tally.get(k, 0) + 1
            if v["obs"]:
                observations[v["obs"]] = observations.get(v["obs"], 0) + 1
            if kind == "doc":
                po = per_origin.setdefault(origin[i], {"judged": 0, "rejected": 0})
                po["judged"] += 1
                if v["sig"]:
                    po["rejected"] += 1
                if v["impl"] == "ok" and v["cls"] != "mismatch":
                    judged_full += 1
                    rec = None
                    if any(l["t"] in ("kv", "hos") for l in docs[i]):
                        nontrivial.add(i)
                    if v["sig"] == "" and v["cls"] == "wellformed" and accepted_doc is None:
                        rec = json.loads(rec_lines[i])
                        if selftest_target(rec) is not None:
                            accepted_doc = rec_lines[i]
                            samples.append({"kind": "accepted record", "text": rec["text"], "api": rec["api"],
                                            "class": rec["class"], "observed": rec["q"], "verdict": v})
            if v["sig"]:
                if kind == "fuzz":
                    if hexes is None:
                        hexes = open(hpath).read().split("\n")
                    report(ctx, v, json.loads(fuzz_lines[i]), hexes[i])
                else:
                    rec = json.loads(rec_lines[i])
                    if len([s for s in samples if s.get("kind") == "rejected record"]) < 3:
                        samples.append({"kind": "rejected record", "text": short(rec), "api": rec["api"], "class": rec["class"],
                                        "verdict": v})
                    report(ctx, v, rec)
    if accepted_doc is None:
        # no well-formed document was accepted at all: the comparison is vacuous unless violations explain it
        if not ctx.violations:
            raise Inconclusive("no well-formed document was parsed and accepted: vacuous run")
    wf_ok = tally.get("wellformed/ok", 0)
    if wf_ok == 0 and not ctx.violations:
        raise Inconclusive("no well-formed document reached the getter comparison")

    # ---- 5. binding self-test: corrupted records must be rejected, and only those
    st = None
    if accepted_doc is not None:
        st = selftest(ctx, accepted_doc, next((l for l in fuzz_lines if '"class":"panic"' not in l), None))

    ctx.log("self-test done", st)
    # ---- 6. the model-only results
    mc = {}
    mstates = mtrans = 0
    for c, f in mc_futs.items():
        r = tlc.require_clean(f.result(), "MC_Conf/" + c)
        mc[c] = {"distinct": r.distinct, "generated": r.generated, "depth": r.depth}
        mstates += r.distinct
        mtrans += r.generated
    pool.shutdown()
    mc_pool.shutdown()

    fuzz_tally = {}
    for l in fuzz_lines:
        fr = json.loads(l)
        k = "%s/%s" % (fr["gen"], fr["class"])
        fuzz_tally[k] = fuzz_tally.get(k, 0) + 1
    ctx.coverage = {
        "states": mstates + gstates + ostates,
        "transitions": mtrans + gtrans + otrans,
        "traces_validated_against_impl": len(rec_lines) + len(fuzz_lines),
        "samples": samples[:4],
        "model_checking": mc,
        "mc_distinct_states": mstates,
        "mc_invariants": ["Agree (stack machine = declarative characterisation: tree, key/sub-domain/line listings, fault)",
                          "IgnoreNoise", "Merge (re-opened domains: right-biased union)", "Retrievable (later duplicate wins)",
                          "TypedOK", "FaultFrozen"],
        "corpus": corpus,
        "documents_run": len(rec_lines),
        "records_by_reference_class_and_outcome": tally,
        "documents_by_shard": per_origin,
        "documents_fully_compared": judged_full,
        "getter_paths_per_document": "every sequence over the document's domain names up to its number of opens (<= 4), "
                                     "8 scalar getters per key + GetDomain/GetDomainKey/GetDomainLine/GetMap per path",
        "observations_not_judged": observations,
        "random_inputs": {"n": nfuzz, "by_generator_and_outcome": fuzz_tally},
        "selftest_corrupted_records": st,
        "evaluations": len(rec_lines) + len(fuzz_lines),
        "distinct_nontrivial": len(nontrivial),
        "rule": "documents enumerated by TLC from Gen_Conf (exhaustive bounded shards, seeded samples of the larger ones in the "
                "quick tier, simulation for long documents), rendered with seeded blanks/line ends; distinct_nontrivial = distinct "
                "documents with at least one binding whose every getter answer was compared with the reference",
        "exhaustive": False,
    }
