"""C12 — graceful shutdown answers every request already received.

Spec: spec/ServerShutdown (accept loop, per-connection recv loop, handlers direct or through the pool's
queue/dispatcher, Release handshake, Shutdown poller with CloseIdles and the close notification).
MC: 2 connections, 3-4 requests, no pool / pool 1 / pool 2: ReadImpliesAnswered, NoLateWrite, Notified,
ReturnsWhenDrained, and under fairness ReadGetsAnswered / ShutdownDrains; the variant that releases the pool as
soon as the accept loop exits must violate ReadGetsAnswered (non-vacuity).
Binding B1: a real transport.TarsServer (recording protocol with scripted handler durations, real
protocol.TarsRequest framing) is driven by scripted clients and shut down at varied moments; hooks report
read / invoked / written / connection closed / accept-loop exit / pool released; the clients report responses,
the close notification and the end of the stream.  TLC validates every run against the spec (any release
order is accepted; what is judged is that everything read is answered before the connection closes, that the
client was notified, and that Shutdown returned only when everything had drained or its context expired).
"""
import json
import os
from concurrent.futures import ThreadPoolExecutor

from lib import gobuild, tlc, tracecheck
from lib.core import Inconclusive, VERIF, sh

SPEC = "ServerShutdown"


def split(path):
    traces, cur = [], []
    for line in open(path):
        e = json.loads(line)
        if e["e"] == "End":
            traces.append(cur)
            cur = []
        else:
            cur.append(e)
    return traces


def run(ctx):
    ctx.level = "model_checking"
    ctx.assumptions = [
        "the pool is modelled by queue + dispatcher holding one job + running set + Release handshake (GPool.tla checks that design separately)",
        "handler durations (<= 400 ms, one in four runs has a single 2.7 s handler) are below the Shutdown context (6 s): an expired context means requests were stranded, not slow",
        "server runs with the framework defaults ReadTimeout = 0, AcceptTimeout = 500 ms; clients send nothing after Shutdown starts",
    ]
    mc = {}
    with ThreadPoolExecutor(max_workers=4) as ex:
        futs = {c: ex.submit(tlc.run, ctx, SPEC, "MC_ServerShutdown", cfg="MC_%s.cfg" % c, workers=4, timeout=900, name="mc-" + c)
                for c in ("nopool", "pool_late", "pool2_late", "pool_early")}
        for c, f in futs.items():
            r = f.result()
            if c == "pool_early":
                if "ReadGetsAnswered" not in r.out or "violated" not in r.out:
                    raise Inconclusive("the early-release model does not violate ReadGetsAnswered (vacuity guard)")
                continue
            tlc.require_clean(r, "MC_ServerShutdown/" + c)
            mc[c] = {"distinct": r.distinct, "generated": r.generated}
    exe = gobuild.build(ctx, "vdrive")
    configs = [(0, 3), (1, 3), (2, 3), (2, 1), (1, 1), (0, 3), (2, 3), (1, 3)]
    per = ctx.pick(5, 60)

    def drive(i):
        n, q = configs[i % len(configs)]
        out = os.path.join(ctx.work, "sd%d.ndjson" % i)
        rc, so, se = sh([exe, "shutdown-trace", "-seed", str(ctx.seed * 1000 + i), "-n", str(per), "-pool", str(n), "-q", str(q),
                         "-ctx", "6000", "-out", out] + (["-abort"] if i % len(configs) >= 5 else []), timeout=3400)
        return (n, q), out, [int(x) for x in so.split()[-7:]]

    with ThreadPoolExecutor(max_workers=len(configs)) as ex:
        outs = list(ex.map(drive, range(len(configs))))
    hits = [sum(o[2][k] for o in outs) for k in range(7)]
    if min(hits[1:]) == 0:
        raise Inconclusive("hook self-test: a tcp server hook never fired: %s" % hits)
    tmpl = open(os.path.join(VERIF, "spec", SPEC, "Trace.cfg.tmpl")).read()
    groups = {}
    for nq, out, _ in outs:
        groups.setdefault(nq, []).extend(split(out))

    def val(item):
        (n, q), traces = item
        return (n, q), traces, tracecheck.validate(ctx, SPEC, "Trace_ServerShutdown", tmpl.replace("@N@", str(n)).replace("@Q@", str(q)),
                                                   traces, name="trace-%d-%d" % (n, q), reset={"e": "End"})

    states = trans = ntr = 0
    expired = 0
    with ThreadPoolExecutor(max_workers=6) as ex:
        for (n, q), traces, (acc, fails, st) in ex.map(val, list(groups.items())):
            states += st["states"]
            trans += st["transitions"]
            ntr += len(traces)
            expired += sum(1 for t in traces for e in t if e["e"] == "ShutdownEnd" and e["expired"])
            for f in fails:
                t = traces[f["index"]]
                ev = f["event"]
                read = {e["r"] for e in t if e["e"] == "Read"}
                written = {e["r"] for e in t if e["e"] == "Written"}
                if ev.get("e") in ("End", "ShutdownEnd") and read - written:
                    sig = "C12:read-not-answered:%s" % ("pool" if n > 0 else "nopool")
                    what = ("requests %s were read but never answered (pool %d, queue %d); Shutdown %s"
                            % (sorted(read - written), n, q, [e for e in t if e["e"] == "ShutdownEnd"]))
                else:
                    sig = "C12:trace-rejected:%s:%s%s" % ("pool" if n > 0 else "nopool", ev.get("e"),
                                                          ":" + f["invariant"][0] if f["invariant"] else "")
                    what = "run is not a behaviour of ServerShutdown at event %s" % json.dumps(ev)
                ctx.violate(sig, what, {"n": n, "q": q, "trace": t, "offset": f["offset"]})
    # the Shutdown context (6 s) is longer than every handler (<= 2.7 s) plus the close ticks: a run whose context expired although
    # everything read was answered did not "return once all connections have drained" (one such run may be a loaded machine)
    late = [t for ts in groups.values() for t in ts
            if any(e["e"] == "ShutdownEnd" and e["expired"] for e in t)
            and {e["r"] for e in t if e["e"] == "Read"} <= ({e["r"] for e in t if e["e"] == "Written"} | {3, 6})]
    if len(late) >= 2:
        t = late[0]
        kind = "one-way-request" if any(e["e"] == "Read" and e["r"] in (3, 6) for e in t) else "all-answered"
        ctx.violate("C12:shutdown-ran-to-its-deadline:%s" % kind,
                    "in %d runs every request read was handled and answered, yet Shutdown only returned when its %d ms context expired "
                    "(connections never drained): %s" % (len(late), 6000, [e for e in t if e["e"] == "ShutdownEnd"]),
                    {"n": t[0]["n"], "q": t[0]["q"], "trace": t})
    # binding self-test on an accepted trace
    base = None
    for traces in groups.values():
        for t in traces:
            ws = [e for e in t if e["e"] == "Written"]
            if ws and any(e["e"] == "ConnClosed" and e["c"] == 2 - ws[-1]["r"] % 2 for e in t) and not any(e["e"] == "ClientAbort" for e in t):
                base = t
                break
        if base:
            break
    if base is None:
        raise Inconclusive("no trace suitable for the self-test")
    cfg0 = base[0]
    wi = [i for i, e in enumerate(base) if e["e"] == "Written"][-1]
    m1 = [e for i, e in enumerate(base) if i != wi and not (e["e"] == "RespRecv" and e["r"] == base[wi]["r"])]   # answer never written
    ci = [i for i, e in enumerate(base) if e["e"] == "ConnClosed"][0]
    m2 = [e for e in base if not (e["e"] == "CloseMsgRecv")]
    m2 = [e for e in m2]
    selftest = {}
    t_cfg = tmpl.replace("@N@", str(cfg0["n"])).replace("@Q@", str(cfg0["q"]))
    acc, fails, _ = tracecheck.validate(ctx, SPEC, "Trace_ServerShutdown", t_cfg, [m1], name="selftest-unanswered", reset={"e": "End"})
    selftest["response-never-written"] = "rejected" if fails else "ACCEPTED"
    if not fails:
        raise Inconclusive("binding self-test failed: a run with an unanswered request was accepted")
    # connection closed before the last response was written
    m3 = list(base)
    w = m3.pop(wi)
    ci = [i for i, e in enumerate(m3) if e["e"] == "ConnClosed" and e["c"] == (2 - w["r"] % 2)][0]
    m3.insert(ci + 1, w)
    acc, fails, _ = tracecheck.validate(ctx, SPEC, "Trace_ServerShutdown", t_cfg, [m3], name="selftest-latewrite", reset={"e": "End"})
    selftest["closed-before-written"] = "rejected" if fails else "ACCEPTED"
    if not fails:
        raise Inconclusive("binding self-test failed: close-before-write accepted")
    allt = [t for ts in groups.values() for t in ts]
    ctx.coverage = {
        "states": sum(v["distinct"] for v in mc.values()) + states,
        "transitions": sum(v["generated"] for v in mc.values()) + trans,
        "traces_validated_against_impl": ntr,
        "samples": [allt[0]],
        "evaluations": ntr, "distinct_nontrivial": len({json.dumps(t) for t in allt}),
        "rule": "runs: pool 0/1/2, queue 1/3, 1-2 connections, 0-6 requests with handler durations 0-400 ms, Shutdown 0-300 ms after the "
                "last request (in-flight, queued and idle mixes); distinct = distinct event traces",
        "model_checking": mc, "early_release_model_violates_ReadGetsAnswered": True,
        "runs_with_expired_context": expired,
        "hook_hits": dict(zip(["scenarios", "handleConn", "invoked", "written", "recv.closed", "accept.exit", "accept.released"], hits)),
        "selftest_corrupted_traces": selftest, "exhaustive": False,
    }
