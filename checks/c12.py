"""C12 — graceful shutdown answers every request already received.

Spec: spec/ServerShutdown (accept loop, per-connection recv loop, handlers direct or through the pool's
queue/dispatcher, Release handshake, Shutdown poller with CloseIdles and the close notification).
MC: 2 connections, 3-4 requests, two calls of Shutdown (overlapping or one after the other), no pool / pool 1 / pool 2:
ReadImpliesAnswered, NoLateWrite, Notified, ReturnsWhenDrained (every call), and under fairness ReadGetsAnswered / ShutdownDrains; the variant that releases the pool as
soon as the accept loop exits must violate ReadGetsAnswered (non-vacuity).
Binding B1: a real transport.TarsServer (recording protocol with scripted handler durations, real
protocol.TarsRequest framing) is driven by scripted clients and shut down at varied moments; hooks report
read / invoked / written / connection closed / accept-loop exit / pool released; the clients report responses,
the close notification and the end of the stream.  TLC validates every run against the spec (any release
order is accepted; what is judged is that everything read is answered before the connection closes, that the
client was notified, and that every call of Shutdown returned only when everything had drained or its own context expired).
Run kinds: base (1-2 connections, 0-6 requests, one call), twice (1-3 connections, a 1.2-2.7 s handler in flight, two or
three calls of Shutdown: overlapping / after a call whose short context expired / after a call that drained), mix (3-6
connections in different states at the moment of shutdown: silent from the start, silent for > 2 s after early traffic,
a 0.7-2.7 s handler in flight, recent short requests; one call or several).
"""
import json
import os
from concurrent.futures import ThreadPoolExecutor

from lib import gobuild, tlc, tracecheck
from lib.core import Inconclusive, VERIF, sh

SPEC = "ServerShutdown"


def split(path):
    traces, cur = [], []
    for line in open(path):
        e = json.loads(line)
        if e["e"] == "End":
            traces.append(cur)
            cur = []
        else:
            cur.append(e)
    return traces


CTX_MS = 6000      # the long Shutdown context


def oneway(t):
    return {e["r"] for e in t if e["e"] == "ReqSent" and e.get("ow")}


def calls(t):
    return sum(1 for e in t if e["e"] == "ShutdownStart")


def classify(n, q, t, f):
    """Signature and description of a rejected run (f: the failure reported by the trace validation)."""
    ev = f["event"]
    read = {e["r"] for e in t if e["e"] == "Read"} - oneway(t)
    written = {e["r"] for e in t if e["e"] == "Written"}
    if ev.get("e") in ("End", "ShutdownEnd") and read - written:
        sig = "C12:read-not-answered:%s" % ("pool" if n > 0 else "nopool")
        what = ("requests %s were read but never answered (pool %d, queue %d); Shutdown %s"
                % (sorted(read - written), n, q, [e for e in t if e["e"] == "ShutdownEnd"]))
    elif ev.get("e") == "ShutdownEnd" and not ev["expired"]:
        # the call returned with a live context although the model cannot have every connection closed at this point
        before = t[:f["offset"]]
        later = any(e["e"] == "ShutdownStart" and e["k"] != ev["k"] for e in
                    before[:[i for i, e in enumerate(before) if e["e"] == "ShutdownStart" and e["k"] == ev["k"]][0]])
        pending = sorted(({e["r"] for e in before if e["e"] == "Read"} - oneway(t)) - {e["r"] for e in before if e["e"] == "Written"})
        sig = "C12:returned-before-drained:%s:%s" % ("later-call" if later else "first-call", "pool" if n > 0 else "nopool")
        what = ("call %d of Shutdown returned after %d ms with %d ms of its context left while connections had not drained "
                "(%d connections; requests read and not yet answered at that moment: %s)"
                % (ev["k"], ev["ms"], ev["ctx"] - ev["ms"], t[0]["conns"], pending))
    else:
        sig = "C12:trace-rejected:%s:%s%s" % ("pool" if n > 0 else "nopool", ev.get("e"),
                                              ":" + f["invariant"][0] if f["invariant"] else "")
        what = "run is not a behaviour of ServerShutdown at event %s" % json.dumps(ev)
    return sig, what


def early_return(t, want):
    """An accepted run in which a call k (want(t, k)) of Shutdown returned with a live context after a response was written during the call:
    the same run with that return moved to right after the call began (None if the run has no such call)."""
    for i, e in enumerate(t):
        if e["e"] == "ShutdownStart" and want(t, e["k"]):
            j = [x for x in range(i, len(t)) if t[x]["e"] == "ShutdownEnd" and t[x]["k"] == e["k"]]
            if not j or t[j[0]]["expired"]:
                continue
            # a request (not one-way) read before the call began and answered only during the call
            pend = ({x["r"] for x in t[:i] if x["e"] == "Read"} - oneway(t)) - {x["r"] for x in t[:i] if x["e"] == "Written"}
            if not any(x["e"] == "Written" and x["r"] in pend for x in t[i:j[0]]):
                continue
            m = list(t)
            end = m.pop(j[0])
            m.insert(i + 1, end)
            return m
    return None


def run(ctx):
    ctx.level = "model_checking"
    ctx.assumptions = [
        "the pool is modelled by queue + dispatcher holding one job + running set + Release handshake (GPool.tla checks that design separately)",
        "handler durations (<= 400 ms; one in four base runs, every twice/mix run has one handler of 0.7-2.7 s) are below the long Shutdown context (6 s): "
        "an expired long context means requests were stranded, not slow; short contexts (300-900 ms) of additional calls are meant to expire",
        "server runs with the framework defaults ReadTimeout = 0, AcceptTimeout = 500 ms; one run in three sends one more request 200-300 ms after Shutdown began "
        "(before the poller's first round sends the close message), otherwise clients send nothing after Shutdown starts",
        "a client that saw the end of its stream without the notification is reported when a re-run of the same scenario (three are made) shows it again "
        "(in the code the order of the poller's first round and the recv loop's own exit is a matter of a 100 ms margin: on an overloaded machine it can flip)",
    ]
    exe = gobuild.build(ctx, "vdrive")
    ctx.log("driver built")
    # the model is checked while the real code is driven (the driver sleeps most of the time)
    mcex = ThreadPoolExecutor(max_workers=4)
    # two calls of Shutdown in every configuration (thorough); quick: two calls with pool 2 and, with 3 requests, without a pool; one call in the others
    one_call = ctx.pick(("nopool", "pool_late", "pool_early"), ())
    mccfg = {c: open(os.path.join(VERIF, "spec", SPEC, "MC_%s.cfg" % c)).read().replace("Calls <- K2", "Calls <- K1" if c in one_call else "Calls <- K2")
             for c in ("nopool", "pool_late", "pool2_late", "pool_early")}
    if ctx.quick:
        mccfg["nopool_twice"] = (open(os.path.join(VERIF, "spec", SPEC, "MC_nopool.cfg")).read()
                                 .replace("Reqs <- R4  ConnOf <- CO4", "Reqs <- R3  ConnOf <- CO3"))
        assert "R3" in mccfg["nopool_twice"] and "K2" in mccfg["nopool_twice"]
    mcfuts = {c: mcex.submit(tlc.run, ctx, SPEC, "MC_ServerShutdown", cfg="MCrun_%s.cfg" % c, extra_files={"MCrun_%s.cfg" % c: mccfg[c]},
                             workers=ctx.pick(2, 4), timeout=900, name="mc-" + c)
              for c in mccfg}
    per = ctx.pick(5, 60)
    # (pool, queue, kind, runs, extra flags)
    configs = [(n, q, "base", per, (["-abort"] if i >= 5 else []))
               for i, (n, q) in enumerate([(0, 3), (1, 3), (2, 3), (2, 1), (1, 1), (0, 3), (2, 3), (1, 3)])]
    configs += [(n, q, "twice", ctx.pick(3, 24), []) for n, q in [(0, 3), (2, 3), (1, 1)]]
    configs += [(n, q, "mix", ctx.pick(4, 30), []) for n, q in [(0, 3), (2, 3), (1, 3)] + ctx.pick([], [(0, 3), (2, 1)])]

    def drive(i):
        n, q, kind, runs, extra = configs[i]
        out = os.path.join(ctx.work, "sd%d.ndjson" % i)
        rc, so, se = sh([exe, "shutdown-trace", "-seed", str(ctx.seed * 1000 + i), "-n", str(runs), "-pool", str(n), "-q", str(q),
                         "-ctx", str(CTX_MS), "-kind", kind, "-out", out] + extra, timeout=3400)
        if rc != 0:
            raise Inconclusive("vdrive shutdown-trace failed (%s): %s" % (kind, se[-400:]))
        return (n, q), out, [int(x) for x in so.split()[-7:]], kind

    with ThreadPoolExecutor(max_workers=len(configs)) as ex:
        outs = list(ex.map(drive, range(len(configs))))
    ctx.log("real code driven: %d processes" % len(configs))
    mc = {}
    for c, f in mcfuts.items():
        r = f.result()
        if c == "pool_early":
            if "ReadGetsAnswered" not in r.out or "violated" not in r.out:
                raise Inconclusive("the early-release model does not violate ReadGetsAnswered (vacuity guard)")
            continue
        tlc.require_clean(r, "MC_ServerShutdown/" + c)
        mc[c] = {"distinct": r.distinct, "generated": r.generated, "calls_of_Shutdown": 1 if c in one_call else 2}
    mcex.shutdown()
    ctx.log("model checked")
    hits = [sum(o[2][k] for o in outs) for k in range(7)]
    if min(hits[1:]) == 0:
        raise Inconclusive("hook self-test: a tcp server hook never fired: %s" % hits)
    tmpl = open(os.path.join(VERIF, "spec", SPEC, "Trace.cfg.tmpl")).read()
    groups = {}
    kinds = {}
    for nq, out, _, kind in outs:
        ts = split(out)
        groups.setdefault(nq, []).extend(ts)
        kinds[kind] = kinds.get(kind, 0) + len(ts)

    def val(item):
        (n, q), traces = item
        return (n, q), traces, tracecheck.validate(ctx, SPEC, "Trace_ServerShutdown", tmpl.replace("@N@", str(n)).replace("@Q@", str(q)),
                                                   traces, name="trace-%d-%d" % (n, q), reset={"e": "End"})

    states = trans = ntr = 0
    expired = 0
    pending_timed = []
    with ThreadPoolExecutor(max_workers=6) as ex:
        for (n, q), traces, (acc, fails, st) in ex.map(val, list(groups.items())):
            states += st["states"]
            trans += st["transitions"]
            ntr += len(traces)
            expired += sum(1 for t in traces for e in t if e["e"] == "ShutdownEnd" and e["expired"] and e["ctx"] >= CTX_MS)
            for f in fails:
                t = traces[f["index"]]
                sig, what = classify(n, q, t, f)
                if ":PeerEOF" in sig or "NotifiedT" in sig or ":ReqSent" in sig:
                    pending_timed.append((sig, what, n, q, t, f))
                else:
                    ctx.violate(sig, what, {"n": n, "q": q, "trace": t, "offset": f["offset"]})
    # Whether a client sees the notification before the end of its stream depends, in the code as written, on the poller's first
    # round (500 ms after Shutdown began) coming before the recv loop's own way out (100 ms read deadline + 500 ms tick): on an
    # overloaded machine the order can flip; so can the order of a request sent 200-300 ms after Shutdown began and that first round.
    # Such a rejection is reported when one of three re-runs of the same scenario shows it again (up to three scenarios per signature
    # are tried: a defect that depends on the iteration order of the connection table shows in every other run only).
    unreproduced = []
    confirmed = set()
    tried = {}
    for sig, what, n, q, t, f in pending_timed:
        if sig in confirmed or tried.get(sig, 0) >= 3:
            continue
        tried[sig] = tried.get(sig, 0) + 1
        c0 = t[0]

        def again(i, c0=c0, n=n, q=q, sig=sig):
            out = os.path.join(ctx.work, "rerun-%d-%d-%d.ndjson" % (c0["dseed"], c0["sc"], i))
            rc, so, se = sh([exe, "shutdown-trace", "-seed", str(c0["dseed"]), "-n", str(c0["sc"] + 1), "-only", str(c0["sc"]), "-pool", str(n),
                             "-q", str(q), "-ctx", str(CTX_MS), "-kind", c0["kind"], "-out", out] + (["-abort"] if c0["abort"] else []), timeout=600)
            ts = split(out) if rc == 0 else []
            if len(ts) != 1:
                raise Inconclusive("re-run of scenario %s/%d failed: %s" % (c0["kind"], c0["sc"], se[-300:]))
            acc, fl, _ = tracecheck.validate(ctx, SPEC, "Trace_ServerShutdown", tmpl.replace("@N@", str(n)).replace("@Q@", str(q)), ts,
                                             name="rerun-%d" % i, reset={"e": "End"})
            return bool(fl) and classify(n, q, ts[0], fl[0])[0] == sig

        with ThreadPoolExecutor(max_workers=3) as ex:
            rep = sum(1 for ok in ex.map(again, range(3)) if ok)
        ctx.log("order-dependent rejection %s (scenario %s/%d): seen again in %d of 3 re-runs of the scenario" % (sig, c0["kind"], c0["sc"], rep))
        if rep >= 1:
            confirmed.add(sig)
            ctx.violate(sig, what + " (seen again in %d of 3 re-runs of the same scenario)" % rep, {"n": n, "q": q, "trace": t, "offset": f["offset"]})
        else:
            unreproduced.append({"signature": sig, "scenario": {k: c0[k] for k in ("kind", "dseed", "sc", "n", "q", "conns")}, "reproduced": 0, "of": 3,
                                 "event": f["event"], "shutdown": [e for e in t if e["e"] == "ShutdownEnd"]})
            ctx.notes.append("%s in scenario %s/%d (pool %d) was not seen again in 3 re-runs: not reported" % (sig, c0["kind"], c0["sc"], n))
    ctx.log("traces validated")
    # the Shutdown context (6 s) is longer than every handler (<= 2.7 s) plus the close ticks: a run whose context expired although
    # everything read was answered did not "return once all connections have drained" (one such run may be a loaded machine)
    late = [t for ts in groups.values() for t in ts
            if any(e["e"] == "ShutdownEnd" and e["expired"] and e["ctx"] >= CTX_MS for e in t)
            and {e["r"] for e in t if e["e"] == "Read"} <= ({e["r"] for e in t if e["e"] == "Written"} | oneway(t))]
    if len(late) >= 2:
        t = late[0]
        kind = "one-way-request" if any(e["e"] == "Read" and e["r"] in oneway(t) for e in t) else "all-answered"
        ctx.violate("C12:shutdown-ran-to-its-deadline:%s" % kind,
                    "in %d runs every request read was handled and answered, yet Shutdown only returned when its %d ms context expired "
                    "(connections never drained): %s" % (len(late), CTX_MS, [e for e in t if e["e"] == "ShutdownEnd"]),
                    {"n": t[0]["n"], "q": t[0]["q"], "trace": t})
    # "... or when its context expires, whichever is first": a call must not outlive its context (2 s of margin for a loaded machine)
    overdue = [(t, e) for ts in groups.values() for t in ts for e in t if e["e"] == "ShutdownEnd" and e["ms"] > e["ctx"] + 2000]
    if len(overdue) >= 2:
        t, e = overdue[0]
        ctx.violate("C12:shutdown-outlived-its-context", "in %d calls Shutdown returned long after its context had expired: %s" % (len(overdue), e),
                    {"n": t[0]["n"], "q": t[0]["q"], "trace": t})
    # binding self-test on an accepted trace
    base = None
    for traces in groups.values():
        for t in traces:
            ws = [e for e in t if e["e"] == "Written"]
            if ws and any(e["e"] == "ConnClosed" and e["c"] == ws[-1]["r"] // 10 for e in t) and not any(e["e"] == "ClientAbort" for e in t):
                base = t
                break
        if base:
            break
    if base is None:
        raise Inconclusive("no trace suitable for the self-test")
    cfg0 = base[0]
    wi = [i for i, e in enumerate(base) if e["e"] == "Written"][-1]
    m1 = [e for i, e in enumerate(base) if i != wi and not (e["e"] == "RespRecv" and e["r"] == base[wi]["r"])]   # answer never written
    selftest = {}
    t_cfg = tmpl.replace("@N@", str(cfg0["n"])).replace("@Q@", str(cfg0["q"]))
    acc, fails, _ = tracecheck.validate(ctx, SPEC, "Trace_ServerShutdown", t_cfg, [m1], name="selftest-unanswered", reset={"e": "End"})
    selftest["response-never-written"] = "rejected" if fails else "ACCEPTED"
    if not fails:
        raise Inconclusive("binding self-test failed: a run with an unanswered request was accepted")
    # connection closed before the last response was written
    m3 = list(base)
    w = m3.pop(wi)
    ci = [i for i, e in enumerate(m3) if e["e"] == "ConnClosed" and e["c"] == w["r"] // 10][0]
    m3.insert(ci + 1, w)
    acc, fails, _ = tracecheck.validate(ctx, SPEC, "Trace_ServerShutdown", t_cfg, [m3], name="selftest-latewrite", reset={"e": "End"})
    selftest["closed-before-written"] = "rejected" if fails else "ACCEPTED"
    if not fails:
        raise Inconclusive("binding self-test failed: close-before-write accepted")
    # a call of Shutdown that returns with a live context while a request is still being handled: (a) a later call (second or third,
    # overlapping or after an earlier call has returned), (b) the only call of a run with three or more connections in different states
    allt = [t for ts in groups.values() for t in ts]
    for label, want in (("later-call-returns-at-once", lambda t, k: k > 1),
                        ("returns-while-another-connection-is-busy", lambda t, k: k == 1 and t[0]["conns"] >= 3 and calls(t) == 1)):
        m = None
        for t in allt:
            m = early_return(t, want)
            if m:
                break
        if m is None:
            raise Inconclusive("no run suitable for the self-test %s (vacuous corpus)" % label)
        t_cfg = tmpl.replace("@N@", str(m[0]["n"])).replace("@Q@", str(m[0]["q"]))
        acc, fails, _ = tracecheck.validate(ctx, SPEC, "Trace_ServerShutdown", t_cfg, [m], name="selftest-early", reset={"e": "End"})
        selftest[label] = "rejected" if fails and fails[0]["event"].get("e") == "ShutdownEnd" else "ACCEPTED"
        if selftest[label] != "rejected":
            raise Inconclusive("binding self-test failed: %s accepted" % label)
    waited = sum(1 for t in allt for e in t if e["e"] == "ShutdownEnd" and not e["expired"] and early_return(t, lambda t_, k, k0=e["k"]: k == k0))
    ctx.coverage = {
        "states": sum(v["distinct"] for v in mc.values()) + states,
        "transitions": sum(v["generated"] for v in mc.values()) + trans,
        "traces_validated_against_impl": ntr,
        "samples": [allt[0]],
        "evaluations": ntr, "distinct_nontrivial": len({json.dumps(t) for t in allt}),
        "rule": "runs: pool 0/1/2, queue 1/3; base: 1-2 connections, 0-6 requests with handler durations 0-400 ms, Shutdown 0-300 ms after the "
                "last request (in-flight, queued and idle mixes); one run in three of every kind: one more request 200-300 ms after Shutdown began; twice: 1-3 connections, a 1.2-2.7 s handler in flight, 2-3 calls of Shutdown "
                "(overlapping, after an expired call, after a drained call; contexts 6 s or 300-900 ms); mix: 3-6 connections (silent, silent "
                "after early traffic, 0.7-2.7 s handler in flight, recent requests), 1-3 calls; distinct = distinct event traces",
        "runs_by_kind": kinds,
        "runs_with_a_request_sent_during_Shutdown": sum(1 for t in allt if any(e["e"] == "ReqSent" for e in t[[i for i, e in enumerate(t) if e["e"] == "ShutdownStart"][0]:])),
        "runs_with_3_or_more_connections": sum(1 for t in allt if t[0]["conns"] >= 3),
        "runs_with_several_calls_of_Shutdown": sum(1 for t in allt if calls(t) > 1),
        "calls_of_Shutdown": sum(calls(t) for t in allt),
        "calls_that_returned_on_drain_after_waiting_for_a_handler": waited,
        "calls_with_short_context_expired": sum(1 for t in allt for e in t if e["e"] == "ShutdownEnd" and e["expired"] and e["ctx"] < CTX_MS),
        "model_checking": mc, "early_release_model_violates_ReadGetsAnswered": True,
        "runs_with_expired_context": expired,
        "hook_hits": dict(zip(["scenarios", "handleConn", "invoked", "written", "recv.closed", "accept.exit", "accept.released"], hits)),
        "selftest_corrupted_traces": selftest, "exhaustive": False,
        "timing_dependent_rejections_not_reproduced": unreproduced,
    }
