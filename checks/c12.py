"""C12 — graceful shutdown answers every request already received.

Spec: spec/ServerShutdown (accept loop, per-connection recv loop, handlers direct or through the pool's
queue/dispatcher, Release handshake, Shutdown poller with CloseIdles and the close notification).
MC: 2 connections, 3-4 requests, two calls of Shutdown (overlapping or one after the other), no pool / pool 1 / pool 2:
ReadImpliesAnswered, NoLateWrite, Notified, ReturnsWhenDrained (every call), and under fairness ReadGetsAnswered / ShutdownDrains; the variant that releases the pool as
soon as the accept loop exits must violate ReadGetsAnswered (non-vacuity).  The response write is a step of its own (WriteBegin ... WriteEnd, any
number of steps of the other goroutines in between: a client reads when it pleases); numInvoke is released at WriteEnd; the variant that releases it
when invoke returns (EarlyDec) must violate ReadImpliesAnswered under a shutdown and NoLateWrite under an idle close alone (non-vacuity).  MC_idle: a
server with read and idle timeouts (a recv loop ends on a connection with nothing buffered and nothing outstanding, without any shutdown).
Binding B1: a real transport.TarsServer (recording protocol with scripted handler durations, real
protocol.TarsRequest framing) is driven by scripted clients and shut down at varied moments; hooks report
read / invoked / written / connection closed / accept-loop exit / pool released; the clients report responses,
the close notification and the end of the stream.  TLC validates every run against the spec (any release
order is accepted; what is judged is that everything read is answered before the connection closes, that the
client was notified, and that every call of Shutdown returned only when everything had drained or its own context expired).
Run kinds: base (1-2 connections, 0-6 requests, one call), twice (1-3 connections, a 1.2-2.7 s handler in flight, two or
three calls of Shutdown: overlapping / after a call whose short context expired / after a call that drained), mix (3-6
connections in different states at the moment of shutdown: silent from the start, silent for > 2 s after early traffic,
a 0.7-2.7 s handler in flight, recent short requests; one call or several), slow (1-2 connections; 1-3 requests whose responses of 1-16 MiB
do not fit into the socket buffers, to a client with a 64 KiB receive buffer that starts reading 1.2-3.6 s after Shutdown was called: the handlers are
blocked in conn.Write, or wait behind the one that is, while the poller and the recv loop's deferred close look at numInvoke; every third run: a first
call with a 500 ms context, which must return when that context expires), slowidle (the same on a server with ReadTimeout 1 s / IdleTimeout 0: the recv
loop's idle close looks at numInvoke at every read timeout; Shutdown during the write, or after the connection was closed as idle).  The client reports a
response only when it is complete (RespRecv), a stream that ends inside a response as RespCut (never accepted); at the end of its stream (PeerEOF) the
complete response of every request read from the connection must have arrived.
"""
import json
import os
from concurrent.futures import ThreadPoolExecutor

from lib import gobuild, tlc, tracecheck
from lib.core import Inconclusive, VERIF, sh

SPEC = "ServerShutdown"


def split(path):
    traces, cur = [], []
    for line in open(path):
        e = json.loads(line)
        if e["e"] == "End":
            traces.append(cur)
            cur = []
        else:
            cur.append(e)
    return traces


CTX_MS = 6000      # the long Shutdown context


def oneway(t):
    return {e["r"] for e in t if e["e"] == "ReqSent" and e.get("ow")}


def calls(t):
    return sum(1 for e in t if e["e"] == "ShutdownStart")


def classify(n, q, t, f):
    """Signature and description of a rejected run (f: the failure reported by the trace validation)."""
    ev = f["event"]
    read = {e["r"] for e in t if e["e"] == "Read"} - oneway(t)
    written = {e["r"] for e in t if e["e"] == "Written"}
    before = t[:f["offset"]]
    c = ev.get("c")
    # requests of the connection concerned whose handler had returned from invoke and had not finished writing the response
    inwrite = sorted(({e["r"] for e in before if e["e"] == "Invoked"} - {e["r"] for e in before if e["e"] == "Written"} - oneway(t))
                     & {r for r in read if r // 10 == c})
    if ev.get("e") == "RespCut" and not inwrite and ev["r"] in read:
        # the failed write has been reported (hook after conn.Write) before the client came to read what had got through:
        # judge the moment the connection was closed, or, failing a report of that, the moment the write ended
        inwrite = [ev["r"]]
        cl = [i for i, e in enumerate(before) if (e["e"] == "ConnClosed" and e["c"] == c) or (e["e"] == "Written" and e["r"] == ev["r"])]
        before = t[:cl[0]] if cl else before
    if ev.get("e") in ("ConnClosed", "PeerEOF", "RespCut") and inwrite:
        phase = "shutdown" if any(e["e"] == "ShutdownStart" for e in before) else "idle-close"
        sizes = {e["r"]: e.get("size", 12) for e in t if e["e"] == "ReqSent"}
        cut = [e for e in t if e["e"] == "RespCut" and e["c"] == c]
        sig = "C12:closed-under-response-write:%s:%s" % (phase, "pool" if n > 0 else "nopool")
        what = ("connection %d was closed (%s; event %s) while the handlers of requests %s, read from it, had returned from invoke and were still "
                "writing their responses (%s bytes) to a client that reads slowly: the in-flight counter no longer covered the write%s (pool %d, queue %d)"
                % (c, "during a graceful shutdown" if phase == "shutdown" else "as idle, before the shutdown", ev.get("e"), inwrite,
                   [sizes.get(r) for r in inwrite],
                   "; the client got %d of %d bytes of the response of request %d" % (cut[0]["got"], cut[0]["want"], cut[0]["r"]) if cut else "", n, q))
        before = t[:f["offset"]]
    elif ev.get("e") in ("End", "ShutdownEnd") and read - written:
        sig = "C12:read-not-answered:%s" % ("pool" if n > 0 else "nopool")
        what = ("requests %s were read but never answered (pool %d, queue %d); Shutdown %s"
                % (sorted(read - written), n, q, [e for e in t if e["e"] == "ShutdownEnd"]))
    elif ev.get("e") == "ShutdownEnd" and not ev["expired"]:
        # the call returned with a live context although the model cannot have every connection closed at this point
        later = any(e["e"] == "ShutdownStart" and e["k"] != ev["k"] for e in
                    before[:[i for i, e in enumerate(before) if e["e"] == "ShutdownStart" and e["k"] == ev["k"]][0]])
        pending = sorted(({e["r"] for e in before if e["e"] == "Read"} - oneway(t)) - {e["r"] for e in before if e["e"] == "Written"})
        sig = "C12:returned-before-drained:%s:%s" % ("later-call" if later else "first-call", "pool" if n > 0 else "nopool")
        what = ("call %d of Shutdown returned after %d ms with %d ms of its context left while connections had not drained "
                "(%d connections; requests read and not yet answered at that moment: %s)"
                % (ev["k"], ev["ms"], ev["ctx"] - ev["ms"], t[0]["conns"], pending))
    else:
        sig = "C12:trace-rejected:%s:%s%s" % ("pool" if n > 0 else "nopool", ev.get("e"),
                                              ":" + f["invariant"][0] if f["invariant"] else "")
        what = "run is not a behaviour of ServerShutdown at event %s" % json.dumps(ev)
    return sig, what


def early_return(t, want):
    """An accepted run in which a call k (want(t, k)) of Shutdown returned with a live context after a response was written during the call:
    the same run with that return moved to right after the call began (None if the run has no such call)."""
    for i, e in enumerate(t):
        if e["e"] == "ShutdownStart" and want(t, e["k"]):
            j = [x for x in range(i, len(t)) if t[x]["e"] == "ShutdownEnd" and t[x]["k"] == e["k"]]
            if not j or t[j[0]]["expired"]:
                continue
            # a request (not one-way) read before the call began and answered only during the call
            pend = ({x["r"] for x in t[:i] if x["e"] == "Read"} - oneway(t)) - {x["r"] for x in t[:i] if x["e"] == "Written"}
            if not any(x["e"] == "Written" and x["r"] in pend for x in t[i:j[0]]):
                continue
            m = list(t)
            end = m.pop(j[0])
            m.insert(i + 1, end)
            return m
    return None


def tcfg(tmpl, key):
    """Trace.cfg for a group of runs: key = (pool, queue, idle) — idle: the server runs with a read timeout and an idle timeout."""
    n, q, idle = key
    return tmpl.replace("@N@", str(n)).replace("@Q@", str(q)).replace("@IDLE@", "TRUE" if idle else "FALSE")


def blocked_in_write(t):
    """Requests of a run whose handler had returned from invoke before the first call of Shutdown and whose write ended only
    after the (slow) client of their connection had started to read, i.e. handlers blocked in conn.Write when Shutdown began."""
    pos = {}
    for i, e in enumerate(t):
        if e["e"] in ("Invoked", "Written"):
            pos[(e["e"], e["r"])] = i
        elif e["e"] == "ClientReads":
            pos.setdefault(("ClientReads", e["c"]), i)
        elif e["e"] == "ShutdownStart":
            pos.setdefault("S", i)
    if "S" not in pos:
        return []
    return [kr[1] for kr in sorted(x for x in pos if x != "S") for r in [kr[1]] if kr[0] == "Invoked" and pos[("Invoked", r)] < pos["S"]
            and ("ClientReads", r // 10) in pos and pos.get(("Written", r), -1) > pos[("ClientReads", r // 10)] > pos["S"]]


def run(ctx):
    ctx.level = "model_checking"
    ctx.assumptions = [
        "the pool is modelled by queue + dispatcher holding one job + running set + Release handshake (GPool.tla checks that design separately)",
        "handler durations (<= 400 ms; one in four base runs, every twice/mix run has one handler of 0.7-2.7 s) are below the long Shutdown context (6 s): "
        "an expired long context means requests were stranded, not slow; short contexts (300-900 ms) of additional calls are meant to expire",
        "server runs with the framework defaults ReadTimeout = 0, AcceptTimeout = 500 ms; one run in three sends one more request 200-300 ms after Shutdown began "
        "(before the poller's first round sends the close message), otherwise clients send nothing after Shutdown starts",
        "slow runs: a 1-16 MiB response does not fit into 64 KiB socket buffers on either side (checked per run: the write must end after the client started "
        "to read, else the run does not count as blocked); the slow client starts reading at most 3.6 s after Shutdown was called, the long context is 6 s; "
        "a rejection of a slow run is reported when a re-run of the same scenario shows it again",
        "a client that saw the end of its stream without the notification is reported when a re-run of the same scenario (three are made) shows it again "
        "(in the code the order of the poller's first round and the recv loop's own exit is a matter of a 100 ms margin: on an overloaded machine it can flip)",
    ]
    exe = gobuild.build(ctx, "vdrive")
    ctx.log("driver built")
    # the model is checked while the real code is driven (the driver sleeps most of the time)
    mcex = ThreadPoolExecutor(max_workers=4)
    # two calls of Shutdown in every configuration (thorough); quick: two calls with pool 2 and, with 3 requests, without a pool; one call in the others
    # (the write is a step of its own since the slow-client runs were added: quick keeps 4 requests without a pool and takes 3 with pool 1)
    one_call = ctx.pick(("nopool", "pool_early"), ())
    mccfg = {c: open(os.path.join(VERIF, "spec", SPEC, "MC_%s.cfg" % c)).read().replace("Calls <- K2", "Calls <- K1" if c in one_call else "Calls <- K2")
             for c in ("nopool", "pool_late", "pool2_late", "pool_early", "idle", "earlydec", "earlydec_pool")}
    if ctx.quick:
        mccfg["pool_late"] = mccfg["pool_late"].replace("Reqs <- R4  ConnOf <- CO4", "Reqs <- R3  ConnOf <- CO3")
        assert "R3" in mccfg["pool_late"] and "K2" in mccfg["pool_late"]
        mccfg["nopool_twice"] = (open(os.path.join(VERIF, "spec", SPEC, "MC_nopool.cfg")).read()
                                 .replace("Reqs <- R4  ConnOf <- CO4", "Reqs <- R3  ConnOf <- CO3"))
        assert "R3" in mccfg["nopool_twice"] and "K2" in mccfg["nopool_twice"]
    mcfuts = {c: mcex.submit(tlc.run, ctx, SPEC, "MC_ServerShutdown", cfg="MCrun_%s.cfg" % c, extra_files={"MCrun_%s.cfg" % c: mccfg[c]},
                             workers=ctx.pick(2, 4), timeout=900, name="mc-" + c)
              for c in mccfg}
    per = ctx.pick(5, 60)
    # (pool, queue, kind, runs, extra flags)
    configs = [(n, q, "base", per, (["-abort"] if i >= 5 else []))
               for i, (n, q) in enumerate([(0, 3), (1, 3), (2, 3), (2, 1), (1, 1), (0, 3), (2, 3), (1, 3)])]
    configs += [(n, q, "twice", ctx.pick(3, 24), []) for n, q in [(0, 3), (2, 3), (1, 1)]]
    configs += [(n, q, "mix", ctx.pick(4, 30), []) for n, q in [(0, 3), (2, 3), (1, 3)] + ctx.pick([], [(0, 3), (2, 1)])]
    # responses of 1-16 MiB to clients that start reading 1.2-3.2 s after Shutdown began (handlers blocked in conn.Write)
    configs += [(n, q, "slow", ctx.pick(3, 20), []) for n, q in [(0, 3), (2, 3), (1, 1)] + ctx.pick([], [(1, 3), (2, 1)])]
    configs += [(n, q, "slowidle", ctx.pick(3, 14), []) for n, q in [(0, 3), (2, 3)]]

    def drive(i):
        n, q, kind, runs, extra = configs[i]
        out = os.path.join(ctx.work, "sd%d.ndjson" % i)
        rc, so, se = sh([exe, "shutdown-trace", "-seed", str(ctx.seed * 1000 + i), "-n", str(runs), "-pool", str(n), "-q", str(q),
                         "-ctx", str(CTX_MS), "-kind", kind, "-out", out] + extra, timeout=3400)
        if rc != 0:
            raise Inconclusive("vdrive shutdown-trace failed (%s): %s" % (kind, se[-400:]))
        return (n, q, kind == "slowidle"), out, [int(x) for x in so.split()[-7:]], kind

    with ThreadPoolExecutor(max_workers=len(configs)) as ex:
        outs = list(ex.map(drive, range(len(configs))))
    ctx.log("real code driven: %d processes" % len(configs))
    mc = {}
    for c, f in mcfuts.items():
        r = f.result()
        if c == "pool_early":
            if "ReadGetsAnswered" not in r.out or "violated" not in r.out:
                raise Inconclusive("the early-release model does not violate ReadGetsAnswered (vacuity guard)")
            continue
        if c in ("earlydec", "earlydec_pool"):
            # the counter released when invoke returns, before the write: a shutdown (no pool) / an idle close alone (pool 2) must
            # close a connection under a response write
            inv = {"earlydec": "ReadImpliesAnswered", "earlydec_pool": "NoLateWrite"}[c]
            if "Invariant %s is violated" % inv not in r.out:
                raise Inconclusive("the model with the counter released before the write does not violate %s (vacuity guard)" % inv)
            continue
        tlc.require_clean(r, "MC_ServerShutdown/" + c)
        mc[c] = {"distinct": r.distinct, "generated": r.generated, "calls_of_Shutdown": 2 if "Calls <- K2" in mccfg[c] else 1}
    mcex.shutdown()
    ctx.log("model checked")
    hits = [sum(o[2][k] for o in outs) for k in range(7)]
    if min(hits[1:]) == 0:
        raise Inconclusive("hook self-test: a tcp server hook never fired: %s" % hits)
    tmpl = open(os.path.join(VERIF, "spec", SPEC, "Trace.cfg.tmpl")).read()
    groups = {}
    kinds = {}
    for nq, out, _, kind in outs:
        ts = split(out)
        groups.setdefault(nq, []).extend(ts)
        kinds[kind] = kinds.get(kind, 0) + len(ts)

    def val(item):
        key, traces = item
        return key, traces, tracecheck.validate(ctx, SPEC, "Trace_ServerShutdown", tcfg(tmpl, key),
                                                traces, name="trace-%d-%d-%d" % key, reset={"e": "End"})

    states = trans = ntr = 0
    expired = 0
    pending_timed = []
    with ThreadPoolExecutor(max_workers=6) as ex:
        for (n, q, idle), traces, (acc, fails, st) in ex.map(val, list(groups.items())):
            states += st["states"]
            trans += st["transitions"]
            ntr += len(traces)
            expired += sum(1 for t in traces for e in t if e["e"] == "ShutdownEnd" and e["expired"] and e["ctx"] >= CTX_MS)
            for f in fails:
                t = traces[f["index"]]
                sig, what = classify(n, q, t, f)
                # (runs with a slow client: a verdict that rests on seconds of scripted timing is reproduced on a second run before it is reported)
                if ":PeerEOF" in sig or "NotifiedT" in sig or ":ReqSent" in sig or f["event"].get("e") == "PeerEOF" or t[0]["kind"].startswith("slow"):
                    pending_timed.append((sig, what, n, q, t, f))
                else:
                    ctx.violate(sig, what, {"n": n, "q": q, "trace": t, "offset": f["offset"]})
    # Whether a client sees the notification before the end of its stream depends, in the code as written, on the poller's first
    # round (500 ms after Shutdown began) coming before the recv loop's own way out (100 ms read deadline + 500 ms tick): on an
    # overloaded machine the order can flip; so can the order of a request sent 200-300 ms after Shutdown began and that first round.
    # Such a rejection is reported when one of three re-runs of the same scenario shows it again (up to three scenarios per signature
    # are tried: a defect that depends on the iteration order of the connection table shows in every other run only).
    unreproduced = []
    confirmed = set()
    tried = {}
    for sig, what, n, q, t, f in pending_timed:
        if sig in confirmed or tried.get(sig, 0) >= 3:
            continue
        tried[sig] = tried.get(sig, 0) + 1
        c0 = t[0]

        def again(i, c0=c0, n=n, q=q, sig=sig):
            out = os.path.join(ctx.work, "rerun-%d-%d-%d.ndjson" % (c0["dseed"], c0["sc"], i))
            rc, so, se = sh([exe, "shutdown-trace", "-seed", str(c0["dseed"]), "-n", str(c0["sc"] + 1), "-only", str(c0["sc"]), "-pool", str(n),
                             "-q", str(q), "-ctx", str(CTX_MS), "-kind", c0["kind"], "-out", out] + (["-abort"] if c0["abort"] else []), timeout=600)
            ts = split(out) if rc == 0 else []
            if len(ts) != 1:
                raise Inconclusive("re-run of scenario %s/%d failed: %s" % (c0["kind"], c0["sc"], se[-300:]))
            acc, fl, _ = tracecheck.validate(ctx, SPEC, "Trace_ServerShutdown", tcfg(tmpl, (n, q, c0["idle"])), ts,
                                             name="rerun-%d" % i, reset={"e": "End"})
            return bool(fl) and classify(n, q, ts[0], fl[0])[0] == sig

        with ThreadPoolExecutor(max_workers=3) as ex:
            rep = sum(1 for ok in ex.map(again, range(3)) if ok)
        ctx.log("order-dependent rejection %s (scenario %s/%d): seen again in %d of 3 re-runs of the scenario" % (sig, c0["kind"], c0["sc"], rep))
        if rep >= 1:
            confirmed.add(sig)
            ctx.violate(sig, what + " (seen again in %d of 3 re-runs of the same scenario)" % rep, {"n": n, "q": q, "trace": t, "offset": f["offset"]})
        else:
            unreproduced.append({"signature": sig, "scenario": {k: c0[k] for k in ("kind", "dseed", "sc", "n", "q", "conns")}, "reproduced": 0, "of": 3,
                                 "event": f["event"], "shutdown": [e for e in t if e["e"] == "ShutdownEnd"]})
            ctx.notes.append("%s in scenario %s/%d (pool %d) was not seen again in 3 re-runs: not reported" % (sig, c0["kind"], c0["sc"], n))
    ctx.log("traces validated")
    # the Shutdown context (6 s) is longer than every handler (<= 2.7 s) plus the close ticks: a run whose context expired although
    # everything read was answered did not "return once all connections have drained" (one such run may be a loaded machine)
    late = [t for ts in groups.values() for t in ts
            if any(e["e"] == "ShutdownEnd" and e["expired"] and e["ctx"] >= CTX_MS for e in t)
            and {e["r"] for e in t if e["e"] == "Read"} <= ({e["r"] for e in t if e["e"] == "Written"} | oneway(t))]
    if len(late) >= 2:
        t = late[0]
        kind = "one-way-request" if any(e["e"] == "Read" and e["r"] in oneway(t) for e in t) else "all-answered"
        ctx.violate("C12:shutdown-ran-to-its-deadline:%s" % kind,
                    "in %d runs every request read was handled and answered, yet Shutdown only returned when its %d ms context expired "
                    "(connections never drained): %s" % (len(late), CTX_MS, [e for e in t if e["e"] == "ShutdownEnd"]),
                    {"n": t[0]["n"], "q": t[0]["q"], "trace": t})
    # "... or when its context expires, whichever is first": a call must not outlive its context (2 s of margin for a loaded machine)
    overdue = [(t, e) for ts in groups.values() for t in ts for e in t if e["e"] == "ShutdownEnd" and e["ms"] > e["ctx"] + 2000]
    # (seen in two calls at least: the second one is the reproduction of a verdict that rests on wall-clock time)
    behind = [(t, e) for t, e in overdue if t[0]["kind"].startswith("slow") and blocked_in_write(t)]
    plain = [(t, e) for t, e in overdue if not (t[0]["kind"].startswith("slow") and blocked_in_write(t))]
    if len(behind) >= 2:
        t, e = behind[0]
        ctx.violate("C12:shutdown-outlived-its-context:behind-a-response-write",
                    "in %d calls (runs %s) Shutdown returned seconds after its context had expired, namely when a client that was slow to read a large response "
                    "(requests %s of this run, their handlers blocked in conn.Write) started reading: the poller was itself blocked in a write "
                    "(the close message) to that connection: %s" % (len(behind), ["%s/%d/%d" % (t_[0]["kind"], t_[0]["dseed"], t_[0]["sc"]) for t_, _ in behind][:6],
                                                                    blocked_in_write(t), e),
                    {"n": t[0]["n"], "q": t[0]["q"], "trace": t})
    if len(plain) >= 2 or (plain and len(overdue) >= 2 and not len(behind) >= 2):
        t, e = plain[0]
        ctx.violate("C12:shutdown-outlived-its-context", "in %d calls Shutdown returned long after its context had expired: %s" % (len(overdue), e),
                    {"n": t[0]["n"], "q": t[0]["q"], "trace": t})
    # binding self-tests: corrupted copies of accepted runs, each of which TLC must reject (validated concurrently)
    allt = [t for ts in groups.values() for t in ts]
    jobs = []    # (label, trace, ok(fails, trace))
    base = None
    for t in allt:
        ws = [e for e in t if e["e"] == "Written"]
        if ws and any(e["e"] == "ConnClosed" and e["c"] == ws[-1]["r"] // 10 for e in t) and not any(e["e"] == "ClientAbort" for e in t):
            base = t
            break
    if base is None:
        raise Inconclusive("no trace suitable for the self-test")
    wi = [i for i, e in enumerate(base) if e["e"] == "Written"][-1]
    m1 = [e for i, e in enumerate(base) if i != wi and not (e["e"] == "RespRecv" and e["r"] == base[wi]["r"])]   # answer never written
    jobs.append(("response-never-written", m1, lambda fails, m: bool(fails)))
    # connection closed before the last response was written
    m3 = list(base)
    w = m3.pop(wi)
    ci = [i for i, e in enumerate(m3) if e["e"] == "ConnClosed" and e["c"] == w["r"] // 10][0]
    m3.insert(ci + 1, w)
    jobs.append(("closed-before-written", m3, lambda fails, m: bool(fails)))
    # a call of Shutdown that returns with a live context while a request is still being handled: (a) a later call (second or third,
    # overlapping or after an earlier call has returned), (b) the only call of a run with three or more connections in different states
    for label, want in (("later-call-returns-at-once", lambda t, k: k > 1),
                        ("returns-while-another-connection-is-busy", lambda t, k: k == 1 and t[0]["conns"] >= 3 and calls(t) == 1)):
        m = None
        for t in allt:
            m = early_return(t, want)
            if m:
                break
        if m is None:
            raise Inconclusive("no run suitable for the self-test %s (vacuous corpus)" % label)
        jobs.append((label, m, lambda fails, m: bool(fails) and fails[0]["event"].get("e") == "ShutdownEnd"))
    # runs with a slow client: the handler of a request read before the shutdown is blocked in conn.Write when Shutdown is called
    slowruns = [t for t in allt if t[0]["kind"].startswith("slow")]
    blocked = [(t, blocked_in_write(t)) for t in slowruns]
    if not any(b for _, b in blocked):
        raise Inconclusive("no run in which a handler was blocked in conn.Write when Shutdown was called (vacuous corpus)")
    m = None
    for t, b in blocked:
        cc = [i for i, e in enumerate(t) if b and e["e"] == "ConnClosed" and e["c"] == b[0] // 10]
        cr = [i for i, e in enumerate(t) if b and e["e"] == "ClientReads" and e["c"] == b[0] // 10]
        if cc and cr and not any(e["e"] == "RespCut" for e in t):
            # (a) the connection is closed while the handler is in conn.Write: the counter no longer covers the write
            m = list(t)
            m.insert(cr[0], m.pop(cc[0]))
            # (b) the stream ends inside the response
            ri = [i for i, e in enumerate(t) if e["e"] == "RespRecv" and e["r"] == b[0]][0]
            m2 = t[:ri] + [{"e": "RespCut", "c": b[0] // 10, "r": b[0], "got": 65536, "want": 1 << 20}] + t[ri + 1:]
            break
    if m is None:
        raise Inconclusive("no run suitable for the self-test closed-under-write (vacuous corpus)")
    jobs.append(("closed-while-handler-in-conn.Write", m, lambda fails, m: bool(fails) and fails[0]["event"].get("e") == "ConnClosed"
                 and classify(m[0]["n"], m[0]["q"], m, fails[0])[0].startswith("C12:closed-under-response-write:shutdown")))
    jobs.append(("response-cut-short", m2, lambda fails, m: bool(fails) and fails[0]["event"].get("e") == "RespCut"))

    def selfjob(j):
        label, m, ok = j
        acc, fails, _ = tracecheck.validate(ctx, SPEC, "Trace_ServerShutdown", tcfg(tmpl, (m[0]["n"], m[0]["q"], m[0]["idle"])), [m],
                                            name="selftest-" + label.replace(".", "-"), reset={"e": "End"})
        return label, ok(fails, m)

    selftest = {}
    with ThreadPoolExecutor(max_workers=4) as ex:
        for label, ok in ex.map(selfjob, jobs):
            selftest[label] = "rejected" if ok else "ACCEPTED"
    for label, v in selftest.items():
        if v != "rejected":
            raise Inconclusive("binding self-test failed: corrupted run '%s' was accepted" % label)
    sizes = sorted({e["size"] for t in slowruns for e in t if e["e"] == "ReqSent" and e.get("size")})
    # idle server, Shutdown after the fact: connections closed as idle (before any call of Shutdown) after a response write that
    # had been blocked for 1.3-2.6 s, i.e. across one or two read timeouts (1 s) at which the recv loop looked at numInvoke
    idled = sum(1 for t in slowruns if t[0]["idle"] for i, e in enumerate(t) if e["e"] == "ConnClosed" and not any(x["e"] == "ShutdownStart" for x in t[:i])
                and any(x["e"] == "Written" and x["r"] // 10 == e["c"] for x in t[:i]))
    if idled == 0:
        raise Inconclusive("no run in which a connection was closed as idle after a blocked response write (vacuous corpus)")
    waited = sum(1 for t in allt for e in t if e["e"] == "ShutdownEnd" and not e["expired"] and early_return(t, lambda t_, k, k0=e["k"]: k == k0))
    ctx.coverage = {
        "states": sum(v["distinct"] for v in mc.values()) + states,
        "transitions": sum(v["generated"] for v in mc.values()) + trans,
        "traces_validated_against_impl": ntr,
        "samples": [allt[0]],
        "evaluations": ntr, "distinct_nontrivial": len({json.dumps(t) for t in allt}),
        "rule": "runs: pool 0/1/2, queue 1/3; base: 1-2 connections, 0-6 requests with handler durations 0-400 ms, Shutdown 0-300 ms after the "
                "last request (in-flight, queued and idle mixes); one run in three of every kind: one more request 200-300 ms after Shutdown began; twice: 1-3 connections, a 1.2-2.7 s handler in flight, 2-3 calls of Shutdown "
                "(overlapping, after an expired call, after a drained call; contexts 6 s or 300-900 ms); mix: 3-6 connections (silent, silent "
                "after early traffic, 0.7-2.7 s handler in flight, recent requests), 1-3 calls; slow: 1-2 connections, 1-3 requests with responses of "
                "1-16 MiB to a client with a 64 KiB receive buffer that starts reading 1.2-3.2 s after Shutdown was called (handlers blocked in conn.Write "
                "or waiting behind them), 1-3 calls; slowidle: the same on a server with ReadTimeout 1 s / IdleTimeout 0 (idle close), Shutdown during "
                "the write or after the idle close; distinct = distinct event traces",
        "runs_by_kind": kinds,
        "runs_with_a_request_sent_during_Shutdown": sum(1 for t in allt if any(e["e"] == "ReqSent" for e in t[[i for i, e in enumerate(t) if e["e"] == "ShutdownStart"][0]:])),
        "runs_with_a_handler_blocked_in_conn.Write_when_Shutdown_was_called": sum(1 for _, b in blocked if b),
        "handlers_blocked_in_conn.Write_when_Shutdown_was_called": sum(len(b) for _, b in blocked),
        "of_these_with_a_worker_pool": sum(len(b) for t, b in blocked if t[0]["n"] > 0),
        "response_sizes_of_slow_runs": sizes,
        "complete_large_responses_received_by_slow_clients": sum(1 for t in slowruns for e in t if e["e"] == "RespRecv" and any(
            x["e"] == "ReqSent" and x["r"] == e["r"] and x.get("size") for x in t)),
        "runs_on_a_server_with_read_and_idle_timeouts": sum(1 for t in slowruns if t[0]["idle"]),
        "connections_closed_as_idle_before_Shutdown_after_a_slow_write": idled,
        "runs_with_3_or_more_connections": sum(1 for t in allt if t[0]["conns"] >= 3),
        "runs_with_several_calls_of_Shutdown": sum(1 for t in allt if calls(t) > 1),
        "calls_of_Shutdown": sum(calls(t) for t in allt),
        "calls_that_returned_on_drain_after_waiting_for_a_handler": waited,
        "calls_with_short_context_expired": sum(1 for t in allt for e in t if e["e"] == "ShutdownEnd" and e["expired"] and e["ctx"] < CTX_MS),
        "model_checking": mc, "early_release_model_violates_ReadGetsAnswered": True,
        "runs_with_expired_context": expired,
        "hook_hits": dict(zip(["scenarios", "handleConn", "invoked", "written", "recv.closed", "accept.exit", "accept.released"], hits)),
        "selftest_corrupted_traces": selftest, "exhaustive": False,
        "timing_dependent_rejections_not_reproduced": unreproduced,
    }
