"""C19 — worker pool: every job exactly once, bounded parallelism, blocking only when full, Release.

Spec: spec/GPool (GPool.tla; MC_*.cfg exhaustive; Trace_GPool trace validation; Gen_GPool behaviours).
Binding: B1 random runs of the real gpool recorded at the harness-visible steps and validated by TLC
with the pool's own steps silent; B2 model behaviours (maximal progress) replayed on the real pool
with jobs held on gates, the observation compared with the model's at every quiescent point.
"""
import json
import os
from concurrent.futures import ThreadPoolExecutor

from lib import gobuild, tlc, tracecheck
from lib.core import Inconclusive, sh, env_go

SPEC = "GPool"


def tmpl(name, **kw):
    from lib.core import VERIF
    s = open(os.path.join(VERIF, "spec", SPEC, name)).read()
    for k, v in kw.items():
        s = s.replace("@%s@" % k, str(v))
    return s


def split_traces(path):
    traces, cur = [], []
    for line in open(path):
        e = json.loads(line)
        if e["e"] == "Reset":
            traces.append(cur)
            cur = []
        else:
            cur.append(e)
    return traces


def corrupt(trace, kind):
    t = [dict(e) for e in trace]
    if kind == "dup-start":
        i = [k for k, e in enumerate(t) if e["e"] == "JobStart"]
        if not i:
            return None
        k = i[len(i) // 2]
        return t[:k + 1] + [t[k]] + t[k + 1:]
    if kind == "drop-start":
        i = [k for k, e in enumerate(t) if e["e"] == "JobStart"]
        if not i:
            return None
        k = i[0]
        # the job never runs (its JobEnd is dropped as well): rejected at Reset when no release happened
        j = t[k]["j"]
        if any(e["e"] == "ReleaseCall" for e in t):
            return None
        return [e for e in t if not (e["e"] in ("JobStart", "JobEnd") and e.get("j") == j)]
    if kind == "early-release-ret":
        i = [k for k, e in enumerate(t) if e["e"] == "ReleaseRet"]
        je = [k for k, e in enumerate(t) if e["e"] == "JobEnd"]
        rc = [k for k, e in enumerate(t) if e["e"] == "ReleaseCall"]
        if not i or not je or not rc or je[-1] < rc[0]:
            return None
        # move ReleaseRet to just after ReleaseCall although a job ends later
        rr = t.pop(i[0])
        t.insert(rc[0] + 1, rr)
        return t
    return None


def run(ctx):
    ctx.level = "model_checking"
    ctx.assumptions = [
        "Go channel semantics as modelled in GPool.tla (FIFO send queue, rendezvous for unbuffered channels)",
        "harness events are ordered by a sequence number taken under one lock; the pool's internal steps are unlogged and placed by TLC",
        "directed replay observes quiescence by polling with a stability window (15 ms, 60 ms on retries); a divergence is reported only if it reproduces 3 times",
    ]
    # ---- 1. exhaustive model checking of the design
    cfgs = ctx.pick(["norel_q1", "norel_q0", "rel_q1", "rel_q0"],
                    ["norel_q1", "norel_q0", "rel_q1", "rel_q0", "norel_q2", "rel_q2"])
    mc_states = mc_trans = 0
    mc = {}
    with ThreadPoolExecutor(max_workers=3) as ex:
        futs = {c: ex.submit(tlc.run, ctx, SPEC, "MC_GPool", cfg="MC_%s.cfg" % c, workers=4, timeout=900,
                             name="mc-" + c, coverage=not ctx.quick) for c in cfgs}
        for c, f in futs.items():
            r = tlc.require_clean(f.result(), "MC_GPool/" + c)
            mc[c] = {"distinct": r.distinct, "generated": r.generated, "depth": r.depth}
            mc_states += r.distinct
            mc_trans += r.generated
    ctx.log("model checking done", mc)

    # ---- 2. build the harness from the working tree
    exe = gobuild.build(ctx, "vdrive")

    # ---- 3. B1: random runs -> traces -> TLC
    tdir = ctx.sub("traces")
    per_group = ctx.pick(40, 400)
    sh([exe, "gpool-trace", "-seed", str(ctx.seed), "-n", str(per_group), "-out", tdir], timeout=1200)
    groups = [(n, q) for n in (1, 2, 3) for q in (0, 1, 2)]
    validated = 0
    tstates = ttrans = 0
    samples = []
    events_total = 0

    def val(nq):
        n, q = nq
        traces = split_traces(os.path.join(tdir, "trace_n%d_q%d.ndjson" % (n, q)))
        acc, fails, st = tracecheck.validate(ctx, SPEC, "Trace_GPool", tmpl("Trace.cfg.tmpl", N=n, Q=q), traces,
                                             name="trace-n%dq%d" % (n, q), timeout=900)
        return nq, traces, acc, fails, st

    with ThreadPoolExecutor(max_workers=9) as ex:
        results = list(ex.map(val, groups))
    distinct_traces = set()
    for (n, q), traces, acc, fails, st in results:
        validated += len(traces)
        tstates += st["states"]
        ttrans += st["transitions"]
        events_total += sum(len(t) for t in traces)
        for t in traces:
            distinct_traces.add((n, q, json.dumps(t, sort_keys=True)))
        for f in fails:
            ev = f["event"]
            ctx.violate("C19:trace-rejected:%s" % ev.get("e"),
                        "recorded run of the real pool (N=%d, Q=%d) is not a behaviour of GPool: event %s cannot happen there"
                        % (n, q, json.dumps(ev)),
                        {"kind": "trace", "n": n, "q": q, "trace": traces[f["index"]], "offset": f["offset"],
                         "invariant": f["invariant"]})
        if (n, q) == (2, 1) and traces:
            samples.append({"kind": "validated trace (N=2,Q=1)", "events": traces[0][:24]})

    # ---- 3b. the binding is demonstrated: corrupted traces must be rejected
    n, q = 2, 1
    base = [t for t in results[groups.index((n, q))][1]]
    selftest = {}
    for kind in ("dup-start", "drop-start", "early-release-ret"):
        bad = None
        for t in base:
            bad = corrupt(t, kind)
            if bad is not None:
                break
        if bad is None:
            selftest[kind] = "no candidate trace"
            continue
        acc, fails, _ = tracecheck.validate(ctx, SPEC, "Trace_GPool", tmpl("Trace.cfg.tmpl", N=n, Q=q), [bad],
                                            name="selftest-" + kind, timeout=300)
        selftest[kind] = "rejected" if fails else "ACCEPTED"
        if not fails:
            raise Inconclusive("binding self-test failed: corrupted trace (%s) was accepted" % kind)

    # ---- 4. B2: model behaviours replayed on the real pool
    combos = [(1, 0, "FALSE"), (1, 1, "TRUE"), (2, 0, "TRUE"), (2, 1, "FALSE"), (2, 1, "TRUE"), (2, 2, "TRUE"), (3, 1, "TRUE")]
    num = ctx.pick(30, 400)
    D = 60
    scripts = {}

    def gen(c):
        n, q, rel = c
        r = tlc.run(ctx, SPEC, "Gen_GPool", cfg="Gen_run.cfg", workers=1, timeout=600,
                    extra_files={"Gen_run.cfg": tmpl("Gen.cfg.tmpl", N=n, Q=q, REL=rel, D=D)},
                    simulate="num=%d" % num, depth=D, seed=ctx.seed + 17 * n + q, name="gen-%d-%d-%s" % c)
        out = []
        for line in r.out.splitlines():
            if line.startswith('"{'):
                try:
                    out.append(json.loads(json.loads(line)))
                except ValueError:
                    pass
        if not out:
            raise Inconclusive("behaviour generation produced nothing for %s:\n%s" % (c, r.out[-2000:]))
        return out

    with ThreadPoolExecutor(max_workers=7) as ex:
        for c, out in zip(combos, ex.map(gen, combos)):
            for s in out:
                scripts[json.dumps(s, sort_keys=True)] = s
    scripts = list(scripts.values())
    sfile = os.path.join(ctx.work, "scripts.ndjson")
    with open(sfile, "w") as f:
        for s in scripts:
            f.write(json.dumps(s) + "\n")
    rfile = os.path.join(ctx.work, "results.ndjson")
    sh([exe, "gpool-replay", "-in", sfile, "-out", rfile, "-par", "12"], timeout=1800)
    replayed = 0
    actions = 0
    blocked_seen = 0
    for line in open(rfile):
        res = json.loads(line)
        replayed += 1
        actions += res["actions"]
        sc = scripts[res["idx"]]
        if any(st["obs"]["blocked"] for st in sc["steps"]):
            blocked_seen += 1
        if not res["ok"]:
            ctx.violate("C19:replay-diverged:%s" % sc["steps"][res["step"]]["a"],
                        "real pool (N=%d,Q=%d) diverges from GPool at step %d: %s; expected %s, got %s"
                        % (sc["n"], sc["q"], res["step"], res.get("why"), res.get("expected"), res.get("got")),
                        {"kind": "replay", "script": sc, "result": res})
    if scripts:
        samples.append({"kind": "replayed model behaviour", "script": scripts[0]})
    if blocked_seen == 0:
        raise Inconclusive("no generated behaviour exercised a blocked submitter (vacuous blocking check)")

    ctx.coverage = {
        "states": mc_states + tstates,
        "transitions": mc_trans + ttrans,
        "traces_validated_against_impl": validated + replayed,
        "samples": samples,
        "model_checking": mc,
        "mc_distinct_states": mc_states,
        "trace_validation": {"traces": validated, "events": events_total, "tlc_states": tstates,
                             "distinct_traces": len(distinct_traces), "groups": ["N=%d,Q=%d" % g for g in groups]},
        "selftest_corrupted_traces": selftest,
        "directed_replay": {"behaviours": replayed, "actions": actions, "with_blocked_submitter": blocked_seen,
                            "combos": ["N=%d,Q=%d,release=%s" % c for c in combos]},
        "evaluations": validated + replayed,
        "distinct_nontrivial": len(distinct_traces) + len(scripts),
        "rule": "random runs (N 1..3, Q 0..2, 1..8 jobs, 1..4 submitters, optional Release) recorded and validated by "
                "Trace_GPool; TLC-simulated maximal-progress behaviours of Gen_GPool replayed on the real pool; "
                "distinct = distinct event sequences / distinct scripts",
        "exhaustive": False,
    }
