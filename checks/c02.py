"""C02 — primitive codec: exact round trip and wire-format conformance.

Spec: spec/TarsWire (TarsWire.tla reference format; MC_TarsWire theorems on the reference itself;
Oracle_Wire batch oracle).  Binding B3: the real Write*/Read* of tars/protocol/codec are run over an
exhaustive 8/16-bit space x tags plus boundary-dense wide values, floats and strings; TLC judges every
record (bytes written = reference encoding; every admissible reader returns the reference value and
stops exactly at the end of the field).
"""
import glob
import json
import os
from concurrent.futures import ThreadPoolExecutor

from lib import gobuild, oracle, tlc
from lib.core import Inconclusive, VERIF, sh

SPEC = "TarsWire"


def classify(rec):
    """Signature of a rejected record: stable, names the failing class."""
    if rec.get("k") == "wr-error":
        return "C02:write-error:%s" % rec.get("t")
    t = rec.get("t") or "handmade"
    for d in rec.get("rd", []):
        if d["t"].endswith(":panic"):
            return "C02:panic:read-%s" % d["t"].split(":")[0]
    return "C02:mismatch:%s:%s" % (rec.get("k"), t)


def run(ctx):
    ctx.level = "model_checking"
    ctx.assumptions = [
        "TarsWire.tla is the format definition (written from the Tars wire format, not from codec.go)",
        "values cross the boundary as big-endian byte arrays; float NaNs read through a wider reader are compared by class",
        "reads of values outside the reader type's range are not judged (the statement speaks of the same numeric value)",
    ]
    # ---- 1. the reference checked against itself (round trip, narrowest, widening) on an exhaustive small scope
    parts = ["rt8", "rt16", "rtwide", "misc"]
    tags16 = ctx.pick("{0}", "{0, 15, 255}")
    cfg_t = open(os.path.join(VERIF, "spec", SPEC, "MC_TarsWire.cfg.tmpl")).read()
    theorems = {}

    def mc(part):
        # the 8-bit group over all 256 tags is the slow one: quick tier uses the edge tags only
        src = "MC_TarsWire"
        extra = {"mc.cfg": cfg_t.replace("@PART@", part).replace("@TAGS16@", tags16)}
        if part == "rt8" and ctx.quick:
            extra["MC_TarsWire.tla"] = open(os.path.join(VERIF, "spec", SPEC, "MC_TarsWire.tla")).read().replace(
                "RoundTrip(t, 0..255)", "RoundTrip(t, Tags \\cup {2, 13, 17, 128, 254})")
        return part, tlc.run(ctx, SPEC, src, cfg="mc.cfg", workers=1, timeout=1500, extra_files=extra, name="mc-" + part)

    ex_mc = ThreadPoolExecutor(max_workers=4)
    mc_futs = [ex_mc.submit(mc, p) for p in parts]

    # ---- 2. drive the real codec
    exe = gobuild.build(ctx, "codecdrive")
    rdir = ctx.sub("recs")
    nsh = 14
    args = [exe, "prim", "-seed", str(ctx.seed), "-out", rdir, "-shards", str(nsh)]
    if ctx.quick:
        args += ["-tags8", "256", "-tags16", "2", "-wide", "2000"]
    else:
        args += ["-tags8", "256", "-tags16", "24", "-wide", "40000"]
    rc, so, se = sh(args, timeout=1800)
    nrec, ndistinct = [int(x) for x in so.strip().splitlines()[-1].split()]
    shards = sorted(glob.glob(os.path.join(rdir, "prim_*.ndjson")))

    # ---- 3. TLC judges every record
    res = oracle.judge(ctx, SPEC, "Oracle_Wire", "Oracle_Wire.cfg", shards, par=nsh, timeout=3000, name="wire")
    if res["total"] != nrec:
        raise Inconclusive("oracle judged %d records, driver wrote %d" % (res["total"], nrec))
    for path, idx, rec in res["bad"]:
        small = dict(rec)
        ctx.violate(classify(rec), "real codec disagrees with the wire-format reference on %s"
                    % json.dumps({k: small[k] for k in ("k", "t", "tag", "v", "out") if k in small})[:300],
                    {"record": rec})

    # ---- 4. self-test of the binding: corrupted observations must be rejected, exactly those
    first = [json.loads(l) for l in open(shards[1]).readlines()[:400]]

    def mutate(i, r):
        if i == 7 and r["out"]:
            r["out"][0] ^= 0x10          # wrong tag nibble in the written bytes
            return r
        if i == 120 and r["rd"]:
            r["rd"][-1]["rem"] += 1      # reader claimed to stop one byte early
            return r
        if i == 333 and r["rd"] and r["rd"][0]["v"]:
            r["rd"][0]["v"][-1] ^= 1     # value differs in the lowest bit
            return r
        return None

    st = oracle.selftest(ctx, SPEC, "Oracle_Wire", "Oracle_Wire.cfg", first, mutate, name="wire-selftest")

    # ---- 5. collect the model-level theorems
    mc_states = 0
    for f in mc_futs:
        part, r = f.result()
        tlc.require_clean(r, "MC_TarsWire/" + part)
        import re
        for m in re.finditer(r'<<"THEOREM", "(\w+)", (TRUE|FALSE)>>', r.out):
            theorems[m.group(1)] = (m.group(2) == "TRUE")
        mc_states += max(r.distinct, 1)
    ex_mc.shutdown()
    if not theorems or not all(theorems.values()):
        raise Inconclusive("reference self-consistency theorems failed: %s" % theorems)

    # distinct (type, tag, value) triples and wire shapes actually exercised
    by_type = {}
    sample = []
    for p in shards[:2]:
        for line in open(p):
            r = json.loads(line)
            by_type[r["t"] or "handmade"] = by_type.get(r["t"] or "handmade", 0) + 1
            if len(sample) < 3 and r["t"] in ("int16", "float32", "string") and len(r["v"]) < 20 and not any(s["t"] == r["t"] for s in sample):
                sample.append(r)
    ctx.coverage = {
        "states": mc_states + res["states"],
        "transitions": mc_states + res["generated"],
        "traces_validated_against_impl": res["total"],
        "samples": sample,
        "evaluations": res["total"],
        "distinct_nontrivial": ndistinct,
        "rule": "every int8/uint8/bool value x 256 tags, every 16-bit value x %s tags, boundary+random 32/64-bit values, "
                "float specials/NaN payloads/subnormals, strings at length boundaries, hand-made non-narrowest encodings; "
                "each written with the real writer and read back with every admissible real reader; a record is one "
                "(type, tag, value) triple (distinct = distinct (kind, type, tag, value, bytes) tuples counted by the driver)"
                % ctx.pick("2", "24"),
        "records_by_type_in_2_shards": by_type,
        "reference_theorems": theorems,
        "selftest_corrupted_records": st,
        "exhaustive": False,
        "exhaustive_subspaces": ["int8 x 256 tags", "uint8 x 256 tags", "bool x 256 tags", "int16/uint16 x %s tags" % ctx.pick("2", "24")],
    }
