// Package val: random values of generated Go types by reflection, and their canonical JSON form (shared by the drivers).
package val

import (
	"math"
	"math/rand"
	"reflect"
)

var edge64 = []int64{0, 1, -1, 2, 127, 128, -128, -129, 255, 256, 32767, 32768, -32768, -32769, 65535, 65536,
	math.MaxInt32, math.MaxInt32 + 1, math.MinInt32, math.MinInt32 - 1, math.MaxUint32, math.MaxUint32 + 1, math.MaxInt64, math.MinInt64}

func randInt(rng *rand.Rand) int64 {
	switch rng.Intn(4) {
	case 0:
		return edge64[rng.Intn(len(edge64))]
	case 1:
		return int64(rng.Intn(300)) - 150
	default:
		return int64(rng.Uint64()) >> uint(rng.Intn(64))
	}
}

func randBytes(rng *rand.Rand, big bool) []byte {
	n := rng.Intn(7)
	if big && rng.Intn(12) == 0 {
		n = []int{254, 255, 256, 257, 300}[rng.Intn(5)]
	}
	b := make([]byte, n)
	rng.Read(b)
	if rng.Intn(3) == 0 { // printable
		for i := range b {
			b[i] = 'a' + b[i]%26
		}
	}
	return b
}

// fill sets v (addressable) to a random value of its type; size shrinks with depth.
func Fill(rng *rand.Rand, v reflect.Value, depth int) {
	switch v.Kind() {
	case reflect.Bool:
		v.SetBool(rng.Intn(2) == 0)
	case reflect.Int8, reflect.Int16, reflect.Int32, reflect.Int64:
		v.SetInt(randInt(rng)) // truncated to the width by reflect? no: SetInt panics on overflow only via OverflowInt check -> truncate ourselves
	case reflect.Uint8, reflect.Uint16, reflect.Uint32, reflect.Uint64:
		v.SetUint(uint64(randInt(rng)))
	case reflect.Float32:
		switch rng.Intn(5) {
		case 0:
			v.SetFloat(float64(math.Float32frombits(rng.Uint32())))
		case 1:
			v.SetFloat([]float64{0, math.Copysign(0, -1), math.Inf(1), math.Inf(-1), 1.5}[rng.Intn(5)])
		default:
			v.SetFloat(float64(float32(rng.NormFloat64() * 1000)))
		}
	case reflect.Float64:
		switch rng.Intn(5) {
		case 0:
			v.SetFloat(math.Float64frombits(rng.Uint64()))
		case 1:
			v.SetFloat([]float64{0, math.Copysign(0, -1), math.Inf(1), math.Inf(-1), -2.25}[rng.Intn(5)])
		default:
			v.SetFloat(rng.NormFloat64() * 1e6)
		}
	case reflect.String:
		v.SetString(string(randBytes(rng, depth < 2)))
	case reflect.Slice:
		ek := v.Type().Elem().Kind()
		if rng.Intn(8) == 0 {
			v.Set(reflect.Zero(v.Type())) // nil
			return
		}
		if ek == reflect.Int8 || ek == reflect.Uint8 {
			b := randBytes(rng, depth < 2)
			s := reflect.MakeSlice(v.Type(), len(b), len(b))
			for i, x := range b {
				if ek == reflect.Int8 {
					s.Index(i).SetInt(int64(int8(x)))
				} else {
					s.Index(i).SetUint(uint64(x))
				}
			}
			v.Set(s)
			return
		}
		n := rng.Intn(4 - min(depth, 2))
		s := reflect.MakeSlice(v.Type(), n, n)
		for i := 0; i < n; i++ {
			Fill(rng, s.Index(i), depth+1)
		}
		v.Set(s)
	case reflect.Array:
		for i := 0; i < v.Len(); i++ {
			Fill(rng, v.Index(i), depth+1)
		}
	case reflect.Map:
		if rng.Intn(8) == 0 {
			v.Set(reflect.Zero(v.Type()))
			return
		}
		n := rng.Intn(4 - min(depth, 2))
		m := reflect.MakeMapWithSize(v.Type(), n)
		for i := 0; i < n; i++ {
			k := reflect.New(v.Type().Key()).Elem()
			Fill(rng, k, depth+1)
			e := reflect.New(v.Type().Elem()).Elem()
			Fill(rng, e, depth+1)
			m.SetMapIndex(k, e)
		}
		v.Set(m)
	case reflect.Struct:
		// keep some members at their declared default (fresh + ResetDefault) to exercise omission
		var dflt reflect.Value
		if v.CanAddr() {
			if ts, ok := v.Addr().Interface().(TarsStruct); ok {
				ts.ResetDefault()
				d := reflect.New(v.Type())
				d.Interface().(TarsStruct).ResetDefault()
				dflt = d.Elem()
			}
		}
		for i := 0; i < v.NumField(); i++ {
			if dflt.IsValid() && rng.Intn(4) == 0 {
				v.Field(i).Set(dflt.Field(i))
				continue
			}
			Fill(rng, v.Field(i), depth+1)
		}
	default:
		panic("fill: unsupported kind " + v.Kind().String())
	}
}

func min(a, b int) int {
	if a < b {
		return a
	}
	return b
}
