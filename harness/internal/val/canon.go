package val

import (
	"encoding/json"
	"math"
	"reflect"
	"sort"
	"strconv"
	"strings"

	"github.com/TarsCloud/TarsGo/tars/protocol/codec"
)

// tarsStruct is what every generated struct implements.
type TarsStruct interface {
	WriteTo(buf *codec.Buffer) error
	ReadFrom(readBuf *codec.Reader) error
	ResetDefault()
}

// tagOrder returns the struct's field indices sorted by their tars tag.
func tagOrder(t reflect.Type) []int {
	type ft struct{ idx, tag int }
	var fs []ft
	for i := 0; i < t.NumField(); i++ {
		tag := -1
		for _, part := range strings.Split(t.Field(i).Tag.Get("tars"), ",") {
			if strings.HasPrefix(part, "tag:") {
				tag, _ = strconv.Atoi(part[4:])
			}
		}
		fs = append(fs, ft{i, tag})
	}
	sort.SliceStable(fs, func(a, b int) bool { return fs[a].tag < fs[b].tag })
	r := make([]int, len(fs))
	for i, f := range fs {
		r[i] = f.idx
	}
	return r
}

// canon converts a Go value into the canonical JSON form shared with the TLA+ reference:
// scalars as big-endian byte arrays, vectors/arrays as lists, maps as sorted lists of [k, v],
// structs as lists of member values in tag order.
func Canon(v reflect.Value) interface{} {
	switch v.Kind() {
	case reflect.Bool:
		if v.Bool() {
			return []int{1}
		}
		return []int{0}
	case reflect.Int8, reflect.Int16, reflect.Int32, reflect.Int64:
		return ints(be(int(v.Type().Size()), uint64(v.Int())))
	case reflect.Uint8, reflect.Uint16, reflect.Uint32, reflect.Uint64:
		return ints(be(int(v.Type().Size()), v.Uint()))
	case reflect.Float32:
		if v.Float() == 0 { // -0.0 == +0.0: an optional member at its default is not transmitted, so the sign of zero is not part of the value
			return ints(be(4, 0))
		}
		return ints(be(4, uint64(math.Float32bits(float32(v.Float())))))
	case reflect.Float64:
		if v.Float() == 0 {
			return ints(be(8, 0))
		}
		return ints(be(8, math.Float64bits(v.Float())))
	case reflect.String:
		return ints([]byte(v.String()))
	case reflect.Slice, reflect.Array:
		ek := v.Type().Elem().Kind()
		if v.Kind() == reflect.Slice && (ek == reflect.Int8 || ek == reflect.Uint8) {
			r := make([]int, v.Len())
			for i := range r {
				if ek == reflect.Int8 {
					r[i] = int(uint8(v.Index(i).Int()))
				} else {
					r[i] = int(v.Index(i).Uint())
				}
			}
			return r
		}
		r := make([]interface{}, v.Len())
		for i := range r {
			r[i] = Canon(v.Index(i))
		}
		return r
	case reflect.Map:
		type kv struct {
			k, v interface{}
			s    string
		}
		var kvs []kv
		it := v.MapRange()
		for it.Next() {
			k := Canon(it.Key())
			b, _ := json.Marshal(k)
			kvs = append(kvs, kv{k, Canon(it.Value()), string(b)})
		}
		sort.Slice(kvs, func(a, b int) bool { return kvs[a].s < kvs[b].s })
		r := make([]interface{}, len(kvs))
		for i, e := range kvs {
			r[i] = []interface{}{e.k, e.v}
		}
		return r
	case reflect.Struct:
		ord := tagOrder(v.Type())
		r := make([]interface{}, len(ord))
		for i, idx := range ord {
			r[i] = Canon(v.Field(idx))
		}
		return r
	case reflect.Ptr:
		return Canon(v.Elem())
	}
	panic("canon: unsupported kind " + v.Kind().String())
}

func ints(b []byte) []int {
	r := make([]int, len(b))
	for i, x := range b {
		r[i] = int(x)
	}
	return r
}

func be(w int, v uint64) []byte {
	b := make([]byte, 8)
	for i := 0; i < 8; i++ {
		b[7-i] = byte(v >> (8 * uint(i)))
	}
	return b[8-w:]
}
