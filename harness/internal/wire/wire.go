// Package wire: hand-rolled Tars wire-format helpers of the harness (independent of tars/protocol/codec):
// field splitter reporting boundaries and embedded lengths, and a builder of random well-formed fields.
package wire

// Hand-rolled wire-format helpers of the harness (independent of tars/protocol/codec): a field
// splitter that reports field boundaries and the positions of embedded lengths, and a builder of
// random well-formed fields.  Used to build the C04/C05/C06 corpora; what they produce is judged
// by the TLA+ reference, so a mistake here shows up as a disagreement, not as a silent pass.

import (
	"encoding/binary"
	"errors"
	"math/rand"
)

const (
	TBYTE = iota
	TSHORT
	TINT
	TLONG
	TFLOAT
	TDOUBLE
	TSTR1
	TSTR4
	TMAP
	TLIST
	TSB
	TSE
	TZERO
	TSL
)

type Span struct {
	Tag        int
	Ty         int
	Start, End int // [Start, End) of the whole field including its head
	Body       int // start of the payload
}

// LenPos describes an embedded length: the bytes [Start, End) encode the count/length `N`;
// Kind: "str1" (1 raw byte), "str4" (4 raw bytes), "count" (an integer field with tag 0).
type LenPos struct {
	Kind       string
	Start, End int
	N          int
}

var errCut = errors.New("cut")

func rdHead(b []byte, p int) (ty, tag, np int, err error) {
	if p >= len(b) {
		return 0, 0, p, errCut
	}
	ty = int(b[p] & 0x0f)
	tag = int(b[p] >> 4)
	p++
	if tag == 15 {
		if p >= len(b) {
			return 0, 0, p, errCut
		}
		tag = int(b[p])
		p++
	}
	return ty, tag, p, nil
}

// rdCount reads an integer field with tag 0 used as a length.
func rdCount(b []byte, p int, lens *[]LenPos, kind string) (n, np int, err error) {
	start := p
	ty, tag, p, err := rdHead(b, p)
	if err != nil {
		return 0, p, err
	}
	if tag != 0 {
		return 0, p, errors.New("length tag")
	}
	w := map[int]int{TZERO: 0, TBYTE: 1, TSHORT: 2, TINT: 4}[ty]
	if ty != TZERO && w == 0 {
		return 0, p, errors.New("length type")
	}
	if p+w > len(b) {
		return 0, p, errCut
	}
	var v int64
	switch w {
	case 1:
		v = int64(int8(b[p]))
	case 2:
		v = int64(int16(binary.BigEndian.Uint16(b[p:])))
	case 4:
		v = int64(int32(binary.BigEndian.Uint32(b[p:])))
	}
	if v < 0 {
		return 0, p, errors.New("negative length")
	}
	if lens != nil {
		*lens = append(*lens, LenPos{kind, start, p + w, int(v)})
	}
	return int(v), p + w, nil
}

// skipPayload returns the position after the payload of a field of wire type ty starting at p.
func skipPayload(b []byte, ty, p int, lens *[]LenPos) (int, error) {
	adv := func(n int) (int, error) {
		if p+n > len(b) {
			return p, errCut
		}
		return p + n, nil
	}
	switch ty {
	case TBYTE:
		return adv(1)
	case TSHORT:
		return adv(2)
	case TINT, TFLOAT:
		return adv(4)
	case TLONG, TDOUBLE:
		return adv(8)
	case TZERO:
		return p, nil
	case TSTR1:
		if p >= len(b) {
			return p, errCut
		}
		n := int(b[p])
		if lens != nil {
			*lens = append(*lens, LenPos{"str1", p, p + 1, n})
		}
		p++
		return adv(n)
	case TSTR4:
		if p+4 > len(b) {
			return p, errCut
		}
		n := int(binary.BigEndian.Uint32(b[p:]))
		if lens != nil {
			*lens = append(*lens, LenPos{"str4", p, p + 4, n})
		}
		p += 4
		if n < 0 || n > len(b) {
			return p, errCut
		}
		return adv(n)
	case TLIST, TMAP:
		kind := "count-list"
		if ty == TMAP {
			kind = "count-map"
		}
		n, np, err := rdCount(b, p, lens, kind)
		if err != nil {
			return np, err
		}
		p = np
		if ty == TMAP {
			n *= 2
		}
		for i := 0; i < n; i++ {
			ety, _, np, err := rdHead(b, p)
			if err != nil {
				return np, err
			}
			if p, err = skipPayload(b, ety, np, lens); err != nil {
				return p, err
			}
		}
		return p, nil
	case TSL:
		ety, _, np, err := rdHead(b, p)
		if err != nil {
			return np, err
		}
		if ety != TBYTE {
			return np, errors.New("simple list element type")
		}
		n, np, err := rdCount(b, np, lens, "count-simplelist")
		if err != nil {
			return np, err
		}
		p = np
		return adv(n)
	case TSB:
		for {
			ety, _, np, err := rdHead(b, p)
			if err != nil {
				return np, err
			}
			if ety == TSE {
				return np, nil
			}
			if p, err = skipPayload(b, ety, np, lens); err != nil {
				return p, err
			}
		}
	}
	return p, errors.New("bad wire type")
}

// split parses the top-level fields of b.
func Split(b []byte, lens *[]LenPos) ([]Span, error) {
	var out []Span
	p := 0
	for p < len(b) {
		ty, tag, np, err := rdHead(b, p)
		if err != nil {
			return out, err
		}
		end, err := skipPayload(b, ty, np, lens)
		if err != nil {
			return out, err
		}
		out = append(out, Span{tag, ty, p, end, np})
		p = end
	}
	return out, nil
}

func MkHead(ty, tag int) []byte {
	if tag < 15 {
		return []byte{byte(tag<<4 | ty)}
	}
	return []byte{byte(0xf0 | ty), byte(tag)}
}

// mkInt encodes v as an integer field in the narrowest width (narrowest=false: a random admissible wider one).
func MkInt(tag int, v int64, narrowest bool, rng *rand.Rand) []byte {
	w := 8
	switch {
	case v == 0:
		w = 0
	case v >= -128 && v <= 127:
		w = 1
	case v >= -32768 && v <= 32767:
		w = 2
	case v >= -(1<<31) && v <= 1<<31-1:
		w = 4
	}
	if !narrowest {
		ws := []int{1, 2, 4, 8}
		for {
			c := ws[rng.Intn(4)]
			if c >= w {
				w = c
				break
			}
		}
	}
	switch w {
	case 0:
		return MkHead(TZERO, tag)
	case 1:
		return append(MkHead(TBYTE, tag), byte(v))
	case 2:
		return append(MkHead(TSHORT, tag), byte(v>>8), byte(v))
	case 4:
		return append(MkHead(TINT, tag), byte(v>>24), byte(v>>16), byte(v>>8), byte(v))
	}
	x := make([]byte, 8)
	binary.BigEndian.PutUint64(x, uint64(v))
	return append(MkHead(TLONG, tag), x...)
}

// mkCount32 encodes a 32-bit count (possibly negative / huge) in the narrowest width.
func MkCount(v int64) []byte { return MkInt(0, v, true, nil) }

// mkField builds a random well-formed field of wire type ty under tag (nested up to depth).
func MkField(rng *rand.Rand, ty, tag, depth int) []byte {
	h := MkHead(ty, tag)
	rb := func(n int) []byte { x := make([]byte, n); rng.Read(x); return x }
	sub := func(tag int) []byte {
		var tys []int
		if depth > 0 {
			tys = []int{TBYTE, TSHORT, TINT, TLONG, TFLOAT, TDOUBLE, TSTR1, TSTR4, TMAP, TLIST, TSB, TZERO, TSL}
		} else {
			tys = []int{TBYTE, TSHORT, TINT, TLONG, TFLOAT, TDOUBLE, TSTR1, TZERO}
		}
		return MkField(rng, tys[rng.Intn(len(tys))], tag, depth-1)
	}
	switch ty {
	case TBYTE:
		return append(h, rb(1)...)
	case TSHORT:
		return append(h, rb(2)...)
	case TINT, TFLOAT:
		return append(h, rb(4)...)
	case TLONG, TDOUBLE:
		return append(h, rb(8)...)
	case TZERO:
		return h
	case TSTR1:
		n := []int{0, 1, 3, 255}[rng.Intn(4)]
		return append(append(h, byte(n)), rb(n)...)
	case TSTR4:
		n := []int{0, 2, 256, 300}[rng.Intn(4)]
		return append(append(h, byte(n>>24), byte(n>>16), byte(n>>8), byte(n)), rb(n)...)
	case TLIST:
		n := rng.Intn(4)
		out := append(h, MkCount(int64(n))...)
		for i := 0; i < n; i++ {
			out = append(out, sub(0)...)
		}
		return out
	case TMAP:
		n := rng.Intn(3)
		out := append(h, MkCount(int64(n))...)
		for i := 0; i < n; i++ {
			out = append(out, sub(0)...)
			out = append(out, sub(1)...)
		}
		return out
	case TSL:
		n := []int{0, 1, 5, 256}[rng.Intn(4)]
		out := append(h, MkHead(TBYTE, 0)...)
		out = append(out, MkCount(int64(n))...)
		return append(out, rb(n)...)
	case TSB:
		out := h
		t := 0
		for i := rng.Intn(4); i > 0; i-- {
			t += rng.Intn(3)
			if rng.Intn(6) == 0 {
				t += 14 // extended tags inside nested structs
			}
			if t > 255 {
				break
			}
			out = append(out, sub(t)...)
			t++
		}
		return append(out, MkHead(TSE, 0)...)
	}
	panic("mkField")
}
