// Package tr is the trace recorder of the conformance harness: one ndjson event per line,
// ordered by a sequence number taken under the recorder's lock.
package tr

import (
	"bufio"
	"encoding/json"
	"os"
	"sync"
)

// Ev is one event; fields are free-form but "e" (event name) is always present.
type Ev map[string]interface{}

// Rec records events of one run.
type Rec struct {
	mu     sync.Mutex
	evs    []Ev
	closed bool
}

func New() *Rec { return &Rec{} }

// Emit appends an event (dropped after Close, so goroutines leaked by a run cannot pollute the next).
func (r *Rec) Emit(e string, kv ...interface{}) {
	ev := Ev{"e": e}
	for i := 0; i+1 < len(kv); i += 2 {
		ev[kv[i].(string)] = kv[i+1]
	}
	r.mu.Lock()
	if !r.closed {
		r.evs = append(r.evs, ev)
	}
	r.mu.Unlock()
}

// Close stops recording and returns the events.
func (r *Rec) Close() []Ev {
	r.mu.Lock()
	defer r.mu.Unlock()
	r.closed = true
	return r.evs
}

// Len returns the number of events so far.
func (r *Rec) Len() int {
	r.mu.Lock()
	defer r.mu.Unlock()
	return len(r.evs)
}

// Writer writes ndjson files.
type Writer struct {
	f *os.File
	w *bufio.Writer
	N int
}

func Create(path string) (*Writer, error) {
	f, err := os.Create(path)
	if err != nil {
		return nil, err
	}
	return &Writer{f: f, w: bufio.NewWriterSize(f, 1<<20)}, nil
}

func (w *Writer) Write(v interface{}) error {
	b, err := json.Marshal(v)
	if err != nil {
		return err
	}
	w.N++
	w.w.Write(b)
	return w.w.WriteByte('\n')
}

func (w *Writer) Close() error {
	if err := w.w.Flush(); err != nil {
		return err
	}
	return w.f.Close()
}
