module verifharness

go 1.23

toolchain go1.23.5

require (
	github.com/TarsCloud/TarsGo v0.0.0
	pgregory.net/rapid v1.3.0
)

require go.uber.org/automaxprocs v1.5.2 // indirect

replace github.com/TarsCloud/TarsGo => /repo
