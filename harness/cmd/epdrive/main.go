// epdrive drives the real endpoint package for C18 (endpoint strings).
//
//	epdrive -cases cases.ndjson -out recs.ndjson -seed N [-rnd N] [-mal N] [-short 4]
//
// cases.ndjson is written by TLC (spec/Endpoint/Gen_Endpoint.tla): abstract inputs (protocol word, option
// tokens, set id) with the endpoint the reference expects.  Every case is rendered as text (one canonical
// rendering, one with seeded extra blanks), parsed with the real endpoint.Parse, converted with the real
// Endpoint2tars / Tars2endpoint, and everything observed is recorded as one ndjson line per rendering.
// Nothing is judged here: Oracle_Endpoint.tla judges the records.  Panics are recovered and recorded.
package main

import (
	"bufio"
	"encoding/json"
	"flag"
	"fmt"
	"hash/fnv"
	"math/rand"
	"os"
	"regexp"
	"strconv"
	"strings"

	"github.com/TarsCloud/TarsGo/tars/protocol/res/endpointf"
	"github.com/TarsCloud/TarsGo/tars/util/endpoint"
	"verifharness/internal/tr"
)

type tok struct {
	O string `json:"o"`
	S string `json:"s"`
	N int    `json:"n"`
}

// epJ is the projection of endpoint.Endpoint that crosses to TLC.
type epJ struct {
	Host    string `json:"host"`
	Port    int32  `json:"port"`
	Timeout int32  `json:"timeout"`
	Kind    int32  `json:"kind"`
	Grid    int32  `json:"grid"`
	Qos     int32  `json:"qos"`
	Weight  int32  `json:"weight"`
	Wtype   int32  `json:"wtype"`
	Auth    int32  `json:"auth"`
	Setid   string `json:"setid"`
	Bind    string `json:"bind"`
	Proto   string `json:"proto"`
	Key     string `json:"key"`
	Str     string `json:"str"`
}

// efJ is the projection of endpointf.EndpointF.
type efJ struct {
	Host    string `json:"host"`
	Port    int32  `json:"port"`
	Timeout int32  `json:"timeout"`
	Istcp   int32  `json:"istcp"`
	Grid    int32  `json:"grid"`
	Qos     int32  `json:"qos"`
	Weight  int32  `json:"weight"`
	Wtype   int32  `json:"wtype"`
	Auth    int32  `json:"auth"`
	Setid   string `json:"setid"`
}

type expJ struct {
	Host    string `json:"host"`
	Port    int32  `json:"port"`
	Timeout int32  `json:"timeout"`
	Kind    int32  `json:"kind"`
	Grid    int32  `json:"grid"`
	Qos     int32  `json:"qos"`
	Weight  int32  `json:"weight"`
	Wtype   int32  `json:"wtype"`
	Auth    int32  `json:"auth"`
	Setid   string `json:"setid"`
	Bind    string `json:"bind"`
	Net     string `json:"net"`
	Key     string `json:"key"`
}

type caseJ struct {
	Cls   string `json:"cls"`
	Proto string `json:"proto"`
	Opts  []tok  `json:"opts"`
	Sid   string `json:"sid"`
	E     *epJ   `json:"e"`
	Exp   expJ   `json:"exp"`
	Text  string `json:"text"` // replay only: the exact text to parse instead of the renderings
}

// rec is one observation.  Which observation fields are present depends on the class (the oracle reads them
// by class); within a class the record shape is fixed.
type rec struct {
	Cls   string `json:"cls"` // opt | conv | mal | short | rnd
	ID    int    `json:"id"`
	Gen   string `json:"gen,omitempty"`
	Case  int    `json:"case,omitempty"`
	Var   int    `json:"var"`
	Grp   int    `json:"grp"` // hash of the expected endpoint: records describing one endpoint go to one oracle shard
	How   string `json:"how,omitempty"`
	Proto string `json:"proto,omitempty"`
	Opts  []tok  `json:"opts"`
	Sid   string `json:"sid"`
	Text  string `json:"text"`
	T     []int  `json:"t"` // the input text as bytes
	Panic bool   `json:"panic"`
	Where string `json:"where"`
	Pv    string `json:"pv"`
	// observations
	Setid0 string `json:"setid0"`       // SetId as delivered by Parse, before the case's set id is attached
	E      *epJ   `json:"e,omitempty"`  // conv: the input endpoint
	P      *epJ   `json:"p,omitempty"`  // Parse(text) with the set id attached
	F      *efJ   `json:"f,omitempty"`  // Endpoint2tars(p) / Endpoint2tars(e)
	B      *epJ   `json:"b,omitempty"`  // Tars2endpoint(f)
	R      *epJ   `json:"r,omitempty"`  // Tars2endpoint(registry structure filled with the expected values)
	Rf     *efJ   `json:"rf,omitempty"` // Endpoint2tars(r)
	Rb     *epJ   `json:"rb,omitempty"` // Tars2endpoint(rf)
}

func toEpJ(e endpoint.Endpoint) *epJ {
	return &epJ{Host: e.Host, Port: e.Port, Timeout: e.Timeout, Kind: e.Istcp, Grid: e.Grid, Qos: e.Qos, Weight: e.Weight,
		Wtype: e.WeightType, Auth: e.AuthType, Setid: e.SetId, Bind: e.Bind, Proto: e.Proto, Key: e.Key, Str: e.String()}
}

func toEfJ(f endpointf.EndpointF) *efJ {
	return &efJ{Host: f.Host, Port: f.Port, Timeout: f.Timeout, Istcp: f.Istcp, Grid: f.Grid, Qos: f.Qos, Weight: f.Weight,
		Wtype: f.WeightType, Auth: f.AuthType, Setid: f.SetId}
}

var numRe = regexp.MustCompile(`[0-9]+`)

func guard(where string, r *rec, f func()) (ok bool) {
	defer func() {
		if x := recover(); x != nil {
			r.Panic = true
			r.Where = where
			r.Pv = numRe.ReplaceAllString(fmt.Sprint(x), "N")
			ok = false
		}
	}()
	f()
	return true
}

func bytesOf(s string) []int {
	out := make([]int, len(s))
	for i := 0; i < len(s); i++ {
		out[i] = int(s[i])
	}
	return out
}

func tokText(t tok) (string, string) {
	if t.O == "h" || t.O == "b" {
		return "-" + t.O, t.S
	}
	return "-" + t.O, strconv.Itoa(t.N)
}

func sep(rng *rand.Rand, v int) string {
	if v == 0 {
		return " "
	}
	n := 1 + rng.Intn(3)
	b := make([]byte, n)
	for i := range b {
		if rng.Intn(4) == 0 {
			b[i] = '\t'
		} else {
			b[i] = ' '
		}
	}
	return string(b)
}

// render writes "<proto> -o value ..." ; v = 0 single blanks, v = 1 seeded runs of blanks/tabs and maybe trailing blanks.
func render(rng *rand.Rand, proto string, opts []tok, v int) string {
	var sb strings.Builder
	sb.WriteString(proto)
	for _, t := range opts {
		o, val := tokText(t)
		sb.WriteString(sep(rng, v))
		sb.WriteString(o)
		sb.WriteString(sep(rng, v))
		sb.WriteString(val)
	}
	if v == 1 && rng.Intn(3) == 0 {
		sb.WriteString(sep(rng, v))
	}
	return sb.String()
}

func grpOf(x expJ) int {
	h := fnv.New32a()
	fmt.Fprintf(h, "%s|%d|%d|%d|%d|%d|%d|%d|%d|%s", x.Host, x.Port, x.Timeout, x.Kind, x.Grid, x.Qos, x.Weight, x.Wtype, x.Auth, x.Setid)
	return int(h.Sum32() & 0xffff)
}

func runOpt(c caseJ, ci, v int, text string) rec {
	r := rec{Cls: "opt", Gen: c.Cls, Case: ci, Var: v, Grp: grpOf(c.Exp), Proto: c.Proto, Opts: c.Opts, Sid: c.Sid, Text: text, T: bytesOf(text)}
	if r.Opts == nil {
		r.Opts = []tok{}
	}
	var p, b, rr, rb endpoint.Endpoint
	var f, rf endpointf.EndpointF
	if !guard("Parse", &r, func() { p = endpoint.Parse(text) }) {
		return r
	}
	r.Setid0 = p.SetId
	p.SetId = c.Sid
	r.P = toEpJ(p)
	if !guard("Endpoint2tars", &r, func() { f = endpoint.Endpoint2tars(p) }) {
		return r
	}
	r.F = toEfJ(f)
	if !guard("Tars2endpoint", &r, func() { b = endpoint.Tars2endpoint(f) }) {
		return r
	}
	r.B = toEpJ(b)
	// the registry's description of the same endpoint: the structure filled with the values the text names
	x := c.Exp
	fx := endpointf.EndpointF{Host: x.Host, Port: x.Port, Timeout: x.Timeout, Istcp: x.Kind, Grid: x.Grid, Qos: x.Qos,
		Weight: x.Weight, WeightType: x.Wtype, AuthType: x.Auth, SetId: x.Setid}
	if !guard("Tars2endpoint", &r, func() { rr = endpoint.Tars2endpoint(fx) }) {
		return r
	}
	r.R = toEpJ(rr)
	if !guard("Endpoint2tars", &r, func() { rf = endpoint.Endpoint2tars(rr) }) {
		return r
	}
	r.Rf = toEfJ(rf)
	if !guard("Tars2endpoint", &r, func() { rb = endpoint.Tars2endpoint(rf) }) {
		return r
	}
	r.Rb = toEpJ(rb)
	return r
}

func runConv(c caseJ, ci int) rec {
	r := rec{Cls: "conv", Gen: "conv", Case: ci, Opts: []tok{}, T: []int{}}
	in := *c.E
	e := endpoint.Endpoint{Host: in.Host, Port: in.Port, Timeout: in.Timeout, Istcp: in.Kind, Grid: in.Grid, Qos: in.Qos,
		Weight: in.Weight, WeightType: in.Wtype, AuthType: in.Auth, SetId: in.Setid, Bind: in.Bind, Proto: c.Exp.Net, Container: "c1"}
	e.Key = e.String()
	r.E = toEpJ(e)
	var f endpointf.EndpointF
	var b endpoint.Endpoint
	if !guard("Endpoint2tars", &r, func() { f = endpoint.Endpoint2tars(e) }) {
		return r
	}
	r.F = toEfJ(f)
	if !guard("Tars2endpoint", &r, func() { b = endpoint.Tars2endpoint(f) }) {
		return r
	}
	r.B = toEpJ(b)
	return r
}

func runText(cls, how, text string) rec {
	r := rec{Cls: cls, How: how, Opts: []tok{}, Text: strings.ToValidUTF8(text, "\ufffd"), T: bytesOf(text)}
	var p endpoint.Endpoint
	if guard("Parse", &r, func() { p = endpoint.Parse(text) }) {
		r.P = toEpJ(p)
		r.P.Host = strings.ToValidUTF8(r.P.Host, "\ufffd")
		r.P.Bind = strings.ToValidUTF8(r.P.Bind, "\ufffd")
		r.P.Proto = strings.ToValidUTF8(r.P.Proto, "\ufffd")
		r.P.Key = strings.ToValidUTF8(r.P.Key, "\ufffd")
		r.P.Str = r.P.Key
		if cls != "mal" {
			r.P = nil // kept only as evidence samples of the undocumented forms
		}
	}
	return r
}

var malKinds = []string{"truncate", "nonnumeric", "unknown-option", "missing-value", "leading-blank", "unknown-proto",
	"numeral", "equals-form", "double-dash", "bare-word", "dash-only", "trailing-colon"}

// mutate turns a well-formed case into a malformed (or at least undocumented) text.
func mutate(rng *rand.Rand, c caseJ, how string) string {
	opts := append([]tok{}, c.Opts...)
	words := []string{c.Proto}
	for _, t := range opts {
		o, v := tokText(t)
		words = append(words, o, v)
	}
	text := strings.Join(words, " ")
	pickVal := func() int { // index in words of some value, or -1
		if len(opts) == 0 {
			return -1
		}
		return 2 + 2*rng.Intn(len(opts))
	}
	switch how {
	case "truncate":
		return text[:rng.Intn(len(text)+1)]
	case "nonnumeric":
		if i := pickVal(); i > 0 {
			words[i] = []string{"abc", "1x", "", "-", "\uff11"}[rng.Intn(5)]
		}
	case "unknown-option":
		i := 1 + 2*rng.Intn(len(opts)+1)
		words = append(words[:i], append([]string{"-z", "1"}, words[i:]...)...)
	case "missing-value":
		if len(words) > 1 {
			words = words[:len(words)-1]
		}
	case "leading-blank":
		return " " + text
	case "unknown-proto":
		words[0] = []string{"xyz", "TCP", "http", "tcp4", "t", "-h", "tcp-h"}[rng.Intn(7)]
	case "numeral":
		if i := pickVal(); i > 0 {
			words[i] = []string{"+5", "007", "0x1f", "2147483648", "4294967297", "1e3", "-0", "9223372036854775808", "1_0"}[rng.Intn(9)]
		}
	case "equals-form":
		if i := pickVal(); i > 0 {
			words[i-1] = words[i-1] + "=" + words[i]
			words = append(words[:i], words[i+1:]...)
		}
	case "double-dash":
		if i := pickVal(); i > 0 {
			words[i-1] = "-" + words[i-1]
		}
	case "bare-word":
		i := 1 + 2*rng.Intn(len(opts)+1)
		words = append(words[:i], append([]string{"foo"}, words[i:]...)...)
	case "dash-only":
		i := 1 + 2*rng.Intn(len(opts)+1)
		words = append(words[:i], append([]string{[]string{"-", "--", "---", "-=", "-=x"}[rng.Intn(5)]}, words[i:]...)...)
	case "trailing-colon":
		return text + ":"
	}
	return strings.Join(words, " ")
}

const shortAlphabet = "tcpudsl -h1"

func shortStrings(maxLen int, emit func(string)) {
	var gen func(prefix []byte, n int)
	gen = func(prefix []byte, n int) {
		if n == 0 {
			emit(string(prefix))
			return
		}
		for i := 0; i < len(shortAlphabet); i++ {
			gen(append(prefix, shortAlphabet[i]), n-1)
		}
	}
	for n := 0; n <= maxLen; n++ {
		gen(nil, n)
	}
}

func randomString(rng *rand.Rand) string {
	switch rng.Intn(4) {
	case 0: // arbitrary bytes
		b := make([]byte, rng.Intn(25))
		for i := range b {
			b[i] = byte(rng.Intn(256))
		}
		return string(b)
	case 1: // option-ish alphabet
		const a = "tcpudsl -h1pgqwveb=0987654321\t-- "
		b := make([]byte, rng.Intn(31))
		for i := range b {
			b[i] = a[rng.Intn(len(a))]
		}
		return string(b)
	case 2: // blanks of several kinds only
		ws := []string{" ", "\t", "\n", "\r", "\v", "\f", "\u0085", "\u00a0", "\u2003"}
		var sb strings.Builder
		for i, n := 0, rng.Intn(6); i < n; i++ {
			sb.WriteString(ws[rng.Intn(len(ws))])
		}
		return sb.String()
	default: // a plausible head followed by noise words
		heads := []string{"tcp", "udp", "ssl", "tcp ", "tc", "t", "", "ssl\t"}
		ws := []string{"-h", "-p", "-t", "-w", "-v", "-e", "-b", "-g", "-q", "-x", "-", "--", "1", "-1", "a", "=", "-h=", "-p=1", "\x00", "\xff"}
		var sb strings.Builder
		sb.WriteString(heads[rng.Intn(len(heads))])
		for i, n := 0, rng.Intn(8); i < n; i++ {
			sb.WriteString(" ")
			sb.WriteString(ws[rng.Intn(len(ws))])
		}
		return sb.String()
	}
}

func main() {
	casesPath := flag.String("cases", "", "cases.ndjson written by TLC")
	outPath := flag.String("out", "recs.ndjson", "output ndjson")
	seed := flag.Int64("seed", 1, "seed for blanks, mutations and random strings")
	nRnd := flag.Int("rnd", 2000, "number of random strings")
	nMal := flag.Int("mal", 1000, "number of mutated well-formed texts")
	shortLen := flag.Int("short", 4, "all strings over the short alphabet up to this length (-1: none)")
	textsPath := flag.String("texts", "", "ndjson of {\"t\":[bytes]}: extra texts run as class mal (replay)")
	nMgr := flag.Int("mgr", 0, "direct addresses through the endpoint manager: at most this many cases beside class bind (-1: all, 0: none)")
	nAdp := flag.Int("adp", 0, "endpoint lines of server adapters read by child processes: at most this many cases beside class bind (-1: all, 0: none)")
	mgrList := flag.Bool("mgrlist", false, "replay: all cases form one address list")
	scratch := flag.String("dir", "", "scratch directory of the adapter children (default: beside -out)")
	childConf := flag.String("childconf", "", "child mode: the server configuration of this process")
	childOut := flag.String("childout", "", "child mode: where to report")
	flag.Parse()
	if *childConf != "" {
		childMain(*childConf, *childOut)
		return
	}
	// the flag package inside endpoint.Parse reports every malformed text on os.Stderr: silence it
	if dn, err := os.OpenFile(os.DevNull, os.O_WRONLY, 0); err == nil {
		os.Stderr = dn
	}
	fail := func(err error) {
		fmt.Fprintln(os.Stdout, "epdrive:", err)
		os.Exit(3)
	}
	rng := rand.New(rand.NewSource(*seed))
	w, err := tr.Create(*outPath)
	if err != nil {
		fail(err)
	}
	id := 0
	put := func(r rec) {
		id++
		r.ID = id
		if err := w.Write(r); err != nil {
			fail(err)
		}
	}
	var optCases []caseJ
	var siteCases []siteCase
	counts := map[string]int{}
	if *casesPath != "" {
		fh, err := os.Open(*casesPath)
		if err != nil {
			fail(err)
		}
		sc := bufio.NewScanner(fh)
		sc.Buffer(make([]byte, 1<<20), 1<<24)
		ci := 0
		for sc.Scan() {
			ci++
			var c caseJ
			if err := json.Unmarshal(sc.Bytes(), &c); err != nil {
				fail(fmt.Errorf("case %d: %v", ci, err))
			}
			if c.Cls == "conv" {
				if c.E == nil {
					fail(fmt.Errorf("case %d: conv without e", ci))
				}
				put(runConv(c, ci))
				counts["conv"]++
				continue
			}
			optCases = append(optCases, c)
			siteCases = append(siteCases, siteCase{c, ci})
			if c.Text != "" {
				put(runOpt(c, ci, 0, c.Text))
				counts["opt"]++
				continue
			}
			for v := 0; v <= 1; v++ {
				text := render(rng, c.Proto, c.Opts, v)
				if v == 1 && len(c.Opts) == 0 && text == c.Proto {
					continue // nothing to vary
				}
				put(runOpt(c, ci, v, text))
				counts["opt"]++
			}
		}
		if err := sc.Err(); err != nil {
			fail(err)
		}
		fh.Close()
	}
	if len(siteCases) > 0 && (*nMgr != 0 || *nAdp != 0) {
		if *scratch == "" {
			*scratch = *outPath + ".children"
		}
		putSite := func(r siteRec) {
			id++
			r.ID = id
			if err := w.Write(r); err != nil {
				fail(err)
			}
		}
		// own generator: the renderings of the opt records do not depend on which sites are run
		if err := runSites(rand.New(rand.NewSource(*seed*7919+11)), siteCases, *nMgr, *nAdp, *mgrList, *scratch, putSite, counts); err != nil {
			fail(err)
		}
		os.RemoveAll(*scratch)
	}
	if len(optCases) > 0 {
		for i := 0; i < *nMal; i++ {
			c := optCases[rng.Intn(len(optCases))]
			how := malKinds[i%len(malKinds)]
			put(runText("mal", how, mutate(rng, c, how)))
			counts["mal"]++
		}
	}
	if *textsPath != "" {
		fh, err := os.Open(*textsPath)
		if err != nil {
			fail(err)
		}
		sc := bufio.NewScanner(fh)
		sc.Buffer(make([]byte, 1<<20), 1<<24)
		for sc.Scan() {
			var x struct {
				T []int `json:"t"`
			}
			if err := json.Unmarshal(sc.Bytes(), &x); err != nil {
				fail(err)
			}
			b := make([]byte, len(x.T))
			for i, v := range x.T {
				b[i] = byte(v)
			}
			put(runText("mal", "replay", string(b)))
			counts["mal"]++
		}
		fh.Close()
	}
	if *shortLen >= 0 {
		shortStrings(*shortLen, func(s string) {
			put(runText("short", "", s))
			counts["short"]++
		})
	}
	for i := 0; i < *nRnd; i++ {
		put(runText("rnd", "", randomString(rng)))
		counts["rnd"]++
	}
	if err := w.Close(); err != nil {
		fail(err)
	}
	b, _ := json.Marshal(counts)
	fmt.Println(string(b))
}
