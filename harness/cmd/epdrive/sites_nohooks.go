//go:build !c17hooks

package main

const hooked = false

func transportOf() map[string][2]string { return map[string][2]string{} }
