// The sites that USE a parsed endpoint (C18: "as seen through" the endpoint manager and the application):
//
//	mgr   a direct object address "Obj@<text>[:<text>...]" given to tars.NewServantProxy (-> GetManager ->
//	      newEndpointManager -> endpoint.Parse of every part); what the manager then holds is read with
//	      ServantProxy.Endpoints().  Beside it the same object resolved through a registry that describes the
//	      endpoint(s) the text names (the structure filled with the expected values): the manager's endpoints on
//	      that path.  Both through the public API only.
//	adp   the endpoint line of a server adapter ("endpoint=<text>" inside /tars/application/server/<Adapter>) and the
//	      administration endpoint ("local=<text>"), read by a fresh process as its server configuration
//	      (tars.ServerConfigPath / GetServerConfig -> parseServerConfig); the stored adapter endpoint, what the
//	      application would announce to a registry for it (Endpoint2tars, as tars/registry.go does) and back.
//
// Nothing is judged here: Oracle_Endpoint.tla judges the records against Endpoint!Parse of the tokens.
package main

import (
	"bytes"
	"context"
	"encoding/json"
	"fmt"
	"math/rand"
	"os"
	"os/exec"
	"path/filepath"
	"sort"
	"strings"
	"sync"
	"time"

	"github.com/TarsCloud/TarsGo/tars"
	"github.com/TarsCloud/TarsGo/tars/protocol/res/endpointf"
	"github.com/TarsCloud/TarsGo/tars/registry"
	"github.com/TarsCloud/TarsGo/tars/util/endpoint"
)

type partJ struct {
	Proto string `json:"proto"`
	Opts  []tok  `json:"opts"`
	Sid   string `json:"sid"`
	Case  int    `json:"case"`
	Text  string `json:"text"`
}

// siteRec is one observation of class mgr or adp.
type siteRec struct {
	Cls   string `json:"cls"` // mgr | adp
	ID    int    `json:"id"`
	Gen   string `json:"gen"`
	Case  int    `json:"case"`
	Site  string `json:"site"` // mgr: direct-address | address-list; adp: adapter | local
	Text  string `json:"text"`
	T     []int  `json:"t"`
	Panic bool   `json:"panic"`
	Where string `json:"where"`
	Pv    string `json:"pv"`
	// mgr
	Parts []partJ `json:"parts"`
	D     []*epJ  `json:"d"` // the manager's endpoints for the direct address
	R     []*epJ  `json:"r"` // the manager's endpoints when the registry describes the same endpoint(s)
	// adp
	Proto  string `json:"proto"`
	Opts   []tok  `json:"opts"`
	Sid    string `json:"sid"`
	A      *epJ   `json:"a,omitempty"` // the adapter endpoint as stored by the application
	F      *efJ   `json:"f,omitempty"` // what it announces to a registry: Endpoint2tars(a)
	B      *epJ   `json:"b,omitempty"` // the announcement as a client reads it: Tars2endpoint(f)
	Rk     string `json:"rk"`          // key of the registry's description of the endpoint the line names
	Hooked bool   `json:"hooked"`      // listener address observed (test-only export present)
	Addr   string `json:"addr"`
	TProto string `json:"tproto"`
}

func (s *siteRec) guard(where string, f func()) (ok bool) {
	defer func() {
		if x := recover(); x != nil {
			s.Panic, s.Where = true, where
			s.Pv = numRe.ReplaceAllString(fmt.Sprint(x), "N")
			ok = false
		}
	}()
	f()
	return true
}

// ---------------------------------------------------------------- mgr

// fakeRegistry answers every query for an object with the list filed under its name.
type fakeRegistry struct {
	mu sync.Mutex
	m  map[string][]endpointf.EndpointF
}

func (r *fakeRegistry) Registry(context.Context, *registry.ServantInstance) error   { return nil }
func (r *fakeRegistry) Deregister(context.Context, *registry.ServantInstance) error { return nil }
func (r *fakeRegistry) get(id string) []registry.Endpoint {
	r.mu.Lock()
	defer r.mu.Unlock()
	return append([]endpointf.EndpointF(nil), r.m[id]...)
}
func (r *fakeRegistry) QueryServant(_ context.Context, id string) ([]registry.Endpoint, []registry.Endpoint, error) {
	return r.get(id), nil, nil
}
func (r *fakeRegistry) QueryServantBySet(_ context.Context, id, _ string) ([]registry.Endpoint, []registry.Endpoint, error) {
	return r.get(id), nil, nil
}

type mgrEnv struct {
	reg  *fakeRegistry
	comm *tars.Communicator
	n    int
}

func newMgrEnv() *mgrEnv {
	reg := &fakeRegistry{m: map[string][]endpointf.EndpointF{}}
	return &mgrEnv{reg: reg, comm: tars.NewCommunicator(tars.Registrar(reg))}
}

func expF(x expJ) endpointf.EndpointF {
	return endpointf.EndpointF{Host: x.Host, Port: x.Port, Timeout: x.Timeout, Istcp: x.Kind, Grid: x.Grid, Qos: x.Qos,
		Weight: x.Weight, WeightType: x.Wtype, AuthType: x.Auth, SetId: x.Setid}
}

func epList(ps []*endpoint.Endpoint) []*epJ {
	out := make([]*epJ, 0, len(ps))
	for _, p := range ps {
		out = append(out, toEpJ(*p))
	}
	return out
}

// runMgr: one object, once by direct address (the texts joined with ':'), once through the registry.
func (m *mgrEnv) run(cs []caseJ, cis []int, texts []string) siteRec {
	m.n++
	obj := fmt.Sprintf("V.Ep.Obj%d", m.n)
	addr := strings.Join(texts, ":")
	r := siteRec{Cls: "mgr", Gen: cs[0].Cls, Case: cis[0], Site: "direct-address", Text: addr, T: bytesOf(addr),
		Parts: make([]partJ, 0, len(cs)), D: []*epJ{}, R: []*epJ{}, Opts: []tok{}}
	if len(cs) > 1 {
		r.Site = "address-list"
	}
	fs := make([]endpointf.EndpointF, 0, len(cs))
	for i, c := range cs {
		o := c.Opts
		if o == nil {
			o = []tok{}
		}
		r.Parts = append(r.Parts, partJ{Proto: c.Proto, Opts: o, Sid: c.Sid, Case: cis[i], Text: texts[i]})
		fs = append(fs, expF(c.Exp))
	}
	if !r.guard("NewServantProxy", func() { r.D = epList(tars.NewServantProxy(m.comm, obj+"@"+addr).Endpoints()) }) {
		return r
	}
	m.reg.mu.Lock()
	m.reg.m[obj] = fs
	m.reg.mu.Unlock()
	r.guard("NewServantProxy-registry", func() { r.R = epList(tars.NewServantProxy(m.comm, obj).Endpoints()) })
	m.reg.mu.Lock()
	delete(m.reg.m, obj)
	m.reg.mu.Unlock()
	return r
}

// ---------------------------------------------------------------- adp

type adpItem struct {
	c    caseJ
	ci   int
	text string
	site string
}

type childAdapter struct {
	Name   string `json:"name"`
	A      *epJ   `json:"a"`
	F      *efJ   `json:"f"`
	B      *epJ   `json:"b"`
	Addr   string `json:"addr"`
	TProto string `json:"tproto"`
}

type childOut struct {
	Loaded   bool           `json:"loaded"`
	Hooked   bool           `json:"hooked"`
	Adapters []childAdapter `json:"adapters"`
}

// childMain: the process whose server configuration the file is.
func childMain(conf, out string) {
	tars.ServerConfigPath = conf
	s := tars.GetServerConfig()
	o := childOut{Loaded: tars.GetConf() != nil, Hooked: hooked, Adapters: []childAdapter{}}
	tc := transportOf()
	for name, a := range s.Adapters {
		f := endpoint.Endpoint2tars(a.Endpoint) // tars/registry.go: the Endpoint of the announced ServantInstance
		b := endpoint.Tars2endpoint(f)
		ca := childAdapter{Name: name, A: toEpJ(a.Endpoint), F: toEfJ(f), B: toEpJ(b)}
		if t, ok := tc[a.Obj]; ok {
			ca.Addr, ca.TProto = t[0], t[1]
		}
		o.Adapters = append(o.Adapters, ca)
	}
	sort.Slice(o.Adapters, func(i, j int) bool { return o.Adapters[i].Name < o.Adapters[j].Name })
	b, err := json.Marshal(o)
	if err == nil {
		err = os.WriteFile(out, b, 0o600)
	}
	if err != nil {
		fmt.Fprintln(os.Stdout, "epdrive child:", err)
		os.Exit(3)
	}
	os.Exit(0)
}

func adapterName(i int) string { return fmt.Sprintf("A%dAdapter", i) }

// confText: a server configuration whose adapters carry the endpoint lines; item 0 is the administration endpoint
// when its site is "local".
func confText(items []adpItem) string {
	var sb strings.Builder
	sb.WriteString("<tars>\n<application>\n<server>\napp=V\nserver=Ep\nlocalip=127.0.0.1\n")
	for i, it := range items {
		if it.site == "local" {
			sb.WriteString("local=" + it.text + "\n")
			continue
		}
		fmt.Fprintf(&sb, "<%s>\nendpoint=%s\nservant=V.Ep.O%d\nprotocol=tars\nthreads=1\n</%s>\n", adapterName(i), it.text, i, adapterName(i))
	}
	sb.WriteString("</server>\n</application>\n</tars>\n")
	return sb.String()
}

type adpRunner struct {
	self string
	dir  string
	n    int
	mu   sync.Mutex
}

// runChunk returns one record per item; a child that dies is bisected down to the item that kills it.
func (a *adpRunner) runChunk(items []adpItem) ([]siteRec, error) {
	a.mu.Lock()
	a.n++
	d := filepath.Join(a.dir, fmt.Sprintf("adp%d", a.n))
	a.mu.Unlock()
	if err := os.MkdirAll(d, 0o700); err != nil {
		return nil, err
	}
	defer os.RemoveAll(d)
	cf, of := filepath.Join(d, "server.conf"), filepath.Join(d, "out.json")
	if err := os.WriteFile(cf, []byte(confText(items)), 0o600); err != nil {
		return nil, err
	}
	var es string
	died := false
	for attempt := 0; attempt < 3; attempt++ {
		ctx, cancel := context.WithTimeout(context.Background(), 90*time.Second)
		cmd := exec.CommandContext(ctx, a.self, "-childconf", cf, "-childout", of)
		cmd.Dir = d
		var eb bytes.Buffer
		cmd.Stdout, cmd.Stderr = &eb, &eb
		err := cmd.Run()
		timedOut := ctx.Err() != nil
		cancel()
		if timedOut {
			es = "child did not finish in 90 s"
			continue
		}
		if err != nil {
			es = eb.String()
			if strings.Contains(es, "panic:") || strings.Contains(es, "goroutine ") {
				died = true
				break
			}
			return nil, fmt.Errorf("adapter child failed: %v: %.400s", err, es)
		}
		died, es = false, ""
		break
	}
	if !died && es != "" {
		return nil, fmt.Errorf("adapter child: %s", es)
	}
	if died {
		if len(items) == 1 {
			it := items[0]
			r := adpRec(it)
			r.Panic, r.Where = true, "parseServerConfig"
			if i := strings.Index(es, "panic:"); i >= 0 {
				es = es[i:]
			}
			if j := strings.IndexByte(es, '\n'); j > 0 {
				es = es[:j]
			}
			r.Pv = numRe.ReplaceAllString(es, "N")
			return []siteRec{r}, nil
		}
		h := len(items) / 2
		l, err := a.runChunk(items[:h])
		if err != nil {
			return nil, err
		}
		r, err := a.runChunk(items[h:])
		if err != nil {
			return nil, err
		}
		return append(l, r...), nil
	}
	raw, err := os.ReadFile(of)
	if err != nil {
		return nil, err
	}
	var o childOut
	if err := json.Unmarshal(raw, &o); err != nil {
		return nil, err
	}
	if !o.Loaded {
		return nil, fmt.Errorf("adapter child did not load its configuration:\n%.600s", confText(items))
	}
	by := map[string]childAdapter{}
	for _, ca := range o.Adapters {
		by[ca.Name] = ca
	}
	out := make([]siteRec, 0, len(items))
	for i, it := range items {
		name := adapterName(i)
		if it.site == "local" {
			name = "AdminAdapter"
		}
		ca, ok := by[name]
		if !ok {
			return nil, fmt.Errorf("adapter %s of the configuration is not among the application's adapters", name)
		}
		r := adpRec(it)
		r.A, r.F, r.B, r.Hooked, r.Addr, r.TProto = ca.A, ca.F, ca.B, o.Hooked, ca.Addr, ca.TProto
		out = append(out, r)
	}
	return out, nil
}

func adpRec(it adpItem) siteRec {
	o := it.c.Opts
	if o == nil {
		o = []tok{}
	}
	r := siteRec{Cls: "adp", Gen: it.c.Cls, Case: it.ci, Site: it.site, Text: it.text, T: bytesOf(it.text), Proto: it.c.Proto,
		Opts: o, Sid: it.c.Sid, Parts: []partJ{}, D: []*epJ{}, R: []*epJ{}}
	r.guard("Tars2endpoint", func() { r.Rk = endpoint.Tars2endpoint(expF(it.c.Exp)).Key })
	return r
}

// ---------------------------------------------------------------- selection

type siteCase struct {
	c  caseJ
	ci int
}

// pickSites: every case of class bind, and an even sample of at most n of the other eligible ones.
func pickSites(all []siteCase, n int, ok func(caseJ) bool) []siteCase {
	var must, rest []siteCase
	for _, sc := range all {
		if !ok(sc.c) {
			continue
		}
		if sc.c.Cls == "bind" || sc.c.Text != "" {
			must = append(must, sc)
		} else if sc.c.Cls != "exh" || len(sc.c.Opts) <= 1 {
			rest = append(rest, sc)
		}
	}
	if n >= 0 && len(rest) > n {
		out := make([]siteCase, 0, n)
		for i := 0; i < n; i++ {
			out = append(out, rest[i*len(rest)/n])
		}
		rest = out
	}
	return append(must, rest...)
}

func hasColon(c caseJ) bool {
	for _, t := range c.Opts {
		if strings.Contains(t.S, ":") {
			return true
		}
	}
	return strings.Contains(c.Text, ":")
}

func siteText(rng *rand.Rand, c caseJ, ci int) string {
	if c.Text != "" {
		return c.Text
	}
	return render(rng, c.Proto, c.Opts, ci%2)
}

// runSites appends the mgr and adp records.
func runSites(rng *rand.Rand, all []siteCase, nMgr, nAdp int, asList bool, dir string, put func(siteRec), counts map[string]int) error {
	if nMgr != 0 {
		env := newMgrEnv()
		// a direct address list is split on ':' -- a host with a colon cannot be written there
		sel := pickSites(all, nMgr, func(c caseJ) bool { return !hasColon(c) })
		if asList && len(sel) > 1 {
			cs, cis, texts := []caseJ{}, []int{}, []string{}
			for _, sc := range sel {
				cs, cis, texts = append(cs, sc.c), append(cis, sc.ci), append(texts, siteText(rng, sc.c, sc.ci))
			}
			put(env.run(cs, cis, texts))
			counts["mgr"]++
		} else {
			for i, sc := range sel {
				put(env.run([]caseJ{sc.c}, []int{sc.ci}, []string{siteText(rng, sc.c, sc.ci)}))
				counts["mgr"]++
				if i%7 == 3 && len(sel) > 3 { // address lists of two or three members
					k := 2 + rng.Intn(2)
					cs, cis, texts := []caseJ{}, []int{}, []string{}
					for j := 0; j < k; j++ {
						o := sel[(i+j*(1+rng.Intn(len(sel)-1)))%len(sel)]
						cs, cis, texts = append(cs, o.c), append(cis, o.ci), append(texts, siteText(rng, o.c, o.ci))
					}
					put(env.run(cs, cis, texts))
					counts["mgr"]++
				}
			}
		}
	}
	if nAdp != 0 {
		self, err := os.Executable()
		if err != nil {
			return err
		}
		if dir, err = filepath.Abs(dir); err != nil {
			return err
		}
		ar := &adpRunner{self: self, dir: dir}
		sel := pickSites(all, nAdp, func(c caseJ) bool { return true })
		var items []adpItem
		for _, sc := range sel {
			items = append(items, adpItem{c: sc.c, ci: sc.ci, text: siteText(rng, sc.c, sc.ci), site: "adapter"})
		}
		const per = 150
		var chunks [][]adpItem
		for a := 0; a < len(items); a += per {
			b := a + per
			if b > len(items) {
				b = len(items)
			}
			ch := append([]adpItem{}, items[a:b]...)
			// the administration endpoint of this process: one of the chunk's lines once more
			l := ch[rng.Intn(len(ch))]
			l.site = "local"
			chunks = append(chunks, append([]adpItem{l}, ch...))
		}
		res := make([][]siteRec, len(chunks))
		errs := make([]error, len(chunks))
		var wg sync.WaitGroup
		sem := make(chan struct{}, 4)
		for i := range chunks {
			wg.Add(1)
			sem <- struct{}{}
			go func(i int) {
				defer wg.Done()
				defer func() { <-sem }()
				res[i], errs[i] = ar.runChunk(chunks[i])
			}(i)
		}
		wg.Wait()
		for i := range chunks {
			if errs[i] != nil {
				return errs[i]
			}
			for _, r := range res[i] {
				put(r)
				counts["adp"]++
			}
		}
	}
	return nil
}
