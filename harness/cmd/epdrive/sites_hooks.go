//go:build c17hooks

package main

// Built with the tag c17hooks when /repo carries tars/verif_export_conf.go: the listener address computed per servant
// object while the server configuration was read (an observation; the statement of C18 does not speak about it).

import "github.com/TarsCloud/TarsGo/tars"

const hooked = true

func transportOf() map[string][2]string {
	out := map[string][2]string{}
	for obj, c := range tars.VerifServerConfs() {
		out[obj] = [2]string{c.Address, c.Proto}
	}
	return out
}
