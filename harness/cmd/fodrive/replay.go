package main

import (
	"context"
	"strings"
	"encoding/json"
	"fmt"
	"math/rand"
	"sort"
	"sync/atomic"
	"time"

	"github.com/TarsCloud/TarsGo/tars"
	"github.com/TarsCloud/TarsGo/tars/protocol/res/requestf"
	"github.com/TarsCloud/TarsGo/tars/util/current"
)

// ---- the script (spec/Failover/Gen_Failover.tla, operator Proj)

type HRec struct {
	Status                bool
	Fail, LastFail, Send  int
	ASucc, ABlock, ACheck int
	AKeep                 int
}

func (h *HRec) UnmarshalJSON(b []byte) error {
	var raw []json.RawMessage
	if err := json.Unmarshal(b, &raw); err != nil {
		return err
	}
	if len(raw) != 8 {
		return fmt.Errorf("health record needs 8 fields, has %d", len(raw))
	}
	if err := json.Unmarshal(raw[0], &h.Status); err != nil {
		return err
	}
	for i, p := range []*int{&h.Fail, &h.LastFail, &h.Send, &h.ASucc, &h.ABlock, &h.ACheck, &h.AKeep} {
		if err := json.Unmarshal(raw[i+1], p); err != nil {
			return err
		}
	}
	return nil
}

type Flight struct {
	Ep    int
	Probe bool
}

func (f *Flight) UnmarshalJSON(b []byte) error {
	var raw []json.RawMessage
	if err := json.Unmarshal(b, &raw); err != nil {
		return err
	}
	if len(raw) != 2 {
		return fmt.Errorf("flight needs 2 fields")
	}
	if err := json.Unmarshal(raw[0], &f.Ep); err != nil {
		return err
	}
	return json.Unmarshal(raw[1], &f.Probe)
}

type State struct {
	H  []HRec   `json:"h"`
	Cr []int    `json:"cr"`
	Ac []int    `json:"ac"`
	Pq []int    `json:"pq"`
	Li []int    `json:"li"`
	Fl []Flight `json:"fl"`
	Up []int    `json:"up"` // endpoints whose server listens (absent in behaviours recorded before faults were modelled: all)
	Rg []int    `json:"rg"` // the registry's active list as installed in the manager (absent in behaviours recorded before refreshes were modelled: not compared)
}

type Step struct {
	A     string `json:"a"`
	C     int    `json:"c"`
	E     int    `json:"e"`
	K     string `json:"k"`
	Ok    bool   `json:"ok"`
	D     int    `json:"d"`
	Cands []int  `json:"cands"` // Select / Refused: the endpoints the model allows; Refresh: the active list of the registry's answer
	Ina   []int  `json:"ina"`   // Refresh: the inactive list of the registry's answer (and ok: the endpoints carry another weight than before)
	St    State  `json:"st"`
}

type Behaviour struct {
	N     int   `json:"n"`    // endpoints (scripted servers) the registry may ever name
	Reg0  []int `json:"reg0"` // the endpoints the registry names at first (absent: all)
	Calls int   `json:"calls"`
	// Overlap: status checks may run while a call is in flight.  Then a healthy endpoint can sit in the probe
	// queue (see Failover.tla, ProbesTargetBlocked) and activeEp can hold it twice; the selectors stay the
	// reference for "in rotation" and activeEp is compared as an observation only.
	Overlap bool `json:"overlap"`
	// Stale: the behaviour follows the code as it is through registry answers that withdraw an endpoint while an admission for
	// its probe is queued (Failover.tla, constant Stale).  A withdrawn endpoint that is named again and then reinstated by the
	// probe admitted earlier is in activeEp twice (the selectors refuse duplicates): activeEp is an observation there as well.
	Stale bool `json:"stale"`
	// KeepAlive: the behaviour assumes client keep-alive with a 5 s interval (fodrive -keepalive-ms 5000)
	KeepAlive bool   `json:"keepalive"`
	Steps     []Step `json:"steps"`
}

// thresholds of tars/setting.go = saturation values of the model's ages
const (
	capSucc  = 5
	capBlock = 30
	capCheck = 60
	capKeep  = 5
	capFail  = 5
)

// ---- result

type Result struct {
	Idx       int            `json:"idx"`
	N         int            `json:"n"`
	Mode      string         `json:"mode"`
	Outcome   string         `json:"outcome"` // ok | truncated | diverged | slow | error
	StepsDone int            `json:"steps_done"`
	Step      int            `json:"step"`
	Action    string         `json:"action,omitempty"`
	Field     string         `json:"field,omitempty"`
	Expected  string         `json:"expected,omitempty"`
	Got       string         `json:"got,omitempty"`
	Why       string         `json:"why,omitempty"`
	Attempts  int            `json:"attempts"`
	Flaky     []string       `json:"flaky,omitempty"` // outcomes of attempts that did not reproduce
	Stats     map[string]int `json:"stats"`
	WallMs    int64          `json:"wall_ms"`
}

func (r *Result) divergedAt(step int, action, field, exp, got, why string) *Result {
	r.Outcome, r.Step, r.Action, r.Field, r.Expected, r.Got, r.Why = "diverged", step, action, field, exp, got, why
	return r
}

var objSeq int64

type slot struct {
	busy   bool
	cancel context.CancelFunc
	done   chan error
	arr    *arrival
	fn     string
}

type run struct {
	b        *Behaviour
	sp       *tars.ServantProxy
	servers  []*server // index = model endpoint - 1
	registry *scriptedRegistry
	reg      []int // the registry's active list as the model has it installed (fallback choice)
	// weightChanged: the registry has named endpoints with another weight than the one their adapters were created with.  addAliveEp
	// takes the endpoint from the ADAPTER (old weight) while checkStatus removes from activeEp by comparing whole endpoint values
	// taken from the registry's list (new weight): a reinstated endpoint that is blocked again stays in the activeEp slice.  The
	// selectors (keyed by host) are not affected and calls never go there, so from then on activeEp is an observation and the
	// selectors are the reference for "in rotation", as in the behaviours with overlapping checks.
	weightChanged bool
	byName   map[string]int
	arrivals chan *arrival
	slots    []slot
	rng      *rand.Rand
	t0       time.Time
	timeout  bool
	tms      int
	stats    map[string]int
	callSeq  int
	idx      int
	obs      []string // observations of the current comparison; counted only if the comparison succeeds
}

func replayWithRetries(idx int, b *Behaviour, timeoutMode bool, tms, attempts int) *Result {
	var first *Result
	var flaky []string
	slowTries := 0
	for a := 1; ; a++ {
		res := replayOnce(idx, b, timeoutMode, tms, int64(a))
		res.Attempts = a
		if res.Outcome == "slow" || res.Outcome == "error" {
			// the machine was too slow to keep virtual time exact, or the harness itself failed: retry a few times
			slowTries++
			if slowTries >= 3 {
				res.Flaky = flaky
				return res
			}
			continue
		}
		if res.Outcome != "diverged" {
			if first != nil {
				flaky = append(flaky, fmt.Sprintf("diverged step %d %s: %s", first.Step, first.Field, first.Why))
			}
			res.Flaky = flaky
			return res
		}
		if first == nil {
			first = res
		} else if res.Step != first.Step || res.Field != first.Field {
			flaky = append(flaky, fmt.Sprintf("diverged step %d %s: %s", res.Step, res.Field, res.Why))
		}
		if a-slowTries >= attempts {
			if len(flaky) > 0 {
				// did not reproduce identically three times: not reported as a divergence
				first.Outcome = "unstable"
			}
			first.Flaky = flaky
			first.Attempts = a
			return first
		}
	}
}

func replayOnce(idx int, b *Behaviour, timeoutMode bool, tms int, attempt int64) (res *Result) {
	res = &Result{Idx: idx, N: b.N, Mode: "cancel", Outcome: "ok", Stats: map[string]int{}}
	if timeoutMode {
		res.Mode = "timeout"
	}
	start := time.Now()
	defer func() { res.WallMs = time.Since(start).Milliseconds() }()
	r := &run{b: b, arrivals: make(chan *arrival, 64), byName: map[string]int{}, slots: make([]slot, b.Calls+1),
		rng: rand.New(rand.NewSource(int64(idx)*7919 + attempt)), timeout: timeoutMode, tms: tms, stats: res.Stats, idx: idx}
	for i := 1; i <= b.N; i++ {
		s, err := startServer(i, r.arrivals)
		if err != nil {
			res.Outcome, res.Why = "error", "listen: "+err.Error()
			return res
		}
		r.servers = append(r.servers, s)
		r.byName[s.name()] = i
	}
	defer func() {
		for i := range r.slots {
			if r.slots[i].busy && r.slots[i].cancel != nil {
				r.slots[i].cancel()
			}
		}
		for i := range r.slots {
			if r.slots[i].busy {
				select {
				case <-r.slots[i].done:
				case <-time.After(4 * time.Second):
				}
			}
		}
		if r.sp != nil {
			tars.VerifFailoverClose(r.sp)
		}
		for _, s := range r.servers {
			s.stop()
			forgetConns(s.name())
		}
	}()
	if b.Reg0 == nil {
		for i := 1; i <= b.N; i++ {
			b.Reg0 = append(b.Reg0, i)
		}
	}
	r.reg = b.Reg0
	r.registry = registryFor(r.servers, b.Reg0, int64(idx)*104729+attempt)
	defer r.registry.retire()
	comm := tars.NewCommunicator(tars.Registrar(r.registry))
	obj := fmt.Sprintf("Verif.Failover%d.Obj%d", idx, atomic.AddInt64(&objSeq, 1))
	r.sp = tars.NewServantProxy(comm, obj)
	if timeoutMode {
		r.sp.TarsSetTimeout(tms)
	} else {
		r.sp.TarsSetTimeout(3000)
	}
	reg := tars.VerifFailoverRegistry(r.sp)
	if len(reg) != len(b.Reg0) {
		res.Outcome, res.Why = "error", fmt.Sprintf("manager has %d registry endpoints, want %d", len(reg), len(b.Reg0))
		return res
	}
	for i, name := range reg {
		if r.byName[name] != b.Reg0[i] {
			res.Outcome, res.Why = "error", fmt.Sprintf("registry order: position %d is %s", i, name)
			return res
		}
	}
	r.t0 = time.Now()
	// the initial state: everything in rotation, nothing created, nothing queued
	init := State{H: make([]HRec, b.N), Fl: make([]Flight, b.Calls)}
	for i := range init.H {
		init.H[i] = HRec{Status: true, ASucc: capSucc, ABlock: capBlock, ACheck: capCheck}
		if b.KeepAlive {
			init.H[i].AKeep = capKeep
		}
	}
	init.Ac, init.Rg = b.Reg0, b.Reg0
	if f, e, g := r.compare(&init, true); f != "" {
		return res.divergedAt(-1, "Init", f, e, g, "initial state")
	}
	for i := range b.Steps {
		st := &b.Steps[i]
		if d := time.Since(r.t0); d > 3500*time.Millisecond {
			res.Outcome, res.Why, res.Step = "slow", fmt.Sprintf("%.1fs of wall time: virtual ages no longer exact", d.Seconds()), i
			return res
		}
		var f, e, g, why string
		trunc := false
		switch st.A {
		case "Select":
			f, e, g, why, trunc = r.doSelect(i, st)
		case "Refused":
			f, e, g, why, trunc = r.doRefused(i, st)
		case "CallDone":
			f, e, g, why = r.doCallDone(i, st)
		case "Down", "Up":
			f, e, g, why = r.doSetUp(i, st)
		case "Refresh":
			if why = r.doRefresh(i, st); why != "" {
				res.Outcome, res.Why, res.Step = "error", why, i
				return res
			}
		case "Check":
			tars.VerifFailoverCheckStatus(r.sp)
			r.stats["checks"]++
		case "Advance":
			tars.VerifFailoverShift(r.sp, int64(st.D))
			r.stats["advances"]++
		default:
			res.Outcome, res.Why = "error", "unknown action "+st.A
			return res
		}
		if trunc {
			res.Outcome, res.Step, res.Why = "truncated", i, why
			return res
		}
		if f != "" {
			return res.divergedAt(i, st.A, f, e, g, why)
		}
		full := !(timeoutMode && st.A == "Select") // a timed call is running: do not spend its time on dry selections
		if f, e, g := r.compare(&st.St, full); f != "" {
			if st.A == "CallDone" && st.Ok {
				// reinstatement runs in a goroutine of its own (servant.go): give it time
				deadline := time.Now().Add(2 * time.Second)
				for f != "" && time.Now().Before(deadline) {
					time.Sleep(2 * time.Millisecond)
					f, e, g = r.compare(&st.St, full)
				}
			}
			if f != "" {
				return res.divergedAt(i, st.A, f, e, g, "state after the step differs from the model's")
			}
		}
		if st.St.Rg != nil {
			r.reg = st.St.Rg
		}
		res.StepsDone = i + 1
	}
	if d := time.Since(r.t0); d > 3500*time.Millisecond {
		res.Outcome, res.Why, res.Step = "slow", fmt.Sprintf("%.1fs of wall time", d.Seconds()), len(b.Steps)
	}
	return res
}

func (r *run) name(e int) string { return r.servers[e-1].name() }

// ---- steps

func (r *run) doSelect(i int, st *Step) (field, exp, got, why string, trunc bool) {
	sl := &r.slots[st.C]
	if sl.busy {
		return "harness", "", "", "slot busy", false
	}
	probe := st.St.Fl[st.C-1].Probe
	code := uint32(r.rng.Intn(1 << 20))
	if !probe && len(st.Cands) > 1 {
		code = r.steer(st, code)
	}
	r.callSeq++
	fn := fmt.Sprintf("f%d_%d", r.idx, r.callSeq)
	ctx := current.ContextWithClientCurrent(context.Background())
	switch st.K {
	case "mod":
		current.SetClientHash(ctx, int(tars.ModHash), code)
	case "ch":
		current.SetClientHash(ctx, int(tars.ConsistentHash), code)
	}
	var cancel context.CancelFunc
	if r.timeout {
		cancel = func() {}
	} else {
		ctx, cancel = context.WithCancel(ctx)
	}
	done := make(chan error, 1)
	sp := r.sp
	go func() {
		var resp requestf.ResponsePacket
		done <- sp.TarsInvoke(ctx, 0, fn, []byte{}, nil, nil, &resp)
	}()
	*sl = slot{busy: true, cancel: cancel, done: done, fn: fn}
	r.stats["calls"]++
	if probe {
		r.stats["probe_calls"]++
	}
	// where does it arrive?
	timer := time.NewTimer(4 * time.Second)
	defer timer.Stop()
	for sl.arr == nil {
		select {
		case a := <-r.arrivals:
			if a.fn == fn {
				sl.arr = a
			}
			// anything else is a request of a call that was already given up (none is expected)
		case err := <-done:
			sl.busy = false
			if t := r.refusedBy(err); t != 0 && t != st.E && r.servers[t-1].down && inInts(st.Cands, t) {
				// the strategy chose another admissible endpoint, one that does not listen: the rest cannot be followed
				r.stats["choice_mismatch"]++
				return "", "", "", fmt.Sprintf("strategy %q chose endpoint %d, the behaviour %d (both admissible)", st.K, t, st.E), true
			}
			return "attempted", fmt.Sprintf("call sent to endpoint %d", st.E), fmt.Sprintf("call ended without reaching any endpoint: %v", err),
				"a call must be attempted on some endpoint", false
		case <-timer.C:
			cancel()
			return "attempted", fmt.Sprintf("call sent to endpoint %d", st.E), "no server received the request within 4 s", "a call must be attempted on some endpoint", false
		}
	}
	t := sl.arr.server
	if t != st.E {
		in := false
		for _, c := range st.Cands {
			if c == t {
				in = true
			}
		}
		if in {
			// the strategy chose another admissible endpoint than the behaviour: the rest cannot be followed
			r.stats["choice_mismatch"]++
			return "", "", "", fmt.Sprintf("strategy %q chose endpoint %d, the behaviour %d (both admissible)", st.K, t, st.E), true
		}
		return "target", fmt.Sprintf("one of %v", st.Cands), fmt.Sprint(t),
			fmt.Sprintf("call (%s%s) went to endpoint %d which the model does not allow", st.K, map[bool]string{true: ", probe", false: ""}[probe], t), false
	}
	if len(st.Cands) > 1 {
		r.stats["steered_ok"]++
	}
	if len(st.St.Ac) == 0 && !probe {
		r.stats["fallback_calls"]++
	}
	return "", "", "", "", false
}

func inInts(xs []int, x int) bool {
	for _, y := range xs {
		if y == x {
			return true
		}
	}
	return false
}

// refusedBy: the endpoint whose address the transport's dial error names (0: none).
func (r *run) refusedBy(err error) int {
	if err == nil {
		return 0
	}
	for e := 1; e <= r.b.N; e++ {
		if strings.Contains(err.Error(), r.name(e)+":") || strings.HasSuffix(err.Error(), r.name(e)) {
			return e
		}
	}
	return 0
}

// doSetUp: the scripted server of an endpoint stops listening (and drops its connections) or listens again.
func (r *run) doSetUp(i int, st *Step) (field, exp, got, why string) {
	if st.E < 1 || st.E > r.b.N {
		return "harness", "", "", "no such endpoint"
	}
	s := r.servers[st.E-1]
	if st.A == "Down" {
		if s.down {
			return "harness", "", "", "server is already down"
		}
		s.goDown()
		if !waitNoConns(s.name(), 2*time.Second) {
			return "harness", "", "", "the client did not notice within 2 s that the server closed its connection"
		}
		r.stats["servers_stopped"]++
	} else {
		if !s.down {
			return "harness", "", "", "server is already up"
		}
		if err := s.comeBack(); err != nil {
			return "harness", "", "", "server could not listen again: " + err.Error()
		}
		r.stats["servers_restarted"]++
	}
	if st.St.Up != nil {
		for e := 1; e <= r.b.N; e++ {
			if inInts(st.St.Up, e) == r.servers[e-1].down {
				return "harness", "", "", fmt.Sprintf("model and driver disagree about which servers listen (endpoint %d)", e)
			}
		}
	}
	return "", "", "", ""
}

// doRefresh: the registry answers with new lists from now on; the step is over when the manager's refresher has asked it and
// has finished acting on the answer.  The refresher is one goroutine: its NEXT question to this registry comes after the
// refresh that got the new answer has returned.  (Returns a harness problem, "" if none; the state is compared by the caller.)
func (r *run) doRefresh(i int, st *Step) string {
	for _, e := range append(append([]int{}, st.Cands...), st.Ina...) {
		if e < 1 || e > r.b.N {
			return "no such endpoint in the registry's answer"
		}
	}
	n0 := r.registry.answer(st.Cands, st.Ina, st.Ok)
	deadline := time.Now().Add(3 * time.Second)
	for r.registry.asked() < n0+2 {
		if time.Now().After(deadline) {
			return "the manager's refresher did not ask the registry twice within 3 s"
		}
		time.Sleep(200 * time.Microsecond)
	}
	r.stats["refreshes"]++
	if len(st.Cands) == 0 {
		r.stats["refreshes_empty_answer"]++
	}
	if st.Ok && len(st.Cands) > 0 {
		r.stats["refreshes_other_weight"]++
		r.weightChanged = true
	}
	return ""
}

// doRefused: a call that the model routes to an endpoint whose server does not listen.  The real call must be attempted there
// (the dial error names that endpoint's address, the send counter of its adapter moves) and fail at once; the state after the
// step -- in particular the failure counters -- is compared like after any other step.
func (r *run) doRefused(i int, st *Step) (field, exp, got, why string, trunc bool) {
	sl := &r.slots[st.C]
	if sl.busy {
		return "harness", "", "", "slot busy", false
	}
	if !r.servers[st.E-1].down {
		return "harness", "", "", "the behaviour refuses a call on an endpoint whose server listens", false
	}
	probe := false
	if i > 0 {
		probe = len(r.b.Steps[i-1].St.Pq) > 0
	}
	code := uint32(r.rng.Intn(1 << 20))
	if !probe && len(st.Cands) > 1 {
		code = r.steer(st, code)
	}
	before := tars.VerifFailoverHealthOf(r.sp)
	r.callSeq++
	fn := fmt.Sprintf("f%d_%d", r.idx, r.callSeq)
	ctx := current.ContextWithClientCurrent(context.Background())
	switch st.K {
	case "mod":
		current.SetClientHash(ctx, int(tars.ModHash), code)
	case "ch":
		current.SetClientHash(ctx, int(tars.ConsistentHash), code)
	}
	ctx, cancel := context.WithCancel(ctx)
	defer cancel()
	done := make(chan error, 1)
	sp := r.sp
	go func() {
		var resp requestf.ResponsePacket
		done <- sp.TarsInvoke(ctx, 0, fn, []byte{}, nil, nil, &resp)
	}()
	r.stats["calls"]++
	r.stats["refused_calls"]++
	if probe {
		r.stats["probe_calls"]++
		r.stats["refused_probe_calls"]++
	}
	timer := time.NewTimer(4 * time.Second)
	defer timer.Stop()
	kind := fmt.Sprintf("%s%s", st.K, map[bool]string{true: ", probe", false: ""}[probe])
	for {
		select {
		case a := <-r.arrivals:
			if a.fn != fn {
				continue
			}
			// a listening server has the request
			cancel()
			select {
			case <-done:
			case <-time.After(4 * time.Second):
			}
			if a.server != st.E && inInts(st.Cands, a.server) {
				r.stats["choice_mismatch"]++
				return "", "", "", fmt.Sprintf("strategy %q chose endpoint %d, the behaviour %d (both admissible)", st.K, a.server, st.E), true
			}
			return "target", fmt.Sprintf("one of %v", st.Cands), fmt.Sprint(a.server),
				fmt.Sprintf("call (%s) went to endpoint %d which the model does not allow", kind, a.server), false
		case <-timer.C:
			cancel()
			return "result", "immediate error (connection refused)", "the call neither failed nor reached a server within 4 s",
				"a call to an endpoint that does not listen fails at once", false
		case err := <-done:
			if err == nil {
				return "result", "error", "success", "no server listens on the endpoint but the call succeeded", false
			}
			t := r.refusedBy(err)
			if t == 0 {
				// the error does not name an address: which adapter counted a request?
				after := tars.VerifFailoverHealthOf(r.sp)
				for e := 1; e <= r.b.N; e++ {
					if after[r.name(e)].SendCount != before[r.name(e)].SendCount || (after[r.name(e)].Exists && !before[r.name(e)].Exists) {
						t = e
					}
				}
			}
			if t == 0 {
				return "attempted", fmt.Sprintf("call attempted on endpoint %d", st.E), fmt.Sprintf("call ended without being attempted on any endpoint: %v", err),
					"a call must be attempted on some endpoint", false
			}
			if t != st.E {
				if inInts(st.Cands, t) {
					r.stats["choice_mismatch"]++
					return "", "", "", fmt.Sprintf("strategy %q chose endpoint %d, the behaviour %d (both admissible)", st.K, t, st.E), true
				}
				return "target", fmt.Sprintf("one of %v", st.Cands), fmt.Sprint(t),
					fmt.Sprintf("call (%s) was attempted on endpoint %d which the model does not allow", kind, t), false
			}
			if len(st.Cands) > 1 {
				r.stats["steered_ok"]++
			}
			if len(st.St.Ac) == 0 && !probe {
				r.stats["fallback_calls"]++
			}
			return "", "", "", "", false
		}
	}
}

// steer positions the real strategy so that it picks the endpoint the behaviour names: a hash code for
// the hash selectors, the cursor for round robin, the seed for the random fallback.  Purely a help to follow
// the behaviour; when it does not work the behaviour is truncated, never failed.
func (r *run) steer(st *Step, code uint32) uint32 {
	want := r.name(st.E)
	if len(st.St.Ac) == 0 { // nothing in rotation: the random fallback decides
		pos := -1 // the fallback draws an index into the registry's active list as installed (host order = endpoint order)
		for k, e := range r.reg {
			if e == st.E {
				pos = k
			}
		}
		for s := int64(1); pos >= 0 && s < 4096; s++ {
			if rand.New(rand.NewSource(s)).Intn(len(r.reg)) == pos {
				tars.VerifFailoverSeedFallback(r.sp, s)
				break
			}
		}
		return code
	}
	switch st.K {
	case "mod", "ch":
		for k := uint32(0); k < 4096; k++ {
			c := code + k*2654435761
			if name, ok := tars.VerifFailoverDrySelect(r.sp, st.K, c); ok && name == want {
				return c
			}
		}
	default:
		// round robin: observe one period, then advance until the next selection is the wanted one
		var seq []string
		distinct := map[string]bool{}
		for k := 0; k < 2*r.b.N; k++ {
			name, ok := tars.VerifFailoverDrySelect(r.sp, "rr", 0)
			if !ok {
				return code
			}
			seq = append(seq, name)
			distinct[name] = true
		}
		p := len(distinct)
		for k := 0; k < 2*r.b.N; k++ {
			if seq[len(seq)-p] == want {
				break
			}
			name, _ := tars.VerifFailoverDrySelect(r.sp, "rr", 0)
			seq = append(seq, name)
		}
	}
	return code
}

func (r *run) doCallDone(i int, st *Step) (field, exp, got, why string) {
	sl := &r.slots[st.C]
	if !sl.busy || sl.arr == nil {
		return "harness", "", "", "no call in flight in this slot"
	}
	if st.Ok {
		if err := sl.arr.reply(); err != nil {
			return "harness", "", "", "scripted server could not reply: " + err.Error()
		}
	} else {
		sl.cancel() // cancel mode: the caller's context ends; timeout mode: no-op, the call runs into its timeout
	}
	var err error
	select {
	case err = <-sl.done:
	case <-time.After(5 * time.Second):
		return "harness", "", "", "TarsInvoke did not return"
	}
	sl.busy = false
	if st.Ok {
		r.stats["calls_ok"]++
		if err != nil {
			return "result", "success", "error: " + err.Error(), "the server answered but the call failed"
		}
	} else {
		r.stats["calls_failed"]++
		if err == nil {
			return "result", "error", "success", "the server never answered but the call succeeded"
		}
	}
	return "", "", "", ""
}

// ---- projection of the real objects and comparison with the model's state

func (r *run) idxSet(names []string) ([]int, bool) {
	seen := map[int]bool{}
	dup := false
	for _, n := range names {
		i := r.byName[n]
		if seen[i] {
			dup = true
		}
		seen[i] = true
	}
	out := []int{}
	for i := range seen {
		out = append(out, i)
	}
	sort.Ints(out)
	return out, dup
}

func eqInts(a, b []int) bool {
	if len(a) != len(b) {
		return false
	}
	for i := range a {
		if a[i] != b[i] {
			return false
		}
	}
	return true
}

func ageOK(model, cap int, real int64) bool {
	if model >= cap {
		return real >= int64(cap)
	}
	return real >= int64(model) && real < int64(model)+5
}

// compare returns the first differing field ("" if none), with expected and observed value.
func (r *run) compare(m *State, full bool) (field, exp, got string) {
	r.obs = r.obs[:0]
	field, exp, got = r.compare1(m, full)
	if field == "" {
		for _, o := range r.obs {
			r.stats[o]++
		}
	}
	return
}

func (r *run) compare1(m *State, full bool) (field, exp, got string) {
	health := tars.VerifFailoverHealthOf(r.sp)
	now := time.Now().Unix()
	created := []int{}
	for name := range health {
		created = append(created, r.byName[name])
	}
	sort.Ints(created)
	if m.Rg != nil {
		regNames := tars.VerifFailoverRegistry(r.sp)
		regIdx := []int{}
		for _, n := range regNames {
			regIdx = append(regIdx, r.byName[n])
		}
		if !eqInts(regIdx, m.Rg) {
			return "registry", fmt.Sprintf("registry's active list as installed %v", m.Rg), fmt.Sprint(regIdx)
		}
	}
	if !eqInts(created, m.Cr) {
		return "created", fmt.Sprint(m.Cr), fmt.Sprint(created)
	}
	for e := 1; e <= r.b.N; e++ {
		h, ok := health[r.name(e)]
		if !ok {
			continue
		}
		mh := m.H[e-1]
		pre := fmt.Sprintf("ep%d.", e)
		if h.Closed {
			return pre + "closed", "false", "true"
		}
		if h.Status != mh.Status {
			return "status", fmt.Sprintf("ep%d status=%v", e, mh.Status), fmt.Sprintf("ep%d status=%v", e, h.Status)
		}
		if int(h.FailCount) != mh.Fail {
			return "failCount", fmt.Sprintf("ep%d failCount=%d", e, mh.Fail), fmt.Sprintf("ep%d failCount=%d", e, h.FailCount)
		}
		lf := int(h.LastFailCount)
		if lf > capFail {
			lf = capFail
		}
		if lf != mh.LastFail {
			return "lastFailCount", fmt.Sprintf("ep%d min(lastFailCount,5)=%d", e, mh.LastFail), fmt.Sprintf("ep%d lastFailCount=%d", e, h.LastFailCount)
		}
		if int(h.SendCount) != mh.Send {
			return "sendCount", fmt.Sprintf("ep%d sendCount=%d", e, mh.Send), fmt.Sprintf("ep%d sendCount=%d", e, h.SendCount)
		}
		// ages, each where the health logic reads it
		type ag struct {
			name       string
			model, cap int
			real       int64
			relevant   bool
		}
		for _, a := range []ag{
			{"lastSuccessTime", mh.ASucc, capSucc, now - h.LastSuccessTime, mh.Status},
			{"lastCheckTime", mh.ACheck, capCheck, now - h.LastCheckTime, mh.Status},
			{"lastBlockTime", mh.ABlock, capBlock, now - h.LastBlockTime, !mh.Status},
			{"lastKeepAliveTime", mh.AKeep, capKeep, now - h.LastKeepAlive, r.b.KeepAlive},
		} {
			if !ageOK(a.model, a.cap, a.real) {
				if a.relevant {
					return a.name, fmt.Sprintf("ep%d age(%s)=%d (saturating at %d)", e, a.name, a.model, a.cap), fmt.Sprintf("ep%d age=%d", e, a.real)
				}
				if a.name != "lastKeepAliveTime" {
					r.obs = append(r.obs, "obs_unread_age_differs")
				}
			}
		}
	}
	act, dup := r.idxSet(tars.VerifFailoverActive(r.sp))
	if dup {
		r.obs = append(r.obs, "obs_duplicate_in_activeEp")
	}
	if !eqInts(act, m.Ac) && (r.b.Overlap || r.b.Stale) {
		r.obs = append(r.obs, "obs_activeEp_differs_from_selectors")
	} else if !eqInts(act, m.Ac) && r.weightChanged {
		r.obs = append(r.obs, "obs_activeEp_differs_from_selectors_after_weight_change")
	} else if !eqInts(act, m.Ac) {
		return "active", fmt.Sprintf("in rotation %v", m.Ac), fmt.Sprintf("activeEp %v", act)
	}
	q, l := tars.VerifFailoverProbeQueue(r.sp)
	qi := []int{}
	for _, n := range q {
		qi = append(qi, r.byName[n])
	}
	if !eqInts(qi, m.Pq) {
		return "probeQueue", fmt.Sprint(m.Pq), fmt.Sprint(qi)
	}
	li, _ := r.idxSet(l)
	if !eqInts(li, m.Li) {
		return "probeListed", fmt.Sprint(m.Li), fmt.Sprint(li)
	}
	for c := 1; c <= r.b.Calls; c++ {
		want := m.Fl[c-1].Ep
		have := 0
		if r.slots[c].busy && r.slots[c].arr != nil {
			have = r.slots[c].arr.server
		}
		if want != have {
			return "inflight", fmt.Sprintf("slot %d -> endpoint %d", c, want), fmt.Sprintf("slot %d -> endpoint %d", c, have)
		}
	}
	if !full {
		return "", "", ""
	}
	// the selectors: who can be chosen by each strategy
	for _, kind := range []string{"rr", "mod", "ch"} {
		names := map[string]bool{}
		tries := 2 * r.b.N
		if kind == "ch" {
			tries = 48
		}
		for k := 0; k < tries; k++ {
			code := uint32(k)
			if kind == "ch" {
				code = uint32(k) * 2654435761
			}
			if n, ok := tars.VerifFailoverDrySelect(r.sp, kind, code); ok {
				names[n] = true
			}
		}
		var ns []string
		for n := range names {
			ns = append(ns, n)
		}
		members, _ := r.idxSet(ns)
		if kind == "ch" {
			// the ring is sampled: what it returns must be in rotation, and it is empty iff the rotation is
			sub := true
			for _, x := range members {
				in := false
				for _, y := range m.Ac {
					in = in || x == y
				}
				sub = sub && in
			}
			if !sub || (len(members) == 0) != (len(m.Ac) == 0) {
				return "selector.ch", fmt.Sprintf("consistent-hash selector over %v", m.Ac), fmt.Sprintf("returns %v", members)
			}
			continue
		}
		if !eqInts(members, m.Ac) {
			return "selector." + kind, fmt.Sprintf("%s selector over %v", kind, m.Ac), fmt.Sprintf("returns %v", members)
		}
	}
	return "", "", ""
}
