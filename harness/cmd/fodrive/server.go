package main

import (
	"context"
	"encoding/binary"
	"fmt"
	"io"
	"math/rand"
	"net"
	"sync"
	"syscall"
	"time"

	"github.com/TarsCloud/TarsGo/tars/protocol/codec"
	"github.com/TarsCloud/TarsGo/tars/protocol/res/endpointf"
	"github.com/TarsCloud/TarsGo/tars/protocol/res/requestf"
	"github.com/TarsCloud/TarsGo/tars/registry"
	"github.com/TarsCloud/TarsGo/tars/util/endpoint"
)

// arrival: a request read by a scripted server.  The server answers only when told to.
type arrival struct {
	server int // model endpoint number (1-based)
	fn     string
	req    requestf.RequestPacket
	conn   net.Conn
	wmu    *sync.Mutex
}

// reply writes a success response for the held request.
func (a *arrival) reply() error {
	resp := requestf.ResponsePacket{
		IVersion:    a.req.IVersion,
		CPacketType: 0,
		IRequestId:  a.req.IRequestId,
		IRet:        0,
		SBuffer:     []int8{},
	}
	buf := codec.NewBuffer()
	if err := resp.WriteTo(buf); err != nil {
		return err
	}
	body := buf.ToBytes()
	pkt := make([]byte, 4+len(body))
	binary.BigEndian.PutUint32(pkt, uint32(len(pkt)))
	copy(pkt[4:], body)
	a.wmu.Lock()
	defer a.wmu.Unlock()
	_, err := a.conn.Write(pkt)
	return err
}

type server struct {
	idx      int
	ln       net.Listener
	host     string
	port     int32
	arrivals chan<- *arrival

	mu    sync.Mutex
	conns []net.Conn
	down  bool
	hold  int // while down: a bound, not listening socket that keeps the port (connections to it are refused); -1 if none
}

func (s *server) name() string { return fmt.Sprintf("%s:%d", s.host, s.port) }

func startServer(idx int, arrivals chan<- *arrival) (*server, error) {
	host := fmt.Sprintf("127.0.0.%d", idx)
	s := &server{idx: idx, host: host, arrivals: arrivals, hold: -1}
	if err := s.listen(host + ":0"); err != nil {
		return nil, err
	}
	s.port = int32(s.ln.Addr().(*net.TCPAddr).Port)
	return s, nil
}

func (s *server) listen(addr string) error {
	ln, err := net.Listen("tcp", addr)
	if err != nil {
		return err
	}
	s.ln = ln
	go func() {
		for {
			c, err := ln.Accept()
			if err != nil {
				return
			}
			s.mu.Lock()
			s.conns = append(s.conns, c)
			s.mu.Unlock()
			go s.serve(c, s.arrivals)
		}
	}()
	return nil
}

// goDown: the server stops listening and drops its connections; from now on a connection attempt is refused.
// The port stays reserved (a bound socket that does not listen refuses like a free port does), so that no
// server of a behaviour replayed in parallel can be given it in the meantime.
func (s *server) goDown() {
	s.ln.Close()
	s.mu.Lock()
	for _, c := range s.conns {
		c.Close()
	}
	s.conns = nil
	s.down = true
	s.mu.Unlock()
	if fd, err := syscall.Socket(syscall.AF_INET, syscall.SOCK_STREAM, 0); err == nil {
		_ = syscall.SetsockoptInt(fd, syscall.SOL_SOCKET, syscall.SO_REUSEADDR, 1)
		sa := &syscall.SockaddrInet4{Port: int(s.port), Addr: [4]byte{127, 0, 0, byte(s.idx)}}
		if syscall.Bind(fd, sa) == nil {
			s.hold = fd
		} else {
			syscall.Close(fd)
		}
	}
}

// comeBack: the server listens again on the same address.
func (s *server) comeBack() error {
	var err error
	for k := 0; k < 50; k++ {
		if err = s.listen(s.name()); err == nil {
			break
		}
		time.Sleep(2 * time.Millisecond)
	}
	if s.hold >= 0 {
		syscall.Close(s.hold)
		s.hold = -1
	}
	if err == nil {
		s.mu.Lock()
		s.down = false
		s.mu.Unlock()
	}
	return err
}

func (s *server) serve(c net.Conn, arrivals chan<- *arrival) {
	wmu := &sync.Mutex{}
	hdr := make([]byte, 4)
	for {
		if _, err := io.ReadFull(c, hdr); err != nil {
			return
		}
		n := binary.BigEndian.Uint32(hdr)
		if n < 4 || n > 10<<20 {
			return
		}
		body := make([]byte, n-4)
		if _, err := io.ReadFull(c, body); err != nil {
			return
		}
		a := &arrival{server: s.idx, conn: c, wmu: wmu}
		if err := a.req.ReadFrom(codec.NewReader(body)); err != nil {
			continue
		}
		a.fn = a.req.SFuncName
		if a.fn == "tars_ping" {
			continue // keep-alive ping (one-way): nothing to answer, not a call of the behaviour
		}
		arrivals <- a
	}
}

func (s *server) stop() {
	s.ln.Close()
	if s.hold >= 0 {
		syscall.Close(s.hold)
		s.hold = -1
	}
	s.mu.Lock()
	for _, c := range s.conns {
		c.Close()
	}
	s.mu.Unlock()
}

// scriptedRegistry is the registry of one behaviour.  The manager's own refresher (globalManager.updateEndpoints ->
// doFresh -> refreshEndpoints, one goroutine for all managers of the process, on a short ticker) asks it again and again;
// it answers with the lists the behaviour has set last: every answer is a fresh copy in a random order (a registry owes
// nobody an order; the manager sorts by host).  While the lists stay the same the refresher finds "endpoint not change",
// so refreshes happen where the behaviour has a Refresh step, through the production path.
type scriptedRegistry struct {
	mu      sync.Mutex
	servers []*server
	act     []endpointf.EndpointF
	inact   []endpointf.EndpointF
	queries int
	rev     int32 // the weight every endpoint of the answers carries (weights are not in use -- weight type 0 --, but an answer with
	// another weight is not the installed list: the manager goes through the whole refresh although the endpoints are the same)
	rng  *rand.Rand
	dead bool
}

var _ registry.Registrar = (*scriptedRegistry)(nil)

func (r *scriptedRegistry) Registry(context.Context, *registry.ServantInstance) error   { return nil }
func (r *scriptedRegistry) Deregister(context.Context, *registry.ServantInstance) error { return nil }
func (r *scriptedRegistry) QueryServant(context.Context, string) ([]registry.Endpoint, []registry.Endpoint, error) {
	r.mu.Lock()
	defer r.mu.Unlock()
	r.queries++
	a := append([]endpointf.EndpointF(nil), r.act...)
	var i []endpointf.EndpointF
	if len(r.inact) > 0 {
		i = append(i, r.inact...)
	}
	if !r.dead {
		r.rng.Shuffle(len(a), func(x, y int) { a[x], a[y] = a[y], a[x] })
		r.rng.Shuffle(len(i), func(x, y int) { i[x], i[y] = i[y], i[x] })
	}
	return a, i, nil
}
func (r *scriptedRegistry) QueryServantBySet(ctx context.Context, id, _ string) ([]registry.Endpoint, []registry.Endpoint, error) {
	return r.QueryServant(ctx, id)
}

func (r *scriptedRegistry) epf(e int) endpointf.EndpointF {
	s := r.servers[e-1]
	return endpointf.EndpointF{Host: s.host, Port: s.port, Timeout: 3000, Istcp: endpoint.TCP, Weight: r.rev}
}

// answer sets what the registry says from now on (model endpoint numbers; newWeight: the endpoints carry another weight than in
// every answer before) and returns the number of queries answered before.
func (r *scriptedRegistry) answer(active, inactive []int, newWeight bool) int {
	r.mu.Lock()
	defer r.mu.Unlock()
	if newWeight && len(active) > 0 {
		// (an empty answer has no endpoint to carry a weight, and it is not installed: the next answer is compared with the list
		// installed before it)
		r.rev++
	}
	r.act, r.inact = nil, nil
	for _, e := range active {
		r.act = append(r.act, r.epf(e))
	}
	for _, e := range inactive {
		r.inact = append(r.inact, r.epf(e))
	}
	return r.queries
}

func (r *scriptedRegistry) asked() int {
	r.mu.Lock()
	defer r.mu.Unlock()
	return r.queries
}

// retire: the behaviour is over; the manager stays registered with the process-wide refresher for good, so the answers become cheap.
func (r *scriptedRegistry) retire() {
	r.mu.Lock()
	r.dead = true
	r.mu.Unlock()
}

func registryFor(servers []*server, reg0 []int, seed int64) *scriptedRegistry {
	r := &scriptedRegistry{servers: servers, rng: rand.New(rand.NewSource(seed))}
	r.answer(reg0, nil, false)
	return r
}
