package main

import (
	"context"
	"encoding/binary"
	"fmt"
	"io"
	"net"
	"sync"
	"syscall"
	"time"

	"github.com/TarsCloud/TarsGo/tars/protocol/codec"
	"github.com/TarsCloud/TarsGo/tars/protocol/res/endpointf"
	"github.com/TarsCloud/TarsGo/tars/protocol/res/requestf"
	"github.com/TarsCloud/TarsGo/tars/registry"
	"github.com/TarsCloud/TarsGo/tars/util/endpoint"
)

// arrival: a request read by a scripted server.  The server answers only when told to.
type arrival struct {
	server int // model endpoint number (1-based)
	fn     string
	req    requestf.RequestPacket
	conn   net.Conn
	wmu    *sync.Mutex
}

// reply writes a success response for the held request.
func (a *arrival) reply() error {
	resp := requestf.ResponsePacket{
		IVersion:    a.req.IVersion,
		CPacketType: 0,
		IRequestId:  a.req.IRequestId,
		IRet:        0,
		SBuffer:     []int8{},
	}
	buf := codec.NewBuffer()
	if err := resp.WriteTo(buf); err != nil {
		return err
	}
	body := buf.ToBytes()
	pkt := make([]byte, 4+len(body))
	binary.BigEndian.PutUint32(pkt, uint32(len(pkt)))
	copy(pkt[4:], body)
	a.wmu.Lock()
	defer a.wmu.Unlock()
	_, err := a.conn.Write(pkt)
	return err
}

type server struct {
	idx      int
	ln       net.Listener
	host     string
	port     int32
	arrivals chan<- *arrival

	mu    sync.Mutex
	conns []net.Conn
	down  bool
	hold  int // while down: a bound, not listening socket that keeps the port (connections to it are refused); -1 if none
}

func (s *server) name() string { return fmt.Sprintf("%s:%d", s.host, s.port) }

func startServer(idx int, arrivals chan<- *arrival) (*server, error) {
	host := fmt.Sprintf("127.0.0.%d", idx)
	s := &server{idx: idx, host: host, arrivals: arrivals, hold: -1}
	if err := s.listen(host + ":0"); err != nil {
		return nil, err
	}
	s.port = int32(s.ln.Addr().(*net.TCPAddr).Port)
	return s, nil
}

func (s *server) listen(addr string) error {
	ln, err := net.Listen("tcp", addr)
	if err != nil {
		return err
	}
	s.ln = ln
	go func() {
		for {
			c, err := ln.Accept()
			if err != nil {
				return
			}
			s.mu.Lock()
			s.conns = append(s.conns, c)
			s.mu.Unlock()
			go s.serve(c, s.arrivals)
		}
	}()
	return nil
}

// goDown: the server stops listening and drops its connections; from now on a connection attempt is refused.
// The port stays reserved (a bound socket that does not listen refuses like a free port does), so that no
// server of a behaviour replayed in parallel can be given it in the meantime.
func (s *server) goDown() {
	s.ln.Close()
	s.mu.Lock()
	for _, c := range s.conns {
		c.Close()
	}
	s.conns = nil
	s.down = true
	s.mu.Unlock()
	if fd, err := syscall.Socket(syscall.AF_INET, syscall.SOCK_STREAM, 0); err == nil {
		_ = syscall.SetsockoptInt(fd, syscall.SOL_SOCKET, syscall.SO_REUSEADDR, 1)
		sa := &syscall.SockaddrInet4{Port: int(s.port), Addr: [4]byte{127, 0, 0, byte(s.idx)}}
		if syscall.Bind(fd, sa) == nil {
			s.hold = fd
		} else {
			syscall.Close(fd)
		}
	}
}

// comeBack: the server listens again on the same address.
func (s *server) comeBack() error {
	var err error
	for k := 0; k < 50; k++ {
		if err = s.listen(s.name()); err == nil {
			break
		}
		time.Sleep(2 * time.Millisecond)
	}
	if s.hold >= 0 {
		syscall.Close(s.hold)
		s.hold = -1
	}
	if err == nil {
		s.mu.Lock()
		s.down = false
		s.mu.Unlock()
	}
	return err
}

func (s *server) serve(c net.Conn, arrivals chan<- *arrival) {
	wmu := &sync.Mutex{}
	hdr := make([]byte, 4)
	for {
		if _, err := io.ReadFull(c, hdr); err != nil {
			return
		}
		n := binary.BigEndian.Uint32(hdr)
		if n < 4 || n > 10<<20 {
			return
		}
		body := make([]byte, n-4)
		if _, err := io.ReadFull(c, body); err != nil {
			return
		}
		a := &arrival{server: s.idx, conn: c, wmu: wmu}
		if err := a.req.ReadFrom(codec.NewReader(body)); err != nil {
			continue
		}
		a.fn = a.req.SFuncName
		if a.fn == "tars_ping" {
			continue // keep-alive ping (one-way): nothing to answer, not a call of the behaviour
		}
		arrivals <- a
	}
}

func (s *server) stop() {
	s.ln.Close()
	if s.hold >= 0 {
		syscall.Close(s.hold)
		s.hold = -1
	}
	s.mu.Lock()
	for _, c := range s.conns {
		c.Close()
	}
	s.mu.Unlock()
}

// fixedRegistry is the registry of the harness: it always answers with the same endpoints.
type fixedRegistry struct {
	eps []endpointf.EndpointF
}

var _ registry.Registrar = (*fixedRegistry)(nil)

func (r *fixedRegistry) Registry(context.Context, *registry.ServantInstance) error   { return nil }
func (r *fixedRegistry) Deregister(context.Context, *registry.ServantInstance) error { return nil }
func (r *fixedRegistry) QueryServant(context.Context, string) ([]registry.Endpoint, []registry.Endpoint, error) {
	return append([]endpointf.EndpointF(nil), r.eps...), nil, nil
}
func (r *fixedRegistry) QueryServantBySet(ctx context.Context, id, _ string) ([]registry.Endpoint, []registry.Endpoint, error) {
	return r.QueryServant(ctx, id)
}

func registryFor(servers []*server) *fixedRegistry {
	r := &fixedRegistry{}
	for _, s := range servers {
		r.eps = append(r.eps, endpointf.EndpointF{Host: s.host, Port: s.port, Timeout: 3000, Istcp: endpoint.TCP})
	}
	return r
}
