package main

import (
	"net"
	"sync"
	"time"

	"github.com/TarsCloud/TarsGo/tars/util/vhook"
)

// connTrack follows the client transport's connections per server address (hooks client.reconnect.dialed /
// client.close of tars/transport, build tag verif).  When a scripted server goes away the driver waits
// until the client has noticed the loss of its connection: only then is "the endpoint does not listen" the
// same as "the next request cannot be sent", which is what the model's Refused / CheckAll(up) assume.
var connTrack = struct {
	mu   sync.Mutex
	open map[string]map[string]bool // server address -> local addresses of the client's open connections
}{open: map[string]map[string]bool{}}

func installConnTrack() {
	vhook.Set(func(point string, args ...interface{}) {
		if point != "client.reconnect.dialed" && point != "client.close" {
			return
		}
		if len(args) < 2 {
			return
		}
		conn, ok := args[1].(net.Conn)
		if !ok || conn == nil {
			return
		}
		ra, la := conn.RemoteAddr(), conn.LocalAddr()
		if ra == nil || la == nil {
			return
		}
		connTrack.mu.Lock()
		defer connTrack.mu.Unlock()
		if point == "client.close" {
			if m := connTrack.open[ra.String()]; m != nil {
				delete(m, la.String())
			}
			return
		}
		m := connTrack.open[ra.String()]
		if m == nil {
			m = map[string]bool{}
			connTrack.open[ra.String()] = m
		}
		m[la.String()] = true
	})
}

func openConns(server string) int {
	connTrack.mu.Lock()
	defer connTrack.mu.Unlock()
	return len(connTrack.open[server])
}

func forgetConns(server string) {
	connTrack.mu.Lock()
	defer connTrack.mu.Unlock()
	delete(connTrack.open, server)
}

// waitNoConns waits until the client holds no open connection to the server.
func waitNoConns(server string, d time.Duration) bool {
	deadline := time.Now().Add(d)
	for openConns(server) > 0 {
		if time.Now().After(deadline) {
			return false
		}
		time.Sleep(200 * time.Microsecond)
	}
	return true
}
