package main

import (
	"encoding/json"
	"flag"
	"fmt"
	"strings"
	"sync"
	"sync/atomic"
	"time"

	"github.com/TarsCloud/TarsGo/tars/selector"
	"github.com/TarsCloud/TarsGo/tars/util/endpoint"
)

// B2: histories enumerated by TLC (Gen_Selector) are applied to the real selectors; after every
// operation a window of selections is recorded (the observable projection of the selector's state).

type epJ struct {
	H int `json:"h"`
	W int `json:"w"`
	T int `json:"t"` // weight type: 1 static, 0 none ("loop")
}

type opJ struct {
	O string `json:"o"` // "F" refresh, "A" add, "R" remove
	H int    `json:"h"`
	W int    `json:"w"`
	T int    `json:"t"`
	L []epJ  `json:"l"`
}

type scriptJ struct {
	Ops []opJ `json:"ops"`
}

type obsJ struct {
	P   string `json:"p"`   // panic of the operation ("" none)
	PF  string `json:"pf"`  // function that panicked
	E   bool   `json:"e"`   // the operation returned an error
	SP  string `json:"sp"`  // panic of a selection
	SPF string `json:"spf"` //
	Sel []int  `json:"sel"` // hosts selected; 0: Select returned an error; -1: an endpoint outside the universe
}

type histRec struct {
	I    int    `json:"i"` // script index (0-based)
	S    string `json:"s"`
	Wt   bool   `json:"wt"`
	Hang bool   `json:"hang"`
	Obs  []obsJ `json:"obs"`
}

func applyOp(sel selector.Selector, op opJ) (bool, *crash) {
	var err error
	c := guard(func() {
		switch op.O {
		case "F":
			eps := make([]endpoint.Endpoint, 0, len(op.L))
			for _, e := range op.L {
				eps = append(eps, mkEp(e.H, e.W, e.T))
			}
			sel.Refresh(eps)
			// the list belongs to the caller, who goes on using it (the endpoint manager edits the list it has just
			// installed in place): whatever is written into it later is not an operation on the selector
			for i := range eps {
				eps[i] = mkEp(9, 1, 1)
			}
		case "A":
			err = sel.Add(mkEp(op.H, op.W, op.T))
		case "R":
			err = sel.Remove(mkEp(op.H, op.W, op.T))
		default:
			panic("seldrive: unknown op " + op.O)
		}
	})
	return err != nil, c
}

func observe(sel selector.Selector, strat string, k int, o *obsJ) {
	o.Sel = make([]int, 0, k)
	for j := 0; j < k; j++ {
		var ep endpoint.Endpoint
		var err error
		c := guard(func() { ep, err = sel.Select(hashMsg{codeFor(strat, j)}) })
		if c != nil {
			o.SP, o.SPF = c.Msg, c.Func
			return
		}
		if err != nil {
			o.Sel = append(o.Sel, 0)
		} else {
			o.Sel = append(o.Sel, hostID(ep))
		}
	}
}

func runHistory(strat string, wt bool, k int, sc scriptJ) []obsJ {
	sel, _ := newSelector(strat, wt)
	out := make([]obsJ, 0, len(sc.Ops))
	for _, op := range sc.Ops {
		var o obsJ
		e, c := applyOp(sel, op)
		o.E = e
		if c != nil {
			o.P, o.PF = c.Msg, c.Func
			o.Sel = []int{}
			out = append(out, o)
			break // the selector's state after a panic is not specified
		}
		observe(sel, strat, k, &o)
		out = append(out, o)
		if o.SP != "" {
			break
		}
	}
	return out
}

func histMain(args []string) error {
	fs := flag.NewFlagSet("hist", flag.ExitOnError)
	in := fs.String("in", "", "scripts (ndjson)")
	out := fs.String("out", "", "observations (ndjson); one file per strategy: <out>.<strategy>")
	strats := fs.String("strats", "rr,random,modhash,conhash", "")
	wts := fs.String("wt", "0,1", "static-weight mode off/on")
	krr := fs.Int("k-rr", 8, "selections per observation")
	krandom := fs.Int("k-random", 16, "")
	kmod := fs.Int("k-modhash", 8, "")
	kch := fs.Int("k-conhash", 32, "")
	par := fs.Int("par", 8, "worker goroutines")
	fs.Parse(args)
	var scripts []scriptJ
	if err := readLines(*in, func(b []byte) error {
		var s scriptJ
		if err := json.Unmarshal(b, &s); err != nil {
			return err
		}
		scripts = append(scripts, s)
		return nil
	}); err != nil {
		return err
	}
	kOf := map[string]int{"rr": *krr, "random": *krandom, "modhash": *kmod, "conhash": *kch, "conhashd": *kch}
	stList := strings.Split(*strats, ",")
	for _, st := range stList {
		if _, err := newSelector(st, false); err != nil {
			return err
		}
	}
	// every (strategy, mode, history) is an independent job on a fresh selector; a pool of workers runs
	// them, the records are written per strategy in script order
	type job struct {
		st  string
		wt  bool
		i   int
		dst *[]byte
	}
	wtList := strings.Split(*wts, ",")
	results := map[string][][]byte{}
	jobs := make(chan job, 1024)
	var wg sync.WaitGroup
	var hangs int32
	for w := 0; w < *par; w++ {
		wg.Add(1)
		go func() {
			defer wg.Done()
			for j := range jobs {
				rec := histRec{I: j.i, S: j.st, Wt: j.wt}
				// a history that does not come back (lock never released) is retried with growing patience
				patiences := []time.Duration{2 * time.Second, 4 * time.Second, 8 * time.Second}
				if atomic.LoadInt32(&hangs) >= 4 {
					// the selector evidently blocks: do not spend the whole budget waiting for every history
					patiences = []time.Duration{50 * time.Millisecond}
				}
				for _, patience := range patiences {
					done := make(chan []obsJ, 1)
					go func() { done <- runHistory(j.st, j.wt, kOf[j.st], scripts[j.i]) }()
					tm := time.NewTimer(patience)
					select {
					case rec.Obs = <-done:
						rec.Hang = false
					case <-tm.C:
						rec.Hang = true
					}
					tm.Stop()
					if !rec.Hang {
						break
					}
				}
				if rec.Hang {
					atomic.AddInt32(&hangs, 1)
				}
				if rec.Obs == nil {
					rec.Obs = []obsJ{}
				}
				b, _ := json.Marshal(rec)
				*j.dst = b
			}
		}()
	}
	for _, st := range stList {
		results[st] = make([][]byte, len(wtList)*len(scripts))
		for wi, wtS := range wtList {
			for i := range scripts {
				jobs <- job{st, wtS == "1", i, &results[st][wi*len(scripts)+i]}
			}
		}
	}
	close(jobs)
	wg.Wait()
	for _, st := range stList {
		w, err := createND(*out + "." + st)
		if err != nil {
			return err
		}
		for _, b := range results[st] {
			w.w.Write(b)
			w.w.WriteByte('\n')
		}
		if err := w.close(); err != nil {
			return err
		}
	}
	nsel := 0
	for _, st := range stList {
		for _, b := range results[st] {
			var r histRec
			if json.Unmarshal(b, &r) == nil {
				for _, o := range r.Obs {
					nsel += len(o.Sel)
				}
			}
		}
	}
	fmt.Printf("{\"scripts\":%d,\"selections\":%d}\n", len(scripts), nsel)
	return nil
}
