// seldrive drives the real endpoint selectors of TarsGo (tars/selector/...) for check C13.
//
//	seldrive hist    -in scripts.ndjson -out obs.ndjson -strats rr,random,... -wt 0,1 -k-rr N ...
//	seldrive weights -in vectors.ndjson -out recs.ndjson
//	seldrive conc    -strat rr -wt 1 -seed S -runs N -out trace.ndjson
//	seldrive mgr     -in mgrscripts.ndjson -out obs.ndjson -wt=false -seed S   (endpoint manager: registry refreshes, block, recover)
//
// Hosts are small integers k, named "10.0.0.k" (1 <= k <= 9), so that the numeric order is the order
// of Endpoint.String(), which the weight builder uses to break ties.
package main

import (
	"bufio"
	"encoding/json"
	"fmt"
	"os"
	"runtime"
	"sort"
	"strings"

	"github.com/TarsCloud/TarsGo/tars/selector"
	"github.com/TarsCloud/TarsGo/tars/selector/consistenthash"
	"github.com/TarsCloud/TarsGo/tars/selector/modhash"
	"github.com/TarsCloud/TarsGo/tars/selector/random"
	"github.com/TarsCloud/TarsGo/tars/selector/roundrobin"
	"github.com/TarsCloud/TarsGo/tars/util/endpoint"
)

var cmds = map[string]func(args []string) error{
	"hist":    histMain,
	"weights": weightsMain,
	"conc":    concMain,
	"stress":  stressCmd,
	"mgr":     mgrMain,
}

func main() {
	if len(os.Args) < 2 || cmds[os.Args[1]] == nil {
		var names []string
		for k := range cmds {
			names = append(names, k)
		}
		sort.Strings(names)
		fmt.Fprintln(os.Stderr, "usage: seldrive <subcommand> [flags]; subcommands:", names)
		os.Exit(2)
	}
	if err := cmds[os.Args[1]](os.Args[2:]); err != nil {
		fmt.Fprintln(os.Stderr, "seldrive:", err)
		os.Exit(3)
	}
}

// ---------------------------------------------------------------- the real objects

// Strategy names: rr, random, modhash, conhash (ketama points, what the endpoint manager uses),
// conhashd (the "default" hash algorithm of the consistent hash).
func newSelector(strat string, weighted bool) (selector.Selector, error) {
	switch strat {
	case "rr":
		return roundrobin.New(weighted), nil
	case "random":
		return random.New(weighted), nil
	case "modhash":
		return modhash.New(weighted), nil
	case "conhash":
		return consistenthash.New(weighted, consistenthash.KetamaHash), nil
	case "conhashd":
		return consistenthash.New(weighted, consistenthash.DefaultHash), nil
	}
	return nil, fmt.Errorf("unknown strategy %q", strat)
}

// mkEp: t is the weight type (1 = endpoint.EStaticWeight, 0 = endpoint.ELoop: the endpoint carries no static weight).
func mkEp(h, w, t int) endpoint.Endpoint {
	wt := endpoint.ELoop
	if t == 1 {
		wt = endpoint.EStaticWeight
	}
	return endpoint.Endpoint{
		Host: fmt.Sprintf("10.0.0.%d", h), Port: int32(10000 + h), Timeout: 3000, Istcp: endpoint.TCP,
		Proto: "tcp", Weight: int32(w), WeightType: int32(wt),
		Key: fmt.Sprintf("10.0.0.%d:%d", h, 10000+h),
	}
}

// hostID maps an endpoint returned by the real code back to the integer host; -1: not a host of the universe.
func hostID(ep endpoint.Endpoint) int {
	var k int
	if n, err := fmt.Sscanf(ep.Host, "10.0.0.%d", &k); n == 1 && err == nil && k >= 1 && k <= 9 &&
		ep.Host == fmt.Sprintf("10.0.0.%d", k) && int(ep.Port) == 10000+k {
		return k
	}
	return -1
}

type hashMsg struct{ code uint32 }

func (m hashMsg) HashCode() uint32            { return m.code }
func (m hashMsg) HashType() selector.HashType { return selector.ConsistentHash }
func (m hashMsg) IsHash() bool                { return true }

// codeFor gives the hash code of the j-th selection of an observation: consecutive codes for the
// mod-hash (every slot of the cycle is visited), codes spread over the ring for the consistent hash.
func codeFor(strat string, j int) uint32 {
	if strings.HasPrefix(strat, "conhash") {
		return uint32(j+1) * 0x9E3779B1
	}
	return uint32(j)
}

// ---------------------------------------------------------------- panic capture

type crash struct {
	Msg  string // panic value
	Func string // innermost TarsGo function on the panicking stack
}

// guard runs f and converts a panic into a crash description.
func guard(f func()) (c *crash) {
	defer func() {
		if r := recover(); r != nil {
			c = &crash{Msg: fmt.Sprint(r)}
			pcs := make([]uintptr, 64)
			n := runtime.Callers(2, pcs)
			frames := runtime.CallersFrames(pcs[:n])
			for {
				fr, more := frames.Next()
				if strings.Contains(fr.Function, "TarsCloud/TarsGo/") {
					c.Func = fr.Function[strings.LastIndex(fr.Function, "/")+1:]
					break
				}
				if !more {
					break
				}
			}
		}
	}()
	f()
	return nil
}

// ---------------------------------------------------------------- ndjson helpers

func readLines(path string, each func(line []byte) error) error {
	f, err := os.Open(path)
	if err != nil {
		return err
	}
	defer f.Close()
	sc := bufio.NewScanner(f)
	sc.Buffer(make([]byte, 1<<20), 1<<26)
	for sc.Scan() {
		if len(sc.Bytes()) == 0 {
			continue
		}
		if err := each(sc.Bytes()); err != nil {
			return err
		}
	}
	return sc.Err()
}

type ndWriter struct {
	f *os.File
	w *bufio.Writer
}

func createND(path string) (*ndWriter, error) {
	f, err := os.Create(path)
	if err != nil {
		return nil, err
	}
	return &ndWriter{f, bufio.NewWriterSize(f, 1<<20)}, nil
}

func (w *ndWriter) write(v interface{}) error {
	b, err := json.Marshal(v)
	if err != nil {
		return err
	}
	w.w.Write(b)
	return w.w.WriteByte('\n')
}

func (w *ndWriter) close() error {
	if err := w.w.Flush(); err != nil {
		return err
	}
	return w.f.Close()
}
