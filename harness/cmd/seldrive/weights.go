package main

import (
	"encoding/json"
	"flag"
	"fmt"

	"github.com/TarsCloud/TarsGo/tars/selector"
	"github.com/TarsCloud/TarsGo/tars/util/endpoint"
)

// B3: BuildStaticWeightList on weight vectors; the real list is judged by TLC against the reference.

type vecJ struct {
	W   []int  `json:"w"`   // weights in list order
	T   []int  `json:"t"`   // weight type of each entry (1 static, 0 none)
	Ord []int  `json:"ord"` // host of each entry (distinct)
	Out []int  `json:"out"` // real result (0-based indexes)
	P   string `json:"p"`
	PF  string `json:"pf"`
}

func weightsMain(args []string) error {
	fs := flag.NewFlagSet("weights", flag.ExitOnError)
	in := fs.String("in", "", "vectors (ndjson)")
	out := fs.String("out", "", "records (ndjson)")
	fs.Parse(args)
	w, err := createND(*out)
	if err != nil {
		return err
	}
	n := 0
	if err := readLines(*in, func(b []byte) error {
		var v vecJ
		if err := json.Unmarshal(b, &v); err != nil {
			return err
		}
		if len(v.W) != len(v.Ord) || len(v.W) != len(v.T) {
			return fmt.Errorf("bad vector %s", b)
		}
		eps := make([]endpoint.Endpoint, len(v.W))
		for i := range v.W {
			eps[i] = mkEp(v.Ord[i], v.W[i], v.T[i])
		}
		var res []int
		if c := guard(func() { res = selector.BuildStaticWeightList(eps) }); c != nil {
			v.P, v.PF = c.Msg, c.Func
		}
		v.Out = res
		if v.Out == nil {
			v.Out = []int{}
		}
		n++
		return w.write(v)
	}); err != nil {
		return err
	}
	fmt.Printf("{\"vectors\":%d}\n", n)
	return w.close()
}
