package main

// stress: selections at full speed from many goroutines, with no recording between them, while an updater goes through
// refresh / add / remove.  The recorded scenario of `conc` serialises its events through the recorder and so never has two
// selections inside the selector at the same instant for long; here nothing is observed but what the statement asks
// for at its bluntest: no crash, and only members of the sets that were current at some time during the run.

import (
	"flag"
	"fmt"
	"math/rand"
	"sync"
	"sync/atomic"
	"time"

	"github.com/TarsCloud/TarsGo/tars/util/endpoint"
)

type stressRec struct {
	K        string `json:"k"`
	Strat    string `json:"s"`
	Weighted bool   `json:"wt"`
	Updates  bool   `json:"upd"`
	Sels     int64  `json:"sels"`
	Errs     int64  `json:"errs"`
	Foreign  int64  `json:"foreign"` // selections that returned a host outside the universe
	Panic    string `json:"p"`
	Func     string `json:"sp"`
}

func stressCmd(args []string) error {
	fs := flag.NewFlagSet("stress", flag.ExitOnError)
	out := fs.String("out", "stress.ndjson", "output file")
	ms := fs.Int("ms", 300, "duration of one run in ms")
	msRandom := fs.Int("ms-random", 3000, "duration of one run of the random strategy (one generator shared by all selections)")
	g := fs.Int("g", 32, "selecting goroutines")
	seed := fs.Int64("seed", 1, "seed")
	only := fs.String("only", "", "one strategy only")
	stopOnPanic := fs.Bool("stop-on-panic", false, "end at the first run that panics")
	rounds := fs.Int("rounds", 1, "repetitions")
	fs.Parse(args)
	w, err := createND(*out)
	if err != nil {
		return err
	}
	for round := 0; round < *rounds; round++ {
		for _, strat := range []string{"rr", "random", "modhash", "conhash", "conhashd"} {
			if *only != "" && strat != *only {
				continue
			}
			for _, wt := range []bool{false, true} {
				for _, upd := range []bool{false, true} {
					d := time.Duration(*ms) * time.Millisecond
					if strat == "random" {
						d = time.Duration(*msRandom) * time.Millisecond
					}
					rec := stressOne(strat, wt, upd, *g, d, *seed+int64(round))
					if err := w.write(rec); err != nil {
						return err
					}
					if *stopOnPanic && rec.Panic != "" {
						return w.close()
					}
				}
			}
		}
	}
	return w.close()
}

func stressOne(strat string, wt, upd bool, g int, d time.Duration, seed int64) stressRec {
	rec := stressRec{K: "stress", Strat: strat, Weighted: wt, Updates: upd}
	sel, err := newSelector(strat, wt)
	if err != nil {
		rec.Panic = err.Error()
		return rec
	}
	var eps []endpoint.Endpoint
	for h := 1; h <= 5; h++ {
		eps = append(eps, mkEp(h, 10*h, 1))
	}
	sel.Refresh(eps)
	var stop int32
	var sels, errs, foreign int64
	var mu sync.Mutex
	note := func(c *crash) {
		mu.Lock()
		if rec.Panic == "" {
			rec.Panic, rec.Func = c.Msg, c.Func
		}
		mu.Unlock()
		atomic.StoreInt32(&stop, 1)
	}
	var wg sync.WaitGroup
	for i := 0; i < g; i++ {
		wg.Add(1)
		go func(i int) {
			defer wg.Done()
			j := i * 7919
			for atomic.LoadInt32(&stop) == 0 {
				if c := guard(func() {
					for k := 0; k < 256; k++ {
						j++
						ep, err := sel.Select(hashMsg{codeFor(strat, j)})
						if err != nil {
							atomic.AddInt64(&errs, 1)
						} else if hostID(ep) < 0 {
							atomic.AddInt64(&foreign, 1)
						}
					}
					atomic.AddInt64(&sels, 256)
				}); c != nil {
					note(c)
					return
				}
			}
		}(i)
	}
	if upd {
		wg.Add(1)
		go func() {
			defer wg.Done()
			rng := rand.New(rand.NewSource(seed))
			for atomic.LoadInt32(&stop) == 0 {
				if c := guard(func() {
					switch rng.Intn(3) {
					case 0:
						n := 1 + rng.Intn(8)
						var l []endpoint.Endpoint
						for _, h := range rng.Perm(9)[:n] {
							l = append(l, mkEp(h+1, 1+rng.Intn(100), 1))
						}
						sel.Refresh(l)
					case 1:
						sel.Add(mkEp(1+rng.Intn(9), 1+rng.Intn(100), 1))
					case 2:
						sel.Remove(mkEp(2+rng.Intn(8), 1, 1)) // host 1 is only ever removed by a refresh
					}
				}); c != nil {
					note(c)
					return
				}
				time.Sleep(time.Duration(rng.Intn(200)) * time.Microsecond)
			}
		}()
	}
	time.Sleep(d)
	atomic.StoreInt32(&stop, 1)
	wg.Wait()
	rec.Sels, rec.Errs, rec.Foreign = sels, errs, foreign
	if rec.Panic != "" {
		rec.Panic = fmt.Sprint(rec.Panic)
	}
	return rec
}
