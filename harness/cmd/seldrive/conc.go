package main

import (
	"flag"
	"fmt"
	"math/rand"
	"sync"
	"sync/atomic"
	"time"

	"github.com/TarsCloud/TarsGo/tars/selector"
	"github.com/TarsCloud/TarsGo/tars/util/endpoint"
	"verifharness/internal/tr"
)

// B1: goroutines select while others Refresh/Add/Remove.  Every operation is logged by the shared
// recorder with a begin event (before the call) and an end event (after it, with the result); the
// recorder's lock orders the events, "n" is the per-goroutine sequence number.  Trace_Selector
// places every operation atomically between its two events.

type concCfg struct {
	strat               string
	wt                  bool
	updaters, selectors int
	ops, sels, burst    int
}

func concRun(rng *rand.Rand, c concCfg, rec *tr.Rec) {
	const H = 5
	// one weight per host for the whole run (Remove is called with the stored weight: the
	// weight-mismatch histories belong to the sequential part of the check)
	wset := []int{1, 2, 3, 5, 10}
	if c.strat == "conhash" || c.strat == "conhashd" {
		// 1..3: fewer than one round of four ring points, eligible all the same; 0: no points
		wset = []int{0, 1, 2, 3, 4, 8, 40, 100}
		if rng.Intn(4) == 0 {
			wset = []int{0, 1, 2, 3} // a run in which every eligible endpoint has a small weight
		}
	}
	weight := make([]int, H+1)
	wtype := make([]int, H+1)
	for h := 1; h <= H; h++ {
		weight[h] = wset[rng.Intn(len(wset))]
		wtype[h] = 1
	}
	// one weight type per host for the whole run; in a quarter of the weighted runs one host carries no static
	// weight: while it is a member no static weights apply (plain rotation / h mod N), afterwards they apply again
	if c.wt && rng.Intn(4) == 0 {
		wtype[1+rng.Intn(H)] = 0
	}
	sel, _ := newSelector(c.strat, c.wt)
	rec.Emit("Cfg", "s", c.strat, "wt", c.wt)
	seq := make([]int, c.updaters+c.selectors+1)
	next := func(g int) int { seq[g]++; return seq[g] }
	randList := func(r *rand.Rand) []epJ {
		n := r.Intn(H + 2)
		l := make([]epJ, 0, n)
		for i := 0; i < n; i++ {
			h := 1 + r.Intn(H)
			l = append(l, epJ{h, weight[h], wtype[h]})
		}
		return l
	}
	doUpdate := func(g int, op opJ) bool {
		if op.L == nil {
			op.L = []epJ{}
		}
		rec.Emit("B", "g", g, "n", next(g), "o", op.O, "h", op.H, "w", op.W, "t", op.T, "l", op.L, "r", 0)
		e, cr := applyOp(sel, op)
		if cr != nil {
			rec.Emit("E", "g", g, "n", next(g), "r", 0, "err", e, "p", cr.Msg, "pf", cr.Func)
			return false
		}
		rec.Emit("E", "g", g, "n", next(g), "r", 0, "err", e, "p", "", "pf", "")
		return true
	}
	doSelect := func(g int, code uint32) (int, bool) {
		rec.Emit("B", "g", g, "n", next(g), "o", "S", "h", 0, "w", 0, "t", 0, "l", []epJ{}, "r", 0)
		var ep endpoint.Endpoint
		var err error
		cr := guard(func() { ep, err = sel.Select(hashMsg{code}) })
		if cr != nil {
			rec.Emit("E", "g", g, "n", next(g), "r", -1, "err", false, "p", cr.Msg, "pf", cr.Func)
			return -1, false
		}
		r := 0
		if err == nil {
			r = hostID(ep)
		}
		rec.Emit("E", "g", g, "n", next(g), "r", r, "err", err != nil, "p", "", "pf", "")
		return r, true
	}

	if !doUpdate(1, opJ{O: "F", L: randList(rng)}) {
		rec.Emit("Reset")
		return
	}
	var wg sync.WaitGroup
	var updatersLeft int32 = int32(c.updaters)
	var crashed int32
	for u := 1; u <= c.updaters; u++ {
		wg.Add(1)
		go func(g int, r *rand.Rand) {
			defer wg.Done()
			defer atomic.AddInt32(&updatersLeft, -1)
			for i := 0; i < c.ops; i++ {
				var op opJ
				h := 1 + r.Intn(H)
				switch x := r.Intn(100); {
				case x < 45:
					op = opJ{O: "A", H: h, W: weight[h], T: wtype[h]}
				case x < 88:
					op = opJ{O: "R", H: h, W: weight[h], T: wtype[h]}
				default:
					op = opJ{O: "F", L: randList(r)}
				}
				if !doUpdate(g, op) {
					atomic.StoreInt32(&crashed, 1)
					return
				}
				if d := r.Intn(120); d > 20 {
					time.Sleep(time.Duration(d) * time.Microsecond)
				}
			}
		}(u, rand.New(rand.NewSource(rng.Int63())))
	}
	for s := 1; s <= c.selectors; s++ {
		wg.Add(1)
		go func(g int, r *rand.Rand) {
			defer wg.Done()
			for i := 0; i < c.sels; i++ {
				if _, ok := doSelect(g, r.Uint32()); !ok {
					atomic.StoreInt32(&crashed, 1)
					return
				}
				if atomic.LoadInt32(&updatersLeft) == 0 && i >= c.sels/2 {
					return
				}
				if d := r.Intn(60); d > 30 {
					time.Sleep(time.Duration(d) * time.Microsecond)
				}
			}
		}(c.updaters+s, rand.New(rand.NewSource(rng.Int63())))
	}
	wg.Wait()
	if atomic.LoadInt32(&crashed) == 0 {
		// quiet phase: nothing is pending, the set does not change; the selections of the burst are
		// consecutive selections over an unchanged set (in the order of the selector's own counter)
		res := make([][]int, c.selectors)
		var bad atomic.Value
		var bw sync.WaitGroup
		gate := make(chan struct{}) // all goroutines of the burst start together, so that their selections really overlap
		for s := 0; s < c.selectors; s++ {
			bw.Add(1)
			go func(s int, r *rand.Rand) {
				defer bw.Done()
				<-gate
				for i := 0; i < c.burst; i++ {
					var ep endpoint.Endpoint
					var err error
					if cr := guard(func() { ep, err = sel.Select(hashMsg{r.Uint32()}) }); cr != nil {
						bad.Store(cr)
						return
					}
					if err != nil {
						res[s] = append(res[s], 0)
					} else {
						res[s] = append(res[s], hostID(ep))
					}
				}
			}(s, rand.New(rand.NewSource(rng.Int63())))
		}
		close(gate)
		bw.Wait()
		all := []int{}
		for _, r := range res {
			all = append(all, r...)
		}
		if cr, ok := bad.Load().(*crash); ok && cr != nil {
			rec.Emit("Burst", "sel", all, "p", cr.Msg, "pf", cr.Func)
		} else {
			rec.Emit("Burst", "sel", all, "p", "", "pf", "")
		}
	}
	rec.Emit("Reset")
}

var _ selector.Selector

func concMain(args []string) error {
	fs := flag.NewFlagSet("conc", flag.ExitOnError)
	strat := fs.String("strat", "rr", "")
	wt := fs.Bool("wt", false, "")
	seed := fs.Int64("seed", 1, "")
	runs := fs.Int("runs", 10, "")
	out := fs.String("out", "", "trace (ndjson), runs separated by Reset events")
	upd := fs.Int("updaters", 2, "")
	sels := fs.Int("selectors", 3, "")
	ops := fs.Int("ops", 12, "operations per updater")
	ns := fs.Int("sels", 40, "selections per selector goroutine (at most)")
	burst := fs.Int("burst", 20, "selections per goroutine in the final quiet burst")
	patience := fs.Duration("patience", 20*time.Second, "a run that takes longer is recorded as hung")
	fs.Parse(args)
	if _, err := newSelector(*strat, *wt); err != nil {
		return err
	}
	w, err := tr.Create(*out)
	if err != nil {
		return err
	}
	rng := rand.New(rand.NewSource(*seed))
	total := 0
	for i := 0; i < *runs; i++ {
		rec := tr.New()
		done := make(chan struct{})
		go func() {
			concRun(rng, concCfg{*strat, *wt, *upd, *sels, *ops, *ns, *burst}, rec)
			close(done)
		}()
		hung := false
		select {
		case <-done:
		case <-time.After(*patience):
			hung = true // some operation never returned: the trace ends with a Hang event and the driver stops
		}
		evs := rec.Close()
		if hung {
			evs = append(evs, tr.Ev{"e": "Hang"}, tr.Ev{"e": "Reset"})
		}
		for _, e := range evs {
			if err := w.Write(e); err != nil {
				return err
			}
			total++
		}
		if hung {
			break
		}
	}
	fmt.Printf("{\"runs\":%d,\"events\":%d}\n", *runs, total)
	return w.Close()
}
