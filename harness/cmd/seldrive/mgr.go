package main

import (
	"context"
	"encoding/binary"
	"encoding/json"
	"flag"
	"fmt"
	"io"
	"math/rand"
	"net"
	"sync"
	"sync/atomic"
	"time"

	"github.com/TarsCloud/TarsGo/tars"
	"github.com/TarsCloud/TarsGo/tars/protocol/codec"
	"github.com/TarsCloud/TarsGo/tars/protocol/res/basef"
	"github.com/TarsCloud/TarsGo/tars/protocol/res/endpointf"
	"github.com/TarsCloud/TarsGo/tars/protocol/res/requestf"
	"github.com/TarsCloud/TarsGo/tars/registry"
	"github.com/TarsCloud/TarsGo/tars/util/current"
	"github.com/TarsCloud/TarsGo/tars/util/endpoint"
	"github.com/TarsCloud/TarsGo/tars/util/rogger"
)

// B2 at the level of the endpoint MANAGER (tars/endpointmanager.go): the selectors a call goes through are the ones
// the manager builds from its registry's replies and edits when its status check blocks an endpoint or a probe brings
// it back.  TLC (Gen_Mgr) enumerates / samples histories over
//
//	K(list)  the registry is asked again (the manager's own refresher: globalManager.updateEndpoints -> doFresh ->
//	         refreshEndpoints, on a 10 ms ticker; the scenario's registry lets exactly one query through) and names
//	         these endpoints, in a random order that is never sorted by host;
//	B(h)     endpoint h stops answering, five calls to it fail, the status check runs (virtual time): blocked;
//	V(h)     h answers again, is due for a probe (virtual time), the probe call is answered: back in rotation.
//
// After every operation a window of plain (no hash code) one-way calls is made through ServantProxy.TarsInvoke; the
// scripted TCP server that RECEIVED call j is selection j.  The record also carries the manager's own account of its
// current set after the operation (ServantProxy.Endpoints()).  Oracle_Selector (MgrJudge) turns the history into
// Refresh / Remove / Add / nothing on the member list and judges the windows like those of the selector-level
// histories: members only, strict rotation (weighted: the cycle counts), error iff none eligible.
//
// Hosts: server k listens on 127.0.3.k (host k of the specification).

type mgrSrv struct {
	ln   net.Listener
	host string
	port int32
	mute int32 // 1: two-way requests are read but never answered
}

func (s *mgrSrv) name() string { return fmt.Sprintf("%s:%d", s.host, s.port) }

type mgrArr struct {
	mu  sync.Mutex
	got map[string][]int // function name -> hosts that received it
}

func (a *mgrArr) note(fn string, h int) {
	a.mu.Lock()
	a.got[fn] = append(a.got[fn], h)
	a.mu.Unlock()
}

func (a *mgrArr) take(fn string) []int {
	a.mu.Lock()
	defer a.mu.Unlock()
	w := a.got[fn]
	if len(w) > 0 {
		delete(a.got, fn)
	}
	return w
}

func mgrServe(s *mgrSrv, h int, arr *mgrArr) {
	for {
		c, err := s.ln.Accept()
		if err != nil {
			return
		}
		go func(c net.Conn) {
			defer c.Close()
			hdr := make([]byte, 4)
			for {
				if _, err := io.ReadFull(c, hdr); err != nil {
					return
				}
				n := binary.BigEndian.Uint32(hdr)
				if n < 4 || n > 10<<20 {
					return
				}
				body := make([]byte, n-4)
				if _, err := io.ReadFull(c, body); err != nil {
					return
				}
				var req requestf.RequestPacket
				if err := req.ReadFrom(codec.NewReader(body)); err != nil {
					continue
				}
				if req.SFuncName == "tars_ping" {
					continue
				}
				if req.CPacketType == basef.TARSONEWAY {
					arr.note(req.SFuncName, h)
					continue
				}
				if atomic.LoadInt32(&s.mute) == 1 {
					continue
				}
				resp := requestf.ResponsePacket{IVersion: req.IVersion, IRequestId: req.IRequestId, SBuffer: []int8{}}
				buf := codec.NewBuffer()
				if err := resp.WriteTo(buf); err != nil {
					continue
				}
				b := buf.ToBytes()
				pkt := make([]byte, 4+len(b))
				binary.BigEndian.PutUint32(pkt, uint32(len(pkt)))
				copy(pkt[4:], b)
				if _, err := c.Write(pkt); err != nil {
					return
				}
			}
		}(c)
	}
}

// mgrRegistry answers the first query (the manager's initial refresh) at once; every later query -- they come from
// the manager's refresh ticker -- waits until the scenario grants a tick.  Replies are fresh slices in a random
// order that is not ascending by host.
type mgrRegistry struct {
	mu      sync.Mutex
	eps     []endpointf.EndpointF
	rng     *rand.Rand
	tokens  int
	arrived int
	served  int
	free    bool
}

var _ registry.Registrar = (*mgrRegistry)(nil)

func (r *mgrRegistry) Registry(context.Context, *registry.ServantInstance) error   { return nil }
func (r *mgrRegistry) Deregister(context.Context, *registry.ServantInstance) error { return nil }
func (r *mgrRegistry) QueryServant(context.Context, string) ([]registry.Endpoint, []registry.Endpoint, error) {
	r.mu.Lock()
	r.arrived++
	me := r.arrived
	for me > 1 && r.tokens == 0 && !r.free {
		r.mu.Unlock()
		time.Sleep(500 * time.Microsecond)
		r.mu.Lock()
	}
	if me > 1 && !r.free {
		r.tokens--
	}
	r.served = me
	out := append([]endpointf.EndpointF(nil), r.eps...)
	for try := 0; try < 20 && len(out) > 1; try++ {
		r.rng.Shuffle(len(out), func(i, j int) { out[i], out[j] = out[j], out[i] })
		asc := true
		for i := 1; i < len(out); i++ {
			asc = asc && out[i-1].Host <= out[i].Host
		}
		if !asc {
			break
		}
	}
	r.mu.Unlock()
	return out, nil, nil
}
func (r *mgrRegistry) QueryServantBySet(ctx context.Context, id, _ string) ([]registry.Endpoint, []registry.Endpoint, error) {
	return r.QueryServant(ctx, id)
}

func (r *mgrRegistry) set(eps []endpointf.EndpointF) {
	r.mu.Lock()
	r.eps = append([]endpointf.EndpointF(nil), eps...)
	r.mu.Unlock()
}

// tick lets exactly one refresh through and returns when it has been carried out: the refresher is one goroutine, so
// the arrival of its NEXT query (which then waits at the gate) means that the previous refresh has returned.
func (r *mgrRegistry) tick() error {
	r.mu.Lock()
	r.tokens++
	r.mu.Unlock()
	deadline := time.Now().Add(10 * time.Second)
	for {
		r.mu.Lock()
		done := r.tokens == 0 && r.arrived > r.served
		r.mu.Unlock()
		if done {
			return nil
		}
		if time.Now().After(deadline) {
			return fmt.Errorf("the manager's refresher did not query the registry within 10 s")
		}
		time.Sleep(time.Millisecond)
	}
}

func (r *mgrRegistry) release() {
	r.mu.Lock()
	r.free = true
	r.mu.Unlock()
}

type mgrObs struct {
	obsJ
	Act []int `json:"act"` // hosts of ServantProxy.Endpoints() after the operation, in its order
}

type mgrRec struct {
	I    int      `json:"i"`
	S    string   `json:"s"` // "mgr"
	Wt   bool     `json:"wt"`
	Hang bool     `json:"hang"`
	Obs  []mgrObs `json:"obs"`
	Skip string   `json:"skip"` // the history could not be carried out as scripted from this point (not judged beyond)
}

type mgrEnv struct {
	servers map[int]*mgrSrv // by host number
	arr     *mgrArr
	seed    int64
	k, kw   int
	calls   int
	ticks   int
	blocks  int
	recov   int
}

func (env *mgrEnv) hostOf(host string) int {
	for h, s := range env.servers {
		if s.host == host {
			return h
		}
	}
	return -1
}

// runMgrHistory carries out one history on a fresh communicator / registry / servant proxy.
func (env *mgrEnv) runMgrHistory(idx int, sc scriptJ, wt bool) (rec mgrRec) {
	rec = mgrRec{I: idx, S: "mgr", Wt: wt, Obs: []mgrObs{}}
	for _, s := range env.servers {
		atomic.StoreInt32(&s.mute, 0)
	}
	if len(sc.Ops) == 0 || sc.Ops[0].O != "K" {
		rec.Skip = "history does not start with a registry reply"
		return
	}
	reg := &mgrRegistry{rng: rand.New(rand.NewSource(env.seed*7919 + int64(idx)))}
	defer reg.release()
	publish := func(l []epJ) {
		var out []endpointf.EndpointF
		for _, e := range l {
			s := env.servers[e.H]
			t := int32(endpoint.ELoop)
			if e.T == 1 {
				t = int32(endpoint.EStaticWeight)
			}
			out = append(out, endpointf.EndpointF{Host: s.host, Port: s.port, Timeout: 3000, Istcp: endpoint.TCP,
				Weight: int32(e.W), WeightType: t})
		}
		reg.set(out)
	}
	var sp *tars.ServantProxy
	defer func() {
		if sp != nil {
			tars.VerifFailoverClose(sp)
		}
	}()
	nameOf := func(h int) string { return env.servers[h].name() }
	active := func() map[string]bool {
		m := map[string]bool{}
		for _, n := range tars.VerifFailoverActive(sp) {
			m[n] = true
		}
		return m
	}
	callSeq := 0
	twoWay := func(hash bool, code uint32, d time.Duration) error {
		ctx := current.ContextWithClientCurrent(context.Background())
		if hash && !current.SetClientHash(ctx, int(tars.ModHash), code) {
			return fmt.Errorf("SetClientHash refused")
		}
		ctx, cancel := context.WithTimeout(ctx, d)
		defer cancel()
		callSeq++
		var resp requestf.ResponsePacket
		return sp.TarsInvoke(ctx, byte(basef.TARSNORMAL), fmt.Sprintf("x%d_%d", idx, callSeq), []byte{}, nil, nil, &resp)
	}
	// a call finds the probe queue before it finds a selector: empty it (probes of endpoints that stay blocked time out)
	drainProbes := func() error {
		for i := 0; i < 8; i++ {
			q, _ := tars.VerifFailoverProbeQueue(sp)
			if len(q) == 0 {
				return nil
			}
			for range q {
				_ = twoWay(false, 0, 60*time.Millisecond)
			}
		}
		return fmt.Errorf("probe queue does not drain")
	}
	window := func(step int, o *mgrObs) error {
		if err := drainProbes(); err != nil {
			return err
		}
		k := env.k
		if wt {
			k = env.kw
		}
		o.Sel = make([]int, 0, k)
		failed := make([]bool, k)
		for j := 0; j < k; j++ {
			var err error
			c := guard(func() {
				var resp requestf.ResponsePacket
				err = sp.TarsInvoke(context.Background(), byte(basef.TARSONEWAY), fmt.Sprintf("w%d_%d_%d", idx, step, j), []byte{}, nil, nil, &resp)
			})
			env.calls++
			if c != nil {
				o.SP, o.SPF = c.Msg, c.Func
				return nil
			}
			failed[j] = err != nil
		}
		deadline := time.Now().Add(10 * time.Second)
		for j := 0; j < k; j++ {
			if failed[j] {
				o.Sel = append(o.Sel, 0)
				continue
			}
			fn := fmt.Sprintf("w%d_%d_%d", idx, step, j)
			var w []int
			for {
				if w = env.arr.take(fn); len(w) > 0 || time.Now().After(deadline) {
					break
				}
				time.Sleep(time.Millisecond)
			}
			if len(w) != 1 {
				return fmt.Errorf("one-way call %s was received by %v (want exactly one server)", fn, w)
			}
			o.Sel = append(o.Sel, w[0])
		}
		for _, ep := range sp.Endpoints() {
			o.Act = append(o.Act, env.hostOf(ep.Host))
		}
		return nil
	}

	for step, op := range sc.Ops {
		o := mgrObs{Act: []int{}}
		o.Sel = []int{}
		var err error
		switch op.O {
		case "K":
			publish(op.L)
			if sp == nil {
				comm := tars.NewCommunicator(tars.Registrar(reg))
				sp = tars.NewServantProxy(comm, fmt.Sprintf("C13.Mgr%d.Obj%d%v", env.seed, idx, wt))
				sp.TarsSetTimeout(3000)
			} else {
				err = reg.tick()
				env.ticks++
			}
		case "B":
			h := op.H
			if !active()[nameOf(h)] {
				err = fmt.Errorf("%s is not in the manager's active list before it is made to fail", nameOf(h))
				break
			}
			// a mod-hash code that the manager routes to h
			code, found := uint32(0), false
			for c := uint32(0); c < 64 && !found; c++ {
				if n, ok := tars.VerifFailoverDrySelect(sp, "mod", c); ok && n == nameOf(h) {
					code, found = c, true
				}
			}
			if !found {
				err = fmt.Errorf("no hash code is routed to %s", nameOf(h))
				break
			}
			atomic.StoreInt32(&env.servers[h].mute, 1)
			var wg sync.WaitGroup
			for i := 0; i < 5; i++ {
				wg.Add(1)
				go func() { defer wg.Done(); _ = twoWay(true, code, 40*time.Millisecond) }()
			}
			wg.Wait()
			if hl := tars.VerifFailoverHealthOf(sp)[nameOf(h)]; hl.LastFailCount < 5 {
				err = fmt.Errorf("could not make %s fail: %d consecutive failures after five unanswered calls", nameOf(h), hl.LastFailCount)
				break
			}
			tars.VerifFailoverShift(sp, 6) // more than 5 s without a success
			tars.VerifFailoverCheckStatus(sp)
			if active()[nameOf(h)] {
				err = fmt.Errorf("%s still in the manager's active list after five failures and a status check", nameOf(h))
				break
			}
			env.blocks++
		case "V":
			h := op.H
			atomic.StoreInt32(&env.servers[h].mute, 0)
			tars.VerifFailoverShift(sp, 31) // blocked for more than 30 s: due for a probe
			tars.VerifFailoverCheckStatus(sp)
			queue, _ := tars.VerifFailoverProbeQueue(sp)
			inQueue := false
			for _, n := range queue {
				inQueue = inQueue || n == nameOf(h)
			}
			if !inQueue {
				err = fmt.Errorf("%s is not queued for a probe after 31 s of being blocked (queue %v)", nameOf(h), queue)
				break
			}
			for _, n := range queue {
				d := 60 * time.Millisecond
				if n == nameOf(h) {
					d = 3 * time.Second
				}
				if e := twoWay(false, 0, d); n == nameOf(h) && e != nil {
					err = fmt.Errorf("probe call to %s failed: %v", n, e)
				}
			}
			deadline := time.Now().Add(5 * time.Second)
			for err == nil && !active()[nameOf(h)] && time.Now().Before(deadline) {
				time.Sleep(time.Millisecond)
			}
			if err == nil && !active()[nameOf(h)] {
				err = fmt.Errorf("%s not back in the manager's active list after an answered probe call", nameOf(h))
			}
			env.recov++
		default:
			err = fmt.Errorf("unknown operation %q", op.O)
		}
		if err == nil {
			err = window(step, &o)
		}
		if err != nil {
			rec.Skip = fmt.Sprintf("step %d (%s): %v", step+1, op.O, err)
			return
		}
		rec.Obs = append(rec.Obs, o)
		if o.SP != "" {
			return
		}
	}
	return
}

func mgrMain(args []string) error {
	fs := flag.NewFlagSet("mgr", flag.ExitOnError)
	in := fs.String("in", "", "manager-level scripts (ndjson), from Gen_Mgr")
	out := fs.String("out", "", "observations (ndjson)")
	wt := fs.Bool("wt", false, "the scripts' endpoints carry static weights")
	seed := fs.Int64("seed", 1, "seed (order of the registry's replies)")
	shard := fs.Int("shard", 0, "this process takes the scripts i with i mod shards == shard")
	shards := fs.Int("shards", 1, "")
	k := fs.Int("k", 8, "selections per observation")
	kw := fs.Int("kw", 40, "selections per observation when static weights apply")
	fs.Parse(args)
	var scripts []scriptJ
	if err := readLines(*in, func(b []byte) error {
		var s scriptJ
		if err := json.Unmarshal(b, &s); err != nil {
			return err
		}
		scripts = append(scripts, s)
		return nil
	}); err != nil {
		return err
	}
	// the status checker never ticks on its own (the histories run it themselves, with virtual time); the refresher
	// ticks every 10 ms and the registry of the history decides which of its queries is answered when
	if !tars.VerifFailoverQuiesce() {
		return fmt.Errorf("endpoint manager already running: cannot quiesce its tickers")
	}
	tars.GetClientConfig().RefreshEndpointInterval = 10
	rogger.SetLevel(rogger.OFF)
	env := &mgrEnv{servers: map[int]*mgrSrv{}, arr: &mgrArr{got: map[string][]int{}}, seed: *seed, k: *k, kw: *kw}
	for h := 1; h <= 5; h++ {
		host := fmt.Sprintf("127.0.3.%d", h)
		ln, err := net.Listen("tcp", host+":0")
		if err != nil {
			return fmt.Errorf("listen %s: %v", host, err)
		}
		s := &mgrSrv{ln: ln, host: host, port: int32(ln.Addr().(*net.TCPAddr).Port)}
		env.servers[h] = s
		go mgrServe(s, h, env.arr)
		defer ln.Close()
	}
	w, err := createND(*out)
	if err != nil {
		return err
	}
	n, skipped, nsel := 0, 0, 0
	for i, sc := range scripts {
		if i%*shards != *shard {
			continue
		}
		rec := env.runMgrHistory(i, sc, *wt)
		if rec.Skip != "" {
			skipped++
		}
		for _, o := range rec.Obs {
			nsel += len(o.Sel)
		}
		n++
		if err := w.write(rec); err != nil {
			return err
		}
	}
	if err := w.close(); err != nil {
		return err
	}
	fmt.Printf("{\"histories\":%d,\"skipped\":%d,\"selections\":%d,\"calls\":%d,\"refresh_ticks\":%d,\"blocked\":%d,\"recovered\":%d}\n",
		n, skipped, nsel, env.calls, env.ticks, env.blocks, env.recov)
	return nil
}
