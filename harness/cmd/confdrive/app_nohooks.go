//go:build !c17hooks

package main

// Without tars/verif_export_conf.go the per-servant transport configuration is not reachable: not observed.

const hooked = false

func transportConfs() []Transport { return make([]Transport, 0) }
